"""Finite alphabets of the expression language and the exhaustive generators built on them.

KINDS maps an operator kind to (slot types, constructor).  A slot type selects default fillers
that keep the node inside its domain; the *child under test* may be anything (rows where the
reference leaves the domain are excluded and counted).
"""
from __future__ import annotations

import itertools
import os

_SEED = int(os.environ.get('VERIF_SEED', '0') or 0)

# ------------------------------------------------------------------ data alphabets (selected by seed)
_TABLES = [
    dict(x2=[-1.0, 0.5, 2.0, -0.25, 1.0], choice=[1, 2, 3, 1, 2], x1=[1.0, 2.0, 0.5, 3.0, 1.5],
         av2=[1, 1, 0, 0, 1], unused=[7.0, 8.0, 9.0, 10.0, 11.0], z=[0, 1, 2, 1, 0]),
    dict(x2=[0.75, -2.0, 1.0, 0.5, -0.5], choice=[3, 2, 1, 2, 3], x1=[0.5, 1.0, 2.5, 1.25, 4.0],
         av2=[0, 1, 1, 1, 0], unused=[1.0, 2.0, 3.0, 4.0, 5.0], z=[2, 0, 1, 2, 1]),
    dict(x2=[2.0, 1.5, -1.5, 0.25, -0.75], choice=[2, 1, 2, 3, 1], x1=[2.0, 0.25, 1.0, 1.75, 0.75],
         av2=[1, 0, 1, 0, 0], unused=[3.0, 1.0, 4.0, 1.0, 5.0], z=[1, 2, 0, 0, 2]),
]
TABLE = _TABLES[_SEED % len(_TABLES)]
COLUMNS = list(TABLE)  # deliberately not alphabetical, with an unused column
NROWS = 5
ROWS = [{c: float(TABLE[c][i]) for c in COLUMNS} for i in range(NROWS)]

_PARAMS = [
    dict(b_z=0.5, B2=-0.75, b10=1.25, b_a=0.25, a_fix=2.0, Z_fix=-1.5),
    dict(b_z=-0.25, B2=0.5, b10=0.75, b_a=1.5, a_fix=0.5, Z_fix=1.25),
    dict(b_z=1.25, B2=0.25, b10=-0.5, b_a=0.75, a_fix=1.5, Z_fix=0.75),
]
PARAMS = _PARAMS[(_SEED // 3) % len(_PARAMS)]
FIXED = ('a_fix', 'Z_fix')   # a_fix sorts between B2 and b10; Z_fix sorts before a_fix but is met after it in the fillers
FREE = [n for n in PARAMS if n not in FIXED]
# second parameter point: a dictionary naming only some parameters
# (one named value is exactly 0.0 while the declared value is not: a supplied zero is a value, not "nothing supplied")
PARTIAL = {'b_z': 1.5, 'B2': 0.0} if _SEED % 2 == 0 else {'b10': 0.0, 'b_a': 0.5}


def param_points():
    """[(label, betas-argument for the library, full name->value map for the reference)]"""
    full2 = dict(PARAMS)
    full2.update(PARTIAL)
    return [('defaults', None, dict(PARAMS)), ('partial-dict', _typed(PARTIAL), full2)]


def _typed(d):
    """The same values under other legal numeric types: whole numbers as Python ints, numbers that a float32 holds exactly
    as numpy float32 scalars (what a user gets from an array or a data frame), the others as numpy float64 scalars."""
    import numpy as np
    out = {}
    for k, v in d.items():
        if float(v) == int(v):
            out[k] = int(v)
        elif float(np.float32(v)) == float(v):
            out[k] = np.float32(v)
        else:
            out[k] = np.float64(v)
    return out


def betas_spec():
    return {n: (v, None, None, 1 if n in FIXED else 0) for n, v in PARAMS.items()}


# ------------------------------------------------------------------ fillers by slot type
FILL = {
    'any': [('var', 'x1'), ('beta', 'b_z'), ('num', 2.0), ('beta', 'a_fix'), ('beta', 'Z_fix'), ('var', 'x2'), ('beta', 'B2'),
            ('num', 0.5), ('beta', 'b10'), ('beta', 'b_a'), ('num', 0.123456789012), ('num', -3.75e-07)],
    'pos': [('var', 'x1'), ('num', 2.0), ('beta', 'a_fix'), ('+', ('var', 'x1'), ('num', 1.0)), ('num', 0.5)],
    'small': [('var', 'x2'), ('beta', 'B2'), ('num', 0.5), ('beta', 'b_z'), ('var', 'x1')],
    'key': [('var', 'z')],
    'cond': [('var', 'av2'), ('>', ('var', 'x2'), ('num', 0.0)), ('bool', True), ('<=', ('var', 'x1'), ('num', 1.5)),
             ('bool', False)],
    'choice': [('var', 'choice')],
}


class Rot:
    """Rotating supply of fillers (deterministic)."""

    def __init__(self, start=0):
        self.pos = {k: start for k in FILL}

    def take(self, typ):
        lst = FILL[typ]
        v = lst[self.pos[typ] % len(lst)]
        self.pos[typ] += 1
        return v


def _bin(k):
    return lambda s: (k, s[0], s[1])


def _un(k):
    return lambda s: (k, s[0])


KINDS = {
    '+': (['any', 'any'], _bin('+')),
    '-': (['any', 'any'], _bin('-')),
    '*': (['any', 'any'], _bin('*')),
    '/': (['any', 'pos'], _bin('/')),
    '**': (['pos', 'any'], _bin('**')),                      # Power (expression exponent)
    'powc2': (['any'], lambda s: ('**', s[0], ('num', 2.0))),  # PowerConstant, integer exponent
    'powc.5': (['pos'], lambda s: ('**', s[0], ('num', 0.5))),
    'powc-1': (['pos'], lambda s: ('**', s[0], ('num', -1.0))),
    'rpow': (['small'], lambda s: ('**', ('num', 2.0), s[0])),  # number ** expression
    'neg': (['any'], _un('neg')),
    'exp': (['small'], _un('exp')),
    'log': (['pos'], _un('log')),
    'logzero': (['pos'], _un('logzero')),
    'sin': (['any'], _un('sin')),
    'cos': (['any'], _un('cos')),
    'ncdf': (['any'], _un('ncdf')),
    'min': (['any', 'any'], _bin('min')),
    'max': (['any', 'any'], _bin('max')),
    'and': (['cond', 'cond'], _bin('and')),
    'or': (['cond', 'cond'], _bin('or')),
    '==': (['key', 'any'], _bin('==')),
    '!=': (['any', 'key'], _bin('!=')),
    '<=': (['any', 'any'], _bin('<=')),
    '>=': (['any', 'any'], _bin('>=')),
    '<': (['any', 'any'], _bin('<')),
    '>': (['any', 'any'], _bin('>')),
    'belongs': (['key'], lambda s: ('belongs', s[0], (0, 2, 1.5))),
    'elem': (['key', 'any', 'any', 'any', 'any', 'any'],
             lambda s: ('elem', s[0], ((-1, s[1]), (0, s[2]), (2, s[3]), (1, s[4]), (3, s[5])))),
    'condsum': (['cond', 'any', 'cond', 'any', 'cond', 'any'],
                lambda s: ('condsum', ((s[0], s[1]), (s[2], s[3]), (s[4], s[5])))),
    'multsum': (['any', 'any', 'any'], lambda s: ('multsum', (s[0], s[1], s[2]))),
    'multsumd': (['any', 'any', 'any'], lambda s: ('multsumd', ((10, s[0]), (3, s[1]), (7, s[2])))),
    'loglogit_av': (['choice', 'any', 'any', 'any', 'cond'],
                    lambda s: ('loglogit', s[0], ((1, s[1], None), (3, s[3], ('bool', True)), (2, s[2], s[4])))),
    'loglogit_full': (['choice', 'any', 'any', 'any'],
                      lambda s: ('loglogit', s[0], ((3, s[3], None), (1, s[1], None), (2, s[2], None)))),
    'logit_av': (['choice', 'any', 'any', 'any', 'cond'],
                 lambda s: ('logit', s[0], ((2, s[2], s[4]), (1, s[1], None), (3, s[3], None)))),
}
# kinds usable only as a child (no expression slots)
LEAF_KINDS = {
    'num': lambda r: ('num', 1.5),
    'num_long': lambda r: ('num', 0.3333333333333333),
    'num_tiny': lambda r: ('num', 2.5e-07),
    'num_big': lambda r: ('num', 123456.789012),
    'bool': lambda r: ('bool', True),
    'beta_free': lambda r: ('beta', 'b10'),
    'beta_fixed': lambda r: ('beta', 'a_fix'),
    'var': lambda r: ('var', 'x2'),
    'linutil': lambda r: ('linutil', (('b_z', 'x1'), ('a_fix', 'x2'), ('B2', 'x2'), ('Z_fix', 'x1'))),
}
SLOT_NAMES = {
    'elem': ['key', 'entry-1', 'entry0', 'entry2', 'entry1', 'entry3'],
    'condsum': ['cond1', 'term1', 'cond2', 'term2', 'cond3', 'term3'],
    'loglogit_av': ['choice', 'util1', 'util2', 'util3', 'avail2'],
    'loglogit_full': ['choice', 'util1', 'util2', 'util3'],
    'logit_av': ['choice', 'util1', 'util2', 'util3', 'avail2'],
}


def slot_name(kind, i):
    names = SLOT_NAMES.get(kind)
    if names:
        return names[i]
    n = len(KINDS[kind][0])
    if n == 1:
        return 'child'
    if n == 2:
        return ('left', 'right')[i]
    return f'term{i}'


def instance(kind, rot):
    """Canonical small instance of a kind with default fillers."""
    if kind in LEAF_KINDS:
        return LEAF_KINDS[kind](rot)
    types, ctor = KINDS[kind]
    return ctor([rot.take(t) for t in types])


def plant(parent, slot, child_term, rot):
    """Instance of ``parent`` whose slot ``slot`` holds ``child_term``; other slots default fillers."""
    types, ctor = KINDS[parent]
    vals = [child_term if i == slot else rot.take(t) for i, t in enumerate(types)]
    return ctor(vals)


def all_child_kinds(differentiable_only=False):
    ks = list(LEAF_KINDS) + list(KINDS)
    return ks


def triples():
    """Every (parent kind, slot, child kind)."""
    for p in KINDS:
        for s in range(len(KINDS[p][0])):
            for q in all_child_kinds():
                yield p, s, q


def triple_term(p, s, q, rotation):
    rot = Rot(rotation)
    child = instance(q, Rot(rotation + 1))
    return plant(p, s, child, rot)


# ------------------------------------------------------------------ all small trees
UNARY = ['neg', 'exp', 'log', 'sin', 'cos', 'ncdf', 'powc2', 'logzero']
BINARY = ['+', '-', '*', '/', '**', 'min', 'max', '<=', '==', 'and']
LEAF5 = [('var', 'x1'), ('beta', 'b_z'), ('num', 2.0), ('var', 'x2'), ('beta', 'a_fix'), ('beta', 'Z_fix')]


def trees(depth):
    """All trees over UNARY/BINARY and the 5-leaf alphabet up to ``depth`` (depth 0 = leaves)."""
    if depth == 0:
        yield from LEAF5
        return
    sub = list(trees(depth - 1))
    yield from sub
    for u in UNARY:
        for a in sub:
            yield KINDS[u][1]([a])
    for b in BINARY:
        for a in sub:
            for c in sub:
                yield KINDS[b][1]([a, c])


def chains3():
    """All depth-3 chains P(Q(R(leaf))) over every kind, the chain running through slot 0... and
    through the last slot of each kind."""
    for p in KINDS:
        for q in KINDS:
            for r in KINDS:
                for which in (0, -1):
                    rot = Rot(0)
                    t = instance(r, rot)
                    for kind in (q, p):
                        n = len(KINDS[kind][0])
                        t = plant(kind, which % n, t, rot)
                    yield (p, q, r, which), t
