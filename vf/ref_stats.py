"""Boring reference for estimation statistics (C08).  Plain Python only: fractions, math.
Never imports biogeme, numpy or scipy.

All matrices are lists of lists.  Inputs are floats taken from small dyadic / integer grids, so
``Fraction(x)`` is exact and inverses, pseudo-inverses, sandwich products and sample covariances are
computed *exactly*; they are rounded to float only at the end.
"""
from __future__ import annotations

import math
from fractions import Fraction as F

FMAX = 1.7976931348623157e308
PAIR_CANCEL_MAX = 10 ** 4  # largest accepted ratio (var_i + var_j + 2|cov_ij|) / (var_i + var_j - 2 cov_ij)


# ----------------------------------------------------------------------------- exact linear algebra
def fmat(m):
    return [[F(x) for x in row] for row in m]


def eye(n):
    return [[F(int(i == j)) for j in range(n)] for i in range(n)]


def transpose(a):
    return [list(r) for r in zip(*a)] if a else []


def matmul(a, b):
    bt = transpose(b)
    return [[sum((x * y for x, y in zip(row, col)), F(0)) for col in bt] for row in a]


def neg(a):
    return [[-x for x in row] for row in a]


def rref(a):
    """Reduced row echelon form (exact).  Returns (R, pivot column list)."""
    m = [list(r) for r in a]
    rows, cols = len(m), len(m[0]) if m else 0
    piv = []
    r = 0
    for c in range(cols):
        p = next((i for i in range(r, rows) if m[i][c] != 0), None)
        if p is None:
            continue
        m[r], m[p] = m[p], m[r]
        d = m[r][c]
        m[r] = [x / d for x in m[r]]
        for i in range(rows):
            if i != r and m[i][c] != 0:
                f = m[i][c]
                m[i] = [x - f * y for x, y in zip(m[i], m[r])]
        piv.append(c)
        r += 1
        if r == rows:
            break
    return m, piv


def rank(a):
    return len(rref(a)[1])


def inverse(a):
    n = len(a)
    aug = [list(row) + e for row, e in zip(a, eye(n))]
    r, piv = rref(aug)
    if piv[:n] != list(range(n)):
        raise ZeroDivisionError('singular matrix')
    return [row[n:] for row in r]


def pinv(a):
    """Exact Moore-Penrose pseudo-inverse through a full-rank factorisation A = B C
    (B = pivot columns of A, C = non-zero rows of rref(A)):  A+ = C' (C C')^-1 (B' B)^-1 B'."""
    n = len(a)
    r, piv = rref(a)
    k = len(piv)
    if k == 0:
        return [[F(0)] * n for _ in range(len(a[0]))]
    if k == n == len(a[0]):
        return inverse(a)
    b = [[a[i][c] for c in piv] for i in range(n)]
    c = r[:k]
    ct, bt = transpose(c), transpose(b)
    return matmul(matmul(ct, inverse(matmul(c, ct))), matmul(inverse(matmul(bt, b)), bt))


def is_psd(a):
    """Exact test of positive semi-definiteness of a symmetric matrix: all principal minors >= 0."""
    import itertools
    n = len(a)
    for k in range(1, n + 1):
        for idx in itertools.combinations(range(n), k):
            if det([[a[i][j] for j in idx] for i in idx]) < 0:
                return False
    return True


def det(a):
    n = len(a)
    if n == 1:
        return a[0][0]
    if n == 2:
        return a[0][0] * a[1][1] - a[0][1] * a[1][0]
    return sum(((-1) ** j * a[0][j] * det([row[:j] + row[j + 1:] for row in a[1:]]) for j in range(n)), F(0))


def sample_cov(rows):
    """Sample covariance (divisor B-1) of replications given as rows; exact."""
    b = len(rows)
    k = len(rows[0])
    fr = fmat(rows)
    mean = [sum((r[j] for r in fr), F(0)) / b for j in range(k)]
    return [[sum(((r[i] - mean[i]) * (r[j] - mean[j]) for r in fr), F(0)) / (b - 1) for j in range(k)] for i in range(k)]


def to_float(a):
    return [[float(x) for x in row] for row in a]


# ----------------------------------------------------------------------------- distributions
def phi_cdf(x):
    return 0.5 * math.erfc(-x / math.sqrt(2.0))


def phi_pdf(x):
    return math.exp(-0.5 * x * x) / math.sqrt(2.0 * math.pi)


def p_value(t):
    """2 (1 - Phi(|t|)) in that operation order."""
    return 2.0 * (1.0 - phi_cdf(abs(t)))


def gammainc_p(a, x):
    """Regularised lower incomplete gamma P(a, x) (series / continued fraction)."""
    if x <= 0:
        return 0.0
    lg = math.lgamma(a)
    if x < a + 1.0:
        ap, s, d = a, 1.0 / a, 1.0 / a
        for _ in range(10000):
            ap += 1.0
            d *= x / ap
            s += d
            if abs(d) < abs(s) * 1e-17:
                break
        return s * math.exp(-x + a * math.log(x) - lg)
    tiny = 1e-300
    b = x + 1.0 - a
    c = 1.0 / tiny
    d = 1.0 / b
    h = d
    for i in range(1, 10000):
        an = -i * (i - a)
        b += 2.0
        d = an * d + b
        if abs(d) < tiny:
            d = tiny
        c = b + an / c
        if abs(c) < tiny:
            c = tiny
        d = 1.0 / d
        de = d * c
        h *= de
        if abs(de - 1.0) < 1e-16:
            break
    return 1.0 - math.exp(-x + a * math.log(x) - lg) * h


def chi2_cdf(x, df):
    return gammainc_p(df / 2.0, x / 2.0)


# ----------------------------------------------------------------------------- the statistics
def general(loglike, init, null, k, n):
    """Summary statistics by their defining formulas.  A value is None when its input is absent and
    'undefined' when the formula divides by zero."""
    out = {}
    out['lr_init'] = None if init is None else -2.0 * (init - loglike)
    out['lr_null'] = None if null is None else -2.0 * (null - loglike)

    def rho(l0, kk):
        if l0 is None:
            return None
        if l0 == 0:
            return 'undefined'
        return 1.0 - (loglike - kk) / l0

    out['rho_init'] = rho(init, 0)
    out['rho_null'] = rho(null, 0)
    out['rhobar_init'] = rho(init, k)
    out['rhobar_null'] = rho(null, k)
    out['aic'] = 2.0 * k - 2.0 * loglike
    out['bic'] = -2.0 * loglike + k * math.log(n)
    return out


def family(cov, values):
    """Per-family statistics from an exact covariance matrix (Fractions) and the estimates.
    Undefined entries (zero variance / non-positive pair variance) are the string 'undefined'."""
    k = len(values)
    var = [cov[i][i] for i in range(k)]
    se, t, p = [], [], []
    for i in range(k):
        if var[i] < 0:
            se.append('undefined'); t.append('undefined'); p.append('undefined')
            continue
        s = math.sqrt(float(var[i]))
        se.append(s)
        if var[i] == 0:
            t.append('undefined'); p.append('undefined')
        else:
            tt = values[i] / s
            t.append(tt)
            p.append(p_value(tt))
    covf = to_float(cov)
    corr = [[None] * k for _ in range(k)]
    pt = [[None] * k for _ in range(k)]
    pp = [[None] * k for _ in range(k)]
    all_pos = all(v > 0 for v in var)
    for i in range(k):
        for j in range(k):
            if not all_pos:
                # the library normalises with the whole diagonal at once; with a zero variance anywhere
                # the correlation matrix is not defined as a whole
                corr[i][j] = 'undefined'
            else:
                corr[i][j] = covf[i][j] / (math.sqrt(float(var[i])) * math.sqrt(float(var[j])))
            r = var[i] + var[j] - 2 * cov[i][j]
            if i == j or r <= 0:
                pt[i][j] = 'undefined'
                pp[i][j] = 'undefined'
            elif var[i] + var[j] + 2 * abs(cov[i][j]) > PAIR_CANCEL_MAX * r:
                # var(i) + var(j) - 2 cov(i,j) is a near cancellation: evaluated in floating point from entries
                # that carry a few ulp each, its relative error is that many ulp times the ratio - the pairwise
                # test is ill-conditioned (not comparable at 1e-10), excluded and counted by the driver
                pt[i][j] = 'ill-conditioned'
                pp[i][j] = 'ill-conditioned'
            else:
                pt[i][j] = (values[i] - values[j]) / math.sqrt(float(r))
                pp[i][j] = p_value(pt[i][j])
    return dict(cov=covf, se=se, t=t, p=p, corr=corr, pair_t=pt, pair_p=pp)


def undefined_family(k):
    """A family none of whose figures is defined (bootstrap sample of a single replication: the sample covariance
    divides by B - 1 = 0).  Every entry is the string 'undefined'; the key 'undefined' marks the family."""
    u = 'undefined'
    sq = [[u] * k for _ in range(k)]
    return dict(cov=[list(r) for r in sq], se=[u] * k, t=[u] * k, p=[u] * k, corr=[list(r) for r in sq],
                pair_t=[list(r) for r in sq], pair_p=[list(r) for r in sq], undefined=True)


def sandwich_cancellation(hessian, bhhh):
    """Conditioning of the robust sandwich V B V (V = pinv(-H)), exact: the largest ratio, over the entries, of
    sum |v_ia b_ab v_bj| to |sum v_ia b_ab v_bj|.  1 = no cancellation; inf = an entry that is an exact zero
    made of non-zero terms (in floating point it is rounding noise, relative to nothing)."""
    v = pinv(neg(fmat(hessian)))
    b = fmat(bhhh)
    k = len(v)
    worst = F(1)
    for i in range(k):
        for j in range(k):
            terms = [v[i][p] * b[p][q] * v[q][j] for p in range(k) for q in range(k)]
            s = sum((abs(t) for t in terms), F(0))
            r = abs(sum(terms, F(0)))
            if s == 0:
                continue
            if r == 0:
                return float('inf')
            worst = max(worst, s / r)
    return float(worst)


def outcome_stats(values, hessian, bhhh, bootstrap):
    """The three families from the raw matrices.  hessian / bhhh: K x K floats; bootstrap: B x K or None."""
    a = neg(fmat(hessian))
    v = pinv(a)
    rob = matmul(v, matmul(fmat(bhhh), v))
    out = dict(classical=family(v, values), robust=family(rob, values), bootstrap=None,
               rank=rank(a), k=len(values))
    if bootstrap is not None:
        if len(bootstrap) < 2:
            out['bootstrap'] = undefined_family(len(values))
        else:
            out['bootstrap'] = family(sample_cov(bootstrap), values)
    return out
