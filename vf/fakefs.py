"""In-memory file layer with an operation log, for crash-point enumeration.

Injected into a module's namespace as ``open`` and ``os`` (module globals shadow the
builtins).  Every mutating operation is appended to ``log``; ``image_after(k, cut)``
rebuilds the directory image a process stopped after k complete operations (and
``cut`` bytes of the (k+1)-th, if it is a write) would leave behind.
"""
from __future__ import annotations

import io
import os as _real_os


class _TextFile(io.StringIO):
    """A text file whose writes go to the FakeFS log on flush/close, split the way a
    buffered file would split them (one write at close for small files), but the
    crash enumeration cuts every write at every byte, so the split does not matter."""

    def __init__(self, fs, name, mode):
        super().__init__()
        self.fs, self.name, self.mode = fs, name, mode
        self._flushed = 0

    def flush(self):
        data = self.getvalue()[self._flushed:]
        if data:
            self.fs._op(('write', self.name, data.encode('utf-8')))
            self._flushed += len(data)

    def fileno(self):
        return 1000 + hash(self.name) % 1000

    def close(self):
        if not self.closed:
            self.flush()
            self.fs._op(('close', self.name))
        super().close()

    def __exit__(self, *a):
        self.close()
        return False


class FakeOs:
    """Proxy of the os module: file-system mutators act on the FakeFS."""

    def __init__(self, fs):
        self._fs = fs
        self.path = _FakePath(fs)

    def __getattr__(self, name):
        return getattr(_real_os, name)

    def replace(self, a, b):
        self._fs._op(('rename', str(a), str(b)))

    rename = replace

    def remove(self, a):
        if str(a) not in self._fs.files:
            raise FileNotFoundError(a)
        self._fs._op(('remove', str(a)))

    unlink = remove

    def fsync(self, fd):
        self._fs._op(('fsync',))

    def getpid(self):
        return 4242


class _FakePath:
    def __init__(self, fs):
        self._fs = fs

    def __getattr__(self, name):
        return getattr(_real_os.path, name)

    def exists(self, p):
        return str(p) in self._fs.files

    isfile = exists


class FakeFS:
    def __init__(self, files: dict[str, bytes] | None = None):
        self.initial = dict(files or {})
        self.files: dict[str, bytes] = dict(self.initial)
        self.log: list[tuple] = []
        self.reads = 0

    # -- the seams ----------------------------------------------------------
    def open(self, name, mode='r', *a, **kw):
        name = str(name)
        if 'b' in mode:
            raise NotImplementedError('binary mode not modelled')
        if 'w' in mode or 'x' in mode:
            self._op(('create_trunc', name))
            return _TextFile(self, name, mode)
        if 'a' in mode:
            if name not in self.files:
                self._op(('create_trunc', name))
            return _TextFile(self, name, mode)
        if name not in self.files:
            raise FileNotFoundError(2, 'No such file or directory', name)
        self.reads += 1
        return io.StringIO(self.files[name].decode('utf-8', errors='strict'))

    def os(self):
        return FakeOs(self)

    # -- log ---------------------------------------------------------------
    def _op(self, op):
        self.log.append(op)
        self._apply(self.files, op)

    @staticmethod
    def _apply(files, op, cut=None):
        kind = op[0]
        if kind == 'create_trunc':
            files[op[1]] = b''
        elif kind == 'write':
            data = op[2] if cut is None else op[2][:cut]
            files[op[1]] = files.get(op[1], b'') + data
        elif kind == 'rename':
            if op[1] in files:
                files[op[2]] = files.pop(op[1])
        elif kind == 'remove':
            files.pop(op[1], None)

    def image_after(self, k: int, cut: int | None = None) -> dict[str, bytes]:
        """Directory image after the first k operations (+ ``cut`` bytes of op k)."""
        files = dict(self.initial)
        for op in self.log[:k]:
            self._apply(files, op)
        if cut is not None and k < len(self.log) and self.log[k][0] == 'write':
            self._apply(files, self.log[k], cut=cut)
        return files

    def crash_images(self):
        """Every crash image: all prefixes of the log, and every byte cut of every write.
        Yields (label, image)."""
        for k in range(len(self.log) + 1):
            yield (f'after_op_{k}', self.image_after(k))
            if k < len(self.log) and self.log[k][0] == 'write':
                for cut in range(1, len(self.log[k][2])):
                    yield (f'op_{k}_cut_{cut}', self.image_after(k, cut))
