"""Ambient process configuration chosen by the CALLER of a function, and what a call may leave behind.

Used by the C20 driver ("calling the old name adds nothing but the warning"): the statement is quantified over programs,
and a program chooses how warnings are handled (warning filters, where warnings are displayed, logging levels) BEFORE it
calls a deprecated name.  This module holds, in plain Python (stdlib only, no biogeme import):

 * the finite alphabet of ambient configurations (stack of warning filters x base filter list x display channel x logging
   level) and a context manager that installs one and restores everything afterwards;
 * a reference model of Python's warning-filter resolution (first matching filter decides), cross-checked by the driver
   against Python itself (a probe warning issued under the same configuration);
 * a snapshot of process-global state (warning machinery, logging tree, sys hooks and streams, environment, working
   directory, numeric / random state, ...) with a component-wise comparison.
"""
from __future__ import annotations

import io
import logging
import os
import re
import sys
import warnings

ACTIONS = ['ignore', 'error', 'always', 'default', 'module', 'once']
UNRELATED = [UserWarning, FutureWarning, RuntimeWarning, ImportWarning]   # (one per value alphabet / seed)
MSGS = ['any', 'names', 'other']
CHANNELS = ['record', 'hook', 'stderr', 'logging']
LOGS = ['as-is', 'debug']
BASES = ['inherited', 'reset']
CALLER_MODULE = 'c20_ambient_caller'
CALLER_FILE = '<c20-ambient-caller>'


def categories(seed=0):
    return {'dep': DeprecationWarning, 'all': Warning, 'unrelated': UNRELATED[seed % len(UNRELATED)],
            'pending': PendingDeprecationWarning}


def filter_specs(level):
    """A filter spec is (action, category key, message key)."""
    if level == 'full':
        return [(a, c, m) for a in ACTIONS for c in ('dep', 'all', 'unrelated', 'pending') for m in MSGS]
    if level == 'core':
        return [(a, c, m) for a in ACTIONS for c in ('dep', 'all') for m in ('any', 'names')]
    if level == 'mini':
        return [('ignore', 'dep', 'any'), ('error', 'dep', 'any'), ('always', 'dep', 'any'), ('once', 'all', 'any'),
                ('error', 'all', 'names'), ('ignore', 'unrelated', 'any')]
    if level == 'min':
        return [('ignore', 'dep', 'any'), ('error', 'dep', 'any'), ('always', 'all', 'any')]
    raise ValueError(level)


def config(base, stack, channel='hook', log='as-is', deep=False):
    return dict(base=base, stack=[list(s) for s in stack], channel=channel, log=log, deep=bool(deep))


def config_sets(which):
    """Named, deterministic, finite sets of configurations (JSON-able dicts)."""
    out = []
    if which == 'A':      # every single filter (full alphabet) and no filter at all, on both bases
        for base in BASES:
            out.append(config(base, ()))
            for s in filter_specs('full'):
                out.append(config(base, (s,)))
    elif which == 'B':    # display channel x logging level, on a small filter alphabet
        for base in BASES:
            for st in [()] + [(s,) for s in filter_specs('mini')]:
                for ch in CHANNELS:
                    for lg in LOGS:
                        out.append(config(base, st, ch, lg))
    elif which == 'C':    # every ordered stack of two filters (core alphabet): which one is on top decides
        for s1 in filter_specs('core'):
            for s2 in filter_specs('core'):
                out.append(config('reset', (s1, s2), 'record'))
    elif which == 'C3':   # stacks of three on the smallest alphabet
        sp = filter_specs('mini')
        for s1 in sp:
            for s2 in sp:
                for s3 in sp:
                    out.append(config('reset', (s1, s2, s3), 'record'))
    elif which == 'MIN':
        out.append(config('inherited', (), 'record'))
        out.append(config('reset', (), 'record'))
        for s in filter_specs('min'):
            out.append(config('reset', (s,), 'record'))
    elif which == 'DEEP':
        out.append(config('inherited', (), 'record', 'as-is', deep=True))
        out.append(config('reset', (('always', 'dep', 'any'),), 'hook', 'debug', deep=True))
    else:
        raise ValueError(which)
    return out


def config_label(cfg):
    st = '+'.join('-'.join(s) for s in cfg['stack']) or 'no-filter'
    return f'{cfg["base"]}/{st}/{cfg["channel"]}/{cfg["log"]}' + ('/deep' if cfg.get('deep') else '')


# ------------------------------------------------------------------------------------------ reference model of the filters
def _matches(pat, text):
    if pat is None:
        return True
    if isinstance(pat, str):
        return pat == text
    return pat.match(text) is not None


def model_action(filters, defaultaction, text, category, module, lineno):
    """What Python does with a warning: the first filter that matches decides, else the default action."""
    for action, msg, cat, mod, ln in filters:
        if _matches(msg, text) and issubclass(category, cat) and _matches(mod, module) and (ln == 0 or ln == lineno):
            return action
    return defaultaction


def model_disposition(action):
    """With fresh 'already warned' registries: 'raised' | 'silent' | 'shown' (exactly once)."""
    return {'error': 'raised', 'ignore': 'silent'}.get(action, 'shown')


# ------------------------------------------------------------------------------------------ calling from a fresh caller
_CALL = compile('__r__ = __f__(*__a__, **__k__)', CALLER_FILE, 'exec')


def call_fresh(f, args=(), kwargs=None):
    """Calls f from a brand new module namespace (its own ``__warningregistry__``)."""
    ns = {'__name__': CALLER_MODULE, '__f__': f, '__a__': tuple(args), '__k__': dict(kwargs or {})}
    exec(_CALL, ns)
    return ns['__r__']


# ------------------------------------------------------------------------------------------ the ambient configuration
_WLINE = re.compile(r'^(?P<file>.*?):(?P<line>\d+): (?P<cat>[A-Za-z_][A-Za-z0-9_.]*): (?P<text>.*)$')


def _parse_formatted(text):
    """Default ``formatwarning`` output -> ([(category name, text)], [other lines])."""
    shown, other = [], []
    prev_warning = False
    for line in text.splitlines():
        m = _WLINE.match(line)
        if m and m.group('cat').split('.')[-1].endswith(('Warning', 'Error')):
            shown.append((m.group('cat').split('.')[-1], m.group('text')))
            prev_warning = True
        elif prev_warning and line.startswith('  '):
            prev_warning = False   # (the quoted source line of the warning)
        elif line.strip():
            other.append(line)
            prev_warning = False
    return shown, other


class Ambient:
    """Installs one configuration; everything is put back on exit.

    ``shown()`` -> list of (category name, text) of the warnings displayed so far through the chosen channel;
    ``noise()`` -> what else arrived (log records, text on stdout / stderr)."""

    def __init__(self, cfg, names_regex, seed=0):
        self.cfg = cfg
        self.cats = categories(seed)
        self.names_regex = names_regex

    # -- installation
    def __enter__(self):
        cfg = self.cfg
        self._once = dict(warnings.onceregistry)
        warnings.onceregistry.clear()
        self._cw = warnings.catch_warnings(record=(cfg['channel'] == 'record'))
        self._rec = self._cw.__enter__()
        if cfg['base'] == 'reset':
            warnings.resetwarnings()
        for action, cat, msg in cfg['stack']:
            if msg == 'any':
                warnings.simplefilter(action, self.cats[cat])
            else:
                warnings.filterwarnings(action, message=self.names_regex if msg == 'names' else 'c20 matches nothing',
                                        category=self.cats[cat])
        self._hooked = []
        self._stderr = sys.stderr
        self._stdout = sys.stdout
        self._errbuf = io.StringIO()
        self._outbuf = io.StringIO()
        sys.stderr = self._errbuf
        sys.stdout = self._outbuf
        # logging: a recording handler on the root logger; 'debug' = the caller has turned everything on
        self.records = []
        outer = self

        class H(logging.Handler):
            def emit(self, record):
                outer.records.append((record.name, record.levelname, record.getMessage()))

        self._h = H(level=0)
        root = logging.getLogger()
        self._root = root
        self._disable = root.manager.disable
        root.manager.disable = 0
        if hasattr(root.manager, '_clear_cache'):
            root.manager._clear_cache()
        root.addHandler(self._h)
        self._levels = None
        if cfg['log'] == 'debug':
            self._levels = [(root, root.level)]
            root.setLevel(1)
            for name in sorted(root.manager.loggerDict):
                lg = root.manager.loggerDict[name]
                if isinstance(lg, logging.Logger) and lg.level != logging.NOTSET:
                    self._levels.append((lg, lg.level))
                    lg.setLevel(logging.NOTSET)
        self._pyw = None
        if cfg['channel'] == 'hook':
            def hook(message, category, filename, lineno, file=None, line=None):
                outer._hooked.append((category.__name__, str(message)))
            self._hook = hook
            warnings.showwarning = hook
        elif cfg['channel'] == 'logging':
            self._pyw = logging.getLogger('py.warnings')
            self._pyw_state = (self._pyw.level, self._pyw.propagate)
            self._pyw.setLevel(logging.WARNING)
            self._pyw.propagate = False
            self._pyw_records = []

            class P(logging.Handler):
                def emit(self, record):
                    outer._pyw_records.append(record.getMessage())

            self._pyw_h = P(level=0)
            self._pyw.addHandler(self._pyw_h)
            logging.captureWarnings(True)
        return self

    def __exit__(self, *exc):
        cfg = self.cfg
        if cfg['channel'] == 'logging':
            logging.captureWarnings(False)
            self._pyw.removeHandler(self._pyw_h)
            self._pyw.setLevel(self._pyw_state[0])
            self._pyw.propagate = self._pyw_state[1]
        if self._levels is not None:
            for lg, lvl in self._levels:
                lg.setLevel(lvl)
        self._root.removeHandler(self._h)
        self._root.manager.disable = self._disable
        if hasattr(self._root.manager, '_clear_cache'):
            self._root.manager._clear_cache()
        sys.stderr = self._stderr
        sys.stdout = self._stdout
        self._cw.__exit__(None, None, None)
        warnings.onceregistry.clear()
        warnings.onceregistry.update(self._once)
        return False

    # -- observation
    def shown(self):
        ch = self.cfg['channel']
        if ch == 'record':
            return [(w.category.__name__, str(w.message)) for w in self._rec]
        if ch == 'hook':
            return list(self._hooked)
        if ch == 'stderr':
            return _parse_formatted(self._errbuf.getvalue())[0]
        out = []
        for m in self._pyw_records:
            out.extend(_parse_formatted(m)[0])
        return out

    def noise(self):
        """(log records, stdout text, stderr lines that are not a displayed warning)"""
        err = self._errbuf.getvalue()
        if self.cfg['channel'] == 'stderr':
            err = '\n'.join(_parse_formatted(err)[1])
        return list(self.records), self._outbuf.getvalue(), err

    def fresh_registries(self):
        """Forgets which warnings were already shown ('once' / 'default' / 'module' book-keeping of Python itself)."""
        warnings.onceregistry.clear()


# ------------------------------------------------------------------------------------------ process-global state
IDENTITY = 'is'
EQUAL = 'eq'


def _ids(seq):
    return tuple(seq)


def _digest(x):
    import hashlib
    return hashlib.sha1(repr(x).encode('utf-8', 'replace')).hexdigest()[:16]


def process_state():
    """component -> (mode, value).  IDENTITY components are compared with ``is`` (element-wise for tuples)."""
    import builtins
    import decimal
    import gc
    import locale
    import random
    import signal
    import threading

    st = {}
    st['warning-filters'] = (EQUAL, tuple(warnings.filters))
    st['warning-filters:list-object'] = (IDENTITY, warnings.filters)
    st['warning-default-action'] = (EQUAL, warnings.defaultaction)
    st['warning-display-hooks'] = (IDENTITY, (warnings.showwarning, warnings.formatwarning,
                                              getattr(warnings, '_showwarnmsg_impl', None),
                                              getattr(warnings, '_formatwarnmsg_impl', None),
                                              getattr(logging, '_warnings_showwarning', None)))
    root = logging.getLogger()
    st['logging:root'] = (EQUAL, (root.level, root.manager.disable, logging.raiseExceptions, root.disabled))
    st['logging:root-handlers'] = (IDENTITY, tuple(root.handlers))
    loggers = []
    handlers = []
    for name in sorted(root.manager.loggerDict):
        lg = root.manager.loggerDict[name]
        if isinstance(lg, logging.Logger):
            loggers.append((name, lg.level, lg.disabled, lg.propagate, len(lg.handlers)))
            handlers.extend(lg.handlers)
        else:
            loggers.append((name, 'placeholder'))
    st['logging:loggers'] = (EQUAL, tuple(loggers))
    st['logging:logger-handlers'] = (IDENTITY, tuple(handlers))
    st['logging:classes'] = (IDENTITY, (logging.getLoggerClass(), logging.getLogRecordFactory(), logging.lastResort))
    st['sys:streams'] = (IDENTITY, (sys.stdout, sys.stderr, sys.stdin))
    st['sys:hooks'] = (IDENTITY, (sys.excepthook, sys.displayhook, getattr(sys, 'unraisablehook', None), sys.gettrace(),
                                  sys.getprofile(), threading.excepthook))
    st['sys:path'] = (EQUAL, (tuple(sys.path), tuple(sys.argv)))
    st['sys:import-hooks'] = (IDENTITY, tuple(sys.meta_path) + tuple(sys.path_hooks))
    st['sys:limits'] = (EQUAL, (sys.getrecursionlimit(), sys.getswitchinterval(), sys.dont_write_bytecode,
                                 getattr(sys, 'get_int_max_str_digits', lambda: None)()))
    st['os:environ'] = (EQUAL, dict(os.environ))
    try:
        st['os:cwd'] = (EQUAL, (os.getcwd(), tuple(sorted(os.listdir('.')))))
    except OSError:
        st['os:cwd'] = (EQUAL, None)
    st['builtins'] = (EQUAL, tuple(sorted(vars(builtins))))
    st['random:python'] = (EQUAL, hash(random.getstate()))
    np = sys.modules.get('numpy')
    if np is not None:
        s = np.random.get_state()
        st['random:numpy'] = (EQUAL, (s[0], hash(s[1].tobytes()), s[2:]))
        st['numpy:settings'] = (EQUAL, (tuple(sorted(np.geterr().items())),
                                        tuple(sorted((k, repr(v)) for k, v in np.get_printoptions().items()))))
    pd = sys.modules.get('pandas')
    if pd is not None:
        opts = []
        for o in ('mode.chained_assignment', 'mode.copy_on_write', 'display.max_rows', 'display.max_columns',
                  'display.precision', 'display.float_format', 'display.width'):
            try:
                opts.append((o, repr(pd.get_option(o))))
            except Exception:   # noqa  (option unknown in this pandas)
                opts.append((o, None))
        st['pandas:options'] = (EQUAL, tuple(opts))
    ctx = decimal.getcontext()
    st['misc:numeric-context'] = (EQUAL, (ctx.prec, ctx.rounding, ctx.Emin, ctx.Emax, ctx.capitals, ctx.clamp))
    try:
        loc = locale.setlocale(locale.LC_ALL)
    except locale.Error:
        loc = None
    st['misc:locale'] = (EQUAL, loc)
    try:
        sig = (signal.getsignal(signal.SIGINT), signal.getsignal(signal.SIGTERM))
    except ValueError:
        sig = ()
    st['misc:signal-handlers'] = (IDENTITY, sig)
    st['misc:runtime'] = (EQUAL, (gc.isenabled(), gc.get_threshold()))
    return st


_SIMPLE = (bool, int, float, str, bytes, type(None))


def namespace_state(ns, skip=('__warningregistry__', '__builtins__')):
    """A module / class / function namespace: name -> value for simple values, name -> the object itself otherwise."""
    eq, ident_names, ident = {}, [], []
    for name in sorted(ns, key=str):
        if name in skip:
            continue
        v = ns[name]
        if type(v) in _SIMPLE:
            eq[name] = v
        else:
            ident_names.append(name)
            ident.append(v)
    return eq, tuple(ident_names), tuple(ident)


def add_namespace(st, component, ns):
    eq, names, ident = namespace_state(ns)
    st[component + ':values'] = (EQUAL, (tuple(eq.items()), names))
    st[component + ':bindings'] = (IDENTITY, ident)


def _fmt_filter(f):
    try:
        action, msg, cat, mod, ln = f
        return (action, getattr(msg, 'pattern', msg), getattr(cat, '__name__', cat), getattr(mod, 'pattern', mod), ln)
    except Exception:   # noqa
        return repr(f)


def _same(mode, a, b):
    if mode == IDENTITY:
        if isinstance(a, tuple) and isinstance(b, tuple):
            return len(a) == len(b) and all(x is y for x, y in zip(a, b))
        return a is b
    return a == b


def diff_state(before, after):
    """-> list of (component, human-readable description)."""
    out = []
    for comp in sorted(set(before) | set(after)):
        if comp not in before or comp not in after:
            out.append((comp, 'component appeared / disappeared'))
            continue
        mode, a = before[comp]
        _, b = after[comp]
        if _same(mode, a, b):
            continue
        if comp == 'warning-filters':
            added = [_fmt_filter(f) for f in b if f not in a]
            removed = [_fmt_filter(f) for f in a if f not in b]
            desc = (f'the list of warning filters was changed: added {added}, removed {removed}'
                    + ('' if added or removed else f', reordered: {[_fmt_filter(f) for f in b][:6]}'))
        elif comp == 'os:environ':
            keys = sorted(k for k in set(a) | set(b) if a.get(k) != b.get(k))
            desc = f'environment variables changed: {keys[:8]}'
        elif mode == IDENTITY:
            desc = 'bound to other object(s) than before the call'
            if isinstance(a, tuple) and isinstance(b, tuple):
                desc += f' ({len(a)} -> {len(b)} entries)' if len(a) != len(b) else \
                    f' (entry {[i for i, (x, y) in enumerate(zip(a, b)) if x is not y][:4]})'
        elif comp.endswith(':values') and isinstance(a, tuple) and len(a) == 2:
            da, db = dict(a[0]), dict(b[0])
            keys = sorted(k for k in set(da) | set(db) if da.get(k, '<absent>') != db.get(k, '<absent>'))
            names = sorted(set(a[1]) ^ set(b[1]))
            desc = f'values changed: { {k: (da.get(k, "<absent>"), db.get(k, "<absent>")) for k in keys[:6]} }' + \
                (f', names added / removed: {names[:6]}' if names else '')
        else:
            desc = f'{str(a)[:160]} -> {str(b)[:160]}'
        out.append((comp, desc))
    return out


def component_class(comp):
    """Coarse class of a state component, for stable finding keys."""
    return comp.split(':')[0]


# ------------------------------------------------------------------------------------------ the environment of the PROCESS
# A program does not choose the environment its interpreter is started in: a test runner (tox, pytest), a CI service, a
# notebook server, a system administrator or a Python command-line switch (-O, -X dev, -W) defines variables before the first
# import.  This is the finite alphabet of such environments used by the C20 driver (layer PENV), plus a scan of the package
# sources for the names of the variables the package itself looks at.
#   class 'runner'  : variables that tools define for the programs they start (read through os.environ by whoever wants to)
#   class 'python'  : switches of the interpreter itself (they change __debug__, docstrings, default warning filters,
#                     encodings ...): only meaningful when defined before the interpreter starts
#   class 'system'  : locale / terminal / account variables
# value None = the variable is removed from the environment.
ENV_MENU = {
    'TOX_ENV_NAME': ('runner', ['py312', 'lint', '']),
    'TOX_WORK_DIR': ('runner', ['/tmp/c20-penv/.tox']),
    'TOX_ENV_DIR': ('runner', ['/tmp/c20-penv/.tox/py312']),
    'PYTEST_CURRENT_TEST': ('runner', ['tests/test_x.py::test_y (call)', '']),
    'PYTEST_VERSION': ('runner', ['8.0.0']),
    'PYTEST_XDIST_WORKER': ('runner', ['gw0']),
    'CI': ('runner', ['true', '1', 'false']),
    'GITHUB_ACTIONS': ('runner', ['true']),
    'CONTINUOUS_INTEGRATION': ('runner', ['true']),
    'GITLAB_CI': ('runner', ['true']),
    'TRAVIS': ('runner', ['true']),
    'READTHEDOCS': ('runner', ['True']),
    'DEBUG': ('runner', ['1', '0', 'true']),
    'TESTING': ('runner', ['1', '0']),
    'JPY_PARENT_PID': ('runner', ['1']),
    'VIRTUAL_ENV': ('runner', ['/venv']),
    'CONDA_DEFAULT_ENV': ('runner', ['base']),
    'MPLBACKEND': ('runner', ['Agg']),
    'NO_COLOR': ('runner', ['1']),
    'PYTHONOPTIMIZE': ('python', ['1', '2']),
    'PYTHONDEVMODE': ('python', ['1']),
    'PYTHONWARNINGS': ('python', ['default', None, 'error::DeprecationWarning']),
    'PYTHONHASHSEED': ('python', ['1', '4242']),
    'PYTHONUTF8': ('python', ['0', '1']),
    'PYTHONIOENCODING': ('python', ['ascii', 'latin-1']),
    'PYTHONNOUSERSITE': ('python', ['1']),
    'PYTHONUNBUFFERED': ('python', ['1']),
    'LANG': ('system', ['C', None, 'C.UTF-8']),
    'LC_ALL': ('system', ['C', 'POSIX']),
    'TZ': ('system', ['UTC', 'America/New_York']),
    'HOME': ('system', [None, '/nonexistent']),
    'USER': ('system', [None, 'nobody']),
    'LOGNAME': ('system', [None]),
    'TERM': ('system', ['dumb', None]),
    'COLUMNS': ('system', ['20']),
}
# realistic combinations (what one tool defines together): the quick tier starts one interpreter per bundle, the thorough tier
# also one per (variable, value)
ENV_BUNDLES = {
    'tox-run': ['TOX_ENV_NAME', 'TOX_WORK_DIR', 'TOX_ENV_DIR'],
    'pytest-run': ['PYTEST_CURRENT_TEST', 'PYTEST_VERSION', 'PYTEST_XDIST_WORKER'],
    'ci-service': ['CI', 'GITHUB_ACTIONS', 'CONTINUOUS_INTEGRATION', 'GITLAB_CI', 'TRAVIS', 'READTHEDOCS'],
    'debug-flags': ['DEBUG', 'TESTING'],
    'tools': ['JPY_PARENT_PID', 'VIRTUAL_ENV', 'CONDA_DEFAULT_ENV', 'MPLBACKEND', 'NO_COLOR'],
    'python-optimize': ['PYTHONOPTIMIZE'],
    'python-dev-mode': ['PYTHONDEVMODE', 'PYTHONWARNINGS'],
    'python-misc': ['PYTHONHASHSEED', 'PYTHONNOUSERSITE', 'PYTHONUNBUFFERED'],
    'text-encoding': ['PYTHONUTF8', 'PYTHONIOENCODING', 'LANG', 'LC_ALL'],
    'bare-system': ['HOME', 'USER', 'LOGNAME', 'TERM', 'TZ', 'COLUMNS'],
}
# values tried for a variable the package itself looks at (found by the source scan / observed at run time)
FLAG_VALUES = ['1', '', '0', 'true', 'py312']


def env_menu_value(var, seed=0):
    vals = ENV_MENU[var][1]
    return vals[seed % len(vals)]


def env_bundle(name, seed=0):
    """-> delta {variable: value | None}.  The second value alphabet of 'python-optimize' is -OO and so on."""
    return {v: env_menu_value(v, seed) for v in ENV_BUNDLES[name]}


def env_label(delta):
    return ','.join(f'{k}=<unset>' if v is None else f'{k}={v}' for k, v in sorted(delta.items())) or '<base>'


def start_environment(inherited, delta, clean=()):
    """The environment of a child interpreter: what this process has, without any variable of the alphabet that a tool may
    have defined for THIS run (`clean`), plus the delta."""
    env = {k: v for k, v in inherited.items() if k not in clean}
    for k, v in delta.items():
        if v is None:
            env.pop(k, None)
        else:
            env[k] = v
    return env


_ENVNAME = re.compile(r'^[A-Z][A-Z0-9]*(_[A-Z0-9]+)+$|^[A-Z]{2,}$')


def scan_environment_names(root):
    """Names of the environment variables the sources under `root` look at.
    -> (direct, indirect): direct = string literal handed to environ.get / environ[...] / getenv / 'in environ' ...;
    indirect = any other ENV_LIKE string constant of a module that touches the environment at all (the name may travel
    through a variable)."""
    import ast

    def is_environ(node):
        return (isinstance(node, ast.Name) and node.id in ('environ', 'environb')) or \
            (isinstance(node, ast.Attribute) and node.attr in ('environ', 'environb'))

    def const(node):
        return node.value if isinstance(node, ast.Constant) and isinstance(node.value, str) else None

    direct, indirect = set(), set()
    for dp_, _, files in sorted(os.walk(root)):
        for fn in sorted(files):
            if not fn.endswith('.py'):
                continue
            try:
                with open(os.path.join(dp_, fn), encoding='utf-8') as fh:
                    tree = ast.parse(fh.read())
            except (SyntaxError, OSError, UnicodeDecodeError):
                continue
            touches, consts = False, set()
            for node in ast.walk(tree):
                if is_environ(node) or (isinstance(node, (ast.Name, ast.Attribute))
                                        and getattr(node, 'id', getattr(node, 'attr', None)) in ('getenv', 'getenvb', 'putenv', 'unsetenv')):
                    touches = True
                if isinstance(node, ast.Constant) and isinstance(node.value, str) and _ENVNAME.match(node.value):
                    consts.add(node.value)
                if isinstance(node, ast.Call):
                    f = node.func
                    fname = f.id if isinstance(f, ast.Name) else getattr(f, 'attr', None)
                    if node.args and const(node.args[0]) is not None:
                        if fname in ('getenv', 'getenvb', 'putenv', 'unsetenv'):
                            direct.add(const(node.args[0]))
                        elif isinstance(f, ast.Attribute) and is_environ(f.value):
                            direct.add(const(node.args[0]))
                elif isinstance(node, ast.Subscript) and is_environ(node.value) and const(node.slice) is not None:
                    direct.add(const(node.slice))
                elif isinstance(node, ast.Compare) and const(node.left) is not None and \
                        any(is_environ(c) for c in node.comparators):
                    direct.add(const(node.left))
            if touches:
                indirect |= consts
    return sorted(direct), sorted(indirect - direct)
