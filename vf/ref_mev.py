"""Reference side of C05 / C06: nest-structure enumerators and textbook probabilities.

Plain Python (math, itertools only) - never imports biogeme.

Conventions
  V      dict alt -> utility (float)
  avail  dict alt -> 0/1
  nested structure   (alone: tuple of alts, nests: tuple of tuples of alts)
  nested spec        nests = [(mu_m, [alts...]), ...], alone = [alts...]
  cnl spec           nests = [(mu_m, {alt: alpha}), ...], alone = [alts...]
  mu     top-level scale (homogeneity degree of G)

Generating functions (y_i = exp(V_i), only available alternatives enter):
  nested  G = sum_m ( sum_{i in m} y_i^{mu_m} )^{mu/mu_m}  +  sum_{i alone} y_i^{mu}
  cnl     G = sum_m ( sum_{i in m} alpha_im^{mu_m/mu} y_i^{mu_m} )^{mu/mu_m}  +  sum_{i alone} y_i^{mu}
MEV probability  P_i = y_i G_i(y) / (mu G(y)) = y_i G_i / sum_j y_j G_j   (Euler).
Two independent routes are implemented (closed form; forward-mode dual numbers on G) and
cross-checked by ``selfcheck``.
"""
from __future__ import annotations

import itertools
import math

# --------------------------------------------------------------------------- enumerators


def set_partitions(items):
    """All set partitions of a list, blocks in order of their first element; fewest blocks first
    within the recursion order (deterministic)."""
    items = list(items)
    if not items:
        yield []
        return
    first, rest = items[0], items[1:]
    for part in set_partitions(rest):
        # put `first` into an existing block
        for k in range(len(part)):
            yield [[first] + part[k]] + part[:k] + part[k + 1:]
        yield [[first]] + part


def nested_structures(alts):
    """Every subset of alternatives left outside every nest x every set partition of the rest.
    J=2: 5, J=3: 15, J=4: 52 structures.  Simplest first (fewest nests, then fewest alone)."""
    alts = list(alts)
    out = []
    for r in range(len(alts) + 1):
        for alone in itertools.combinations(alts, r):
            rest = [a for a in alts if a not in alone]
            for part in set_partitions(rest):
                nests = tuple(sorted((tuple(sorted(b, key=alts.index)) for b in part),
                                     key=lambda b: alts.index(b[0])))
                out.append((tuple(alone), nests))
    out.sort(key=lambda s: (len(s[1]), len(s[0])))
    return out


def cnl_structures(alts, n_nests, splits, with_alone=True):
    """Every assignment of each alternative to: no nest (alone, if with_alone), exactly one nest
    (alpha=1), or two nests (m1<m2) with (alpha, 1-alpha) for alpha in `splits`.
    Only assignments in which every nest is non-empty.  Returns list of (alone tuple, [dict alt->alpha]*n_nests)."""
    alts = list(alts)
    options = []
    if with_alone:
        options.append(())
    for m in range(n_nests):
        options.append(((m, 1.0),))
    for m1, m2 in itertools.combinations(range(n_nests), 2):
        for a in splits:
            options.append(((m1, a), (m2, round(1.0 - a, 12))))
    out = []
    for choice in itertools.product(options, repeat=len(alts)):
        nests = [dict() for _ in range(n_nests)]
        alone = []
        for alt, opt in zip(alts, choice):
            if not opt:
                alone.append(alt)
            for m, a in opt:
                nests[m][alt] = a
        if all(nests):
            out.append((tuple(alone), nests))
    # simplest first: fewest cross memberships, fewest alone
    out.sort(key=lambda s: (sum(len(n) for n in s[1]), len(s[0])))
    return out


def avail_patterns(alts):
    """All 2^J - 1 availability patterns with at least one available alternative; full set first."""
    alts = list(alts)
    pats = [p for p in itertools.product((1, 0), repeat=len(alts)) if any(p)]
    pats.sort(key=lambda p: -sum(p))
    return [dict(zip(alts, p)) for p in pats]


# --------------------------------------------------------------------------- closed forms


def logit_probs(V, avail):
    den = 0.0
    for i in V:
        if avail[i]:
            den += math.exp(V[i])
    return {i: (math.exp(V[i]) / den if avail[i] else 0.0) for i in V}


def nested_probs(V, avail, nests, alone, mu=1.0):
    """P_i = [e^{mu_m V_i} / S_m] * [S_m^{mu/mu_m} / sum_n S_n^{mu/mu_n}],  S_m = sum_{j in m, avail} e^{mu_m V_j};
    an alternative outside every nest is a nest of its own with mu_m = mu."""
    blocks = [(float(mm), list(members)) for mm, members in nests] + [(float(mu), [i]) for i in alone]
    S = []
    for mm, members in blocks:
        S.append(sum(math.exp(mm * V[j]) for j in members if avail[j]))
    tops = [(s ** (mu / mm) if s > 0.0 else 0.0) for s, (mm, _) in zip(S, blocks)]
    den = sum(tops)
    P = {i: 0.0 for i in V}
    for s, top, (mm, members) in zip(S, tops, blocks):
        for i in members:
            if avail[i]:
                P[i] = (math.exp(mm * V[i]) / s) * (top / den)
    return P


def cnl_probs(V, avail, nests, alone, mu=1.0):
    """Generalised / cross-nested logit (Ben-Akiva & Bierlaire; Wen & Koppelman):
    P_i = sum_m [alpha_im^{mu_m/mu} e^{mu_m V_i} / S_m] * [S_m^{mu/mu_m} / sum_n S_n^{mu/mu_n}]."""
    blocks = [(float(mm), dict(al)) for mm, al in nests] + [(float(mu), {i: 1.0}) for i in alone]
    S = []
    for mm, al in blocks:
        S.append(sum((a ** (mm / mu)) * math.exp(mm * V[j]) for j, a in al.items() if avail[j] and a > 0.0))
    tops = [(s ** (mu / mm) if s > 0.0 else 0.0) for s, (mm, _) in zip(S, blocks)]
    den = sum(tops)
    P = {i: 0.0 for i in V}
    for s, top, (mm, al) in zip(S, tops, blocks):
        for i, a in al.items():
            if avail[i] and a > 0.0:
                P[i] += ((a ** (mm / mu)) * math.exp(mm * V[i]) / s) * (top / den)
    return P


# --------------------------------------------------------------------------- dual numbers


class Dual:
    """Forward-mode first-order dual number with a sparse gradient (dict)."""
    __slots__ = ('v', 'd')

    def __init__(self, v, d=None):
        self.v = v
        self.d = d or {}

    @staticmethod
    def lift(x):
        return x if isinstance(x, Dual) else Dual(float(x))

    def __add__(self, o):
        o = Dual.lift(o)
        d = dict(self.d)
        for k, g in o.d.items():
            d[k] = d.get(k, 0.0) + g
        return Dual(self.v + o.v, d)

    __radd__ = __add__

    def __mul__(self, o):
        o = Dual.lift(o)
        d = {k: g * o.v for k, g in self.d.items()}
        for k, g in o.d.items():
            d[k] = d.get(k, 0.0) + g * self.v
        return Dual(self.v * o.v, d)

    __rmul__ = __mul__

    def __pow__(self, p):
        p = float(p)
        return Dual(self.v ** p, {k: p * self.v ** (p - 1.0) * g for k, g in self.d.items()})


def G_nested(y, nests, alone, mu=1.0):
    """y: dict alt -> (Dual or float) of the *available* alternatives only."""
    G = Dual(0.0)
    for mm, members in nests:
        s = None
        for j in members:
            if j in y:
                t = Dual.lift(y[j]) ** mm
                s = t if s is None else s + t
        if s is not None:
            G = G + s ** (mu / mm)
    for i in alone:
        if i in y:
            G = G + Dual.lift(y[i]) ** mu
    return G


def G_cnl(y, nests, alone, mu=1.0):
    G = Dual(0.0)
    for mm, al in nests:
        s = None
        for j, a in al.items():
            if j in y and a > 0.0:
                t = (a ** (mm / mu)) * (Dual.lift(y[j]) ** mm)
                s = t if s is None else s + t
        if s is not None:
            G = G + s ** (mu / mm)
    for i in alone:
        if i in y:
            G = G + Dual.lift(y[i]) ** mu
    return G


def G_and_Gi(Gfun, V, avail):
    """Value of G and dict alt -> dG/dy_i for the available alternatives (y = exp(V))."""
    y = {i: Dual(math.exp(V[i]), {i: 1.0}) for i in V if avail[i]}
    G = Gfun(y)
    return G.v, {i: G.d.get(i, 0.0) for i in y}


def mev_probs(Gfun, V, avail):
    """P_i = y_i G_i / sum_j y_j G_j over available alternatives."""
    _, Gi = G_and_Gi(Gfun, V, avail)
    w = {i: math.exp(V[i]) * g for i, g in Gi.items()}
    den = sum(w.values())
    return {i: (w[i] / den if avail[i] else 0.0) for i in V}


def log_Gi(Gfun, V, avail):
    _, Gi = G_and_Gi(Gfun, V, avail)
    return {i: math.log(g) for i, g in Gi.items()}


def endogenous_sampling_probs(P, corr):
    """MEV model with the correction for endogenous sampling (Bierlaire, Bolduc & McFadden 2008): the logit on
    V_i + ln G_i + w_i over the available alternatives.  P: dict alt -> probability of the uncorrected MEV model
    (P_i proportional to e^{V_i + ln G_i}, zero when unavailable); corr: dict alt -> w_i.
    P'_i = P_i e^{w_i} / sum_j P_j e^{w_j}; the largest w of an alternative with P > 0 is taken out first."""
    live = [i for i in P if P[i] > 0.0]
    top = max(corr[i] for i in live)
    w = {i: (P[i] * math.exp(corr[i] - top) if P[i] > 0.0 else 0.0) for i in P}
    den = sum(w.values())
    return {i: w[i] / den for i in P}


# --------------------------------------------------------------------------- ordered models


def logistic_cdf(z):
    return 1.0 / (1.0 + math.exp(-z))


def normal_cdf(z):
    return 0.5 * math.erfc(-z / math.sqrt(2.0))


def ordered_probs(x, taus, cdf):
    """taus: cumulated thresholds tau_1 < tau_2 < ... (K-1 of them) -> list of K probabilities,
    written exactly as the definition: 1-F(x-t1), F(x-t_{k-1})-F(x-t_k), F(x-t_{K-1})."""
    K = len(taus) + 1
    P = [1.0 - cdf(x - taus[0])]
    for k in range(1, K - 1):
        P.append(cdf(x - taus[k - 1]) - cdf(x - taus[k]))
    P.append(cdf(x - taus[-1]))
    return P


# --------------------------------------------------------------------------- comparisons


def close(a, b, rel=1e-10, ab=1e-12):
    if a == b:
        return True
    if a != a or b != b or math.isinf(a) or math.isinf(b):
        return False
    return abs(a - b) <= ab + rel * max(abs(a), abs(b))


def selfcheck(V, avail, nests, alone, mu, kind):
    """Closed form vs dual-number route of the reference itself; returns max abs difference."""
    if kind == 'nested':
        p1 = nested_probs(V, avail, nests, alone, mu)
        p2 = mev_probs(lambda y: G_nested(y, nests, alone, mu), V, avail)
    else:
        p1 = cnl_probs(V, avail, nests, alone, mu)
        p2 = mev_probs(lambda y: G_cnl(y, nests, alone, mu), V, avail)
    return max(abs(p1[i] - p2[i]) for i in V)
