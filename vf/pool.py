"""Crash-isolated worker pool.

Workers are fresh interpreter processes (multiprocessing 'spawn').  One task is
outstanding per worker, so a worker death is attributed to exactly one task and
becomes an ordinary result ``{'aborted': True}`` for it.  Task results travel
over a dedicated pipe; the worker's stdout/stderr (the engine prints with
std::cout) go to a per-worker log file.
"""
from __future__ import annotations

import importlib
import multiprocessing as mp
import os
import shutil
import sys
import tempfile
import time
import traceback
from multiprocessing.connection import wait

CTX = mp.get_context('spawn')


MEMORY_LIMIT_MB = int(os.environ.get('VERIF_WORKER_MEMORY_MB', '1500'))


def _rss_mb() -> float:
    with open('/proc/self/statm') as f:
        return int(f.read().split()[1]) * os.sysconf('SC_PAGE_SIZE') / 1e6


def _worker_main(conn, driver_module: str, func_name: str, scratch: str, wid: int):
    log = os.path.join(scratch, f'worker{wid}.log')
    fd = os.open(log, os.O_WRONLY | os.O_CREAT | os.O_APPEND, 0o644)
    os.dup2(fd, 1)
    os.dup2(fd, 2)
    sys.stdout = os.fdopen(1, 'w', buffering=1, closefd=False)
    sys.stderr = os.fdopen(2, 'w', buffering=1, closefd=False)
    wdir = os.path.join(scratch, f'w{wid}')
    os.makedirs(wdir, exist_ok=True)
    os.chdir(wdir)
    import warnings
    import logging

    warnings.simplefilter('ignore')
    logging.disable(logging.CRITICAL)
    try:
        mod = importlib.import_module(driver_module)
    except BaseException:
        conn.send({'harness_error': 'import: ' + traceback.format_exc()})
        return
    conn.send({'ready': True})
    while True:
        try:
            msg = conn.recv()
        except EOFError:
            return
        if msg is None:
            return
        fname, task = msg
        try:
            res = getattr(mod, fname)(task)
        except BaseException:
            res = {'harness_error': traceback.format_exc()}
        # the pre-built engine leaves some memory behind at every evaluation: a worker that has grown beyond the limit is
        # replaced after this task (the results are unaffected; respawns are counted in the evidence)
        try:
            if isinstance(res, dict) and _rss_mb() > MEMORY_LIMIT_MB:
                res['retire'] = True
        except Exception:
            pass
        try:
            conn.send(res)
        except BaseException:
            conn.send({'harness_error': 'unpicklable result: ' + traceback.format_exc()})


class _W:
    def __init__(self, pool, wid):
        self.pool = pool
        self.wid = wid
        self.spawn()

    def spawn(self):
        self.parent, child = CTX.Pipe()
        self.proc = CTX.Process(
            target=_worker_main,
            args=(child, self.pool.driver_module, 'run_task', self.pool.scratch, self.wid),
            daemon=True,
        )
        self.proc.start()
        child.close()
        self.ready = False
        self.task = None
        self.t0 = None

    def kill(self):
        try:
            self.proc.kill()
            self.proc.join(5)
        except Exception:
            pass
        try:
            self.parent.close()
        except Exception:
            pass


class Pool:
    def __init__(self, driver_module: str, n_workers: int = 16, task_timeout: float = 900.0):
        self.driver_module = driver_module
        self.n = n_workers
        self.task_timeout = task_timeout
        base = '/dev/shm' if os.path.isdir('/dev/shm') and os.access('/dev/shm', os.W_OK) else None
        self.scratch = tempfile.mkdtemp(prefix='vfpool_', dir=base)
        self.workers: list[_W] = []
        self.respawns = 0

    def close(self):
        for w in self.workers:
            try:
                w.parent.send(None)
            except Exception:
                pass
        for w in self.workers:
            w.proc.join(2)
            if w.proc.is_alive():
                w.kill()
        self.workers = []
        shutil.rmtree(self.scratch, ignore_errors=True)

    def _log_tail(self, wid, n=30):
        try:
            with open(os.path.join(self.scratch, f'worker{wid}.log'), errors='replace') as f:
                return ''.join(f.readlines()[-n:])
        except OSError:
            return ''

    def map(self, tasks: list, func: str = 'run_task', progress=None, fresh_flag='fresh'):
        """Run ``func(task)`` of the driver module for every task; returns the list of
        results in task order.  A task with ``task[fresh_flag]`` true gets a worker
        that has run nothing before and is discarded afterwards."""
        results = [None] * len(tasks)
        pending = list(range(len(tasks)))[::-1]  # pop from the end = in order
        nw = max(1, min(self.n, len(tasks)))
        while len(self.workers) < nw:
            self.workers.append(_W(self, len(self.workers)))
        used = set()  # wids that already ran a task since spawn
        inflight = 0
        done = 0

        def assign(w):
            nonlocal inflight
            if not pending:
                return
            i = pending[-1]
            t = tasks[i]
            fresh = isinstance(t, dict) and t.get(fresh_flag)
            if fresh and w.wid in used:
                # need a virgin worker
                try:
                    w.parent.send(None)
                except Exception:
                    pass
                w.proc.join(1)
                w.kill()
                w.spawn()
                used.discard(w.wid)
                return  # will be assigned when ready arrives
            pending.pop()
            w.task = i
            w.t0 = time.time()
            w.parent.send((func, t))
            used.add(w.wid)
            inflight += 1

        # initial: wait for readiness messages then assign
        for w in self.workers[:nw]:
            if w.ready and w.task is None:
                assign(w)
        while done < len(tasks):
            active = [w for w in self.workers[:nw]]
            conns = {w.parent: w for w in active}
            ready = wait(list(conns.keys()), timeout=5.0)
            now = time.time()
            for c in ready:
                w = conns[c]
                try:
                    msg = c.recv()
                except (EOFError, OSError):
                    msg = {'aborted': True, 'exitcode': None}
                    w.proc.join(5)
                    msg['exitcode'] = w.proc.exitcode
                    msg['log_tail'] = self._log_tail(w.wid)
                if isinstance(msg, dict) and msg.get('ready'):
                    w.ready = True
                    assign(w)
                    continue
                if w.task is None:
                    # died / errored while idle (import failure): harness error
                    if isinstance(msg, dict) and msg.get('harness_error'):
                        raise RuntimeError('worker failed to start: ' + msg['harness_error'])
                    w.kill()
                    w.spawn()
                    used.discard(w.wid)
                    self.respawns += 1
                    continue
                i = w.task
                results[i] = msg
                w.task = None
                inflight -= 1
                done += 1
                if progress:
                    progress(done, len(tasks))
                t = tasks[i]
                fresh = isinstance(t, dict) and t.get(fresh_flag)
                if (isinstance(msg, dict) and (msg.get('aborted') or msg.get('retire'))) or fresh:
                    w.kill()
                    w.spawn()
                    used.discard(w.wid)
                    self.respawns += 1
                else:
                    assign(w)
            # timeouts
            for w in active:
                if w.task is not None and now - w.t0 > self.task_timeout:
                    i = w.task
                    results[i] = {'harness_error': f'task timeout after {self.task_timeout}s',
                                  'log_tail': self._log_tail(w.wid)}
                    w.task = None
                    inflight -= 1
                    done += 1
                    w.kill()
                    w.spawn()
                    used.discard(w.wid)
                    self.respawns += 1
        return results
