"""Per-task recorder used by drivers inside workers.

A driver's ``run_task(task)`` creates a ``Rec``, calls ``case`` once per explored
execution and ``violation`` for each oracle failure, and returns ``rec.result()``.
Everything in the result is JSON-able and additive, so the kernel can merge
results of all tasks.
"""
from __future__ import annotations

import hashlib
import json
from collections import Counter

MAX_SAMPLES = 3


def jdump(obj) -> str:
    return json.dumps(obj, sort_keys=True, default=repr)


def short_hash(text: str, n: int = 12) -> str:
    return hashlib.sha1(text.encode()).hexdigest()[:n]


class Rec:
    def __init__(self):
        self.evals = 0
        self.nontrivial: set[str] = set()
        self.violations: list[dict] = []
        self.samples: list = []
        self.counts: Counter = Counter()
        self._h = hashlib.sha1()
        self.retire = False
        self.states: set[str] = set()
        self.transitions = 0
        self.outcomes: set[str] = set()
        self.extra = None

    # -- explored cases ------------------------------------------------------
    def case(self, nontrivial_key=None, observation=None, outcome=None):
        """One execution explored.  ``nontrivial_key``: a string identifying the
        case if it is non-trivial by the driver's rule (None = trivial).
        ``observation``: anything repr-able, folded into the determinism digest.
        ``outcome``: a coarse label of the observed outcome (vacuity telltale)."""
        self.evals += 1
        if nontrivial_key is not None:
            self.nontrivial.add(short_hash(str(nontrivial_key), 16))
        if observation is not None:
            self._h.update(repr(observation).encode())
        if outcome is not None:
            self.outcomes.add(short_hash(str(outcome), 16))

    def observe(self, observation):
        self._h.update(repr(observation).encode())

    def state(self, canon):
        self.states.add(short_hash(str(canon), 16))

    def transition(self, n: int = 1):
        self.transitions += n

    def count(self, name: str, n: int = 1):
        self.counts[name] += n

    def sample(self, obj):
        if len(self.samples) < MAX_SAMPLES:
            self.samples.append(obj)

    # -- oracle failures -----------------------------------------------------
    def violation(self, key: str, what: str, case: dict, expected=None, observed=None):
        """``key``: stable finding key (oracle clause + minimal witness).
        ``case``: JSON-able descriptor from which ``replay(case)`` re-executes
        exactly this one case in a plain process."""
        self._h.update(('V' + key).encode())
        # keep one witness per key per task (first = simplest)
        for v in self.violations:
            if v['key'] == key:
                v['more'] = v.get('more', 0) + 1
                return
        if len(self.violations) >= 200:
            self.counts['violations_dropped_over_cap'] += 1
            return
        self.violations.append(
            dict(key=key, what=what, case=case, expected=_j(expected), observed=_j(observed))
        )

    def result(self) -> dict:
        return dict(
            evals=self.evals,
            nontrivial=sorted(self.nontrivial),
            violations=self.violations,
            samples=self.samples,
            counts=dict(self.counts),
            digest=self._h.hexdigest(),
            retire=self.retire,
            states=sorted(self.states),
            transitions=self.transitions,
            outcomes=sorted(self.outcomes),
            extra=self.extra,
        )


def _j(x):
    try:
        json.dumps(x)
        return x
    except TypeError:
        return repr(x)
