"""CLI + explorer kernel.

./check <ID> [--tier quick|thorough] [--workers N]     run a property's driver
./check <ID> --replay replays/<ID>/<h>.json              re-execute one violating case
./check --selftest                                       planted-bug self test of the kernel

Driver protocol (module props.cNN):
  ID, LEVEL, RULE, ASSUMPTIONS, TECHNIQUE
  tasks(tier, seed) -> list[dict]            finite, deterministic, simplest first
  run_task(task) -> Rec.result()             executed in a worker on the real code
  replay(case) -> list[violation dict]       re-executes a single case, plain process
  optional  bfs_roots(tier, seed), bfs_expand(task), bfs_depth(tier)
  optional  finalize(agg: dict, tier, seed) -> None   (cross-task oracles; may add violations)
  optional  on_abort(task, info) -> violation dict | None
"""
from __future__ import annotations

import argparse
import hashlib
import importlib
import json
import os
import subprocess
import sys
import time
from collections import Counter

from .pool import Pool
from .rec import short_hash

ROOT = os.path.dirname(os.path.dirname(os.path.abspath(__file__)))
EXIT_OK, EXIT_VIOLATION, EXIT_HARNESS = 0, 1, 2


def load_findings():
    path = os.path.join(ROOT, 'known_findings.json')
    if not os.path.exists(path):
        return []
    with open(path) as f:
        return json.load(f).get('findings', [])


def source_fingerprint(files):
    out = {}
    for f in files:
        p = os.path.join(os.environ.get('VERIF_REPO', '/repo'), f)
        try:
            with open(p, 'rb') as fh:
                out[f] = hashlib.sha1(fh.read()).hexdigest()[:12]
        except OSError:
            out[f] = 'missing'
    return out


class Agg:
    def __init__(self):
        self.evals = 0
        self.nontrivial = set()
        self.violations = []  # dicts
        self.samples = []
        self.counts = Counter()
        self.states = set()
        self.transitions = 0
        self.outcomes = set()
        self.digests = []
        self.harness_errors = []
        self.extras = []   # (task, extra) pairs: free-form data a driver hands to its finalize()

    def merge(self, task, res, driver):
        if res is None:
            self.harness_errors.append(('no result', task))
            return
        if res.get('harness_error'):
            self.harness_errors.append((res['harness_error'] + res.get('log_tail', ''), task))
            return
        if res.get('aborted'):
            on_abort = getattr(driver, 'on_abort', None)
            v = on_abort(task, res) if on_abort else None
            if v is None:
                self.harness_errors.append(
                    (f"worker died (exit {res.get('exitcode')}) " + res.get('log_tail', ''), task))
            else:
                self.evals += 1
                if v:
                    self.violations.append(v)
            self.digests.append('aborted')
            return
        self.evals += res.get('evals', 0)
        self.nontrivial.update(res.get('nontrivial', ()))
        self.violations.extend(res.get('violations', ()))
        for s in res.get('samples', ()):
            if len(self.samples) < 6:
                self.samples.append(s)
        self.counts.update(res.get('counts', {}))
        self.states.update(res.get('states', ()))
        self.transitions += res.get('transitions', 0)
        self.outcomes.update(res.get('outcomes', ()))
        self.digests.append(res.get('digest'))
        if res.get('extra') is not None:
            self.extras.append((task, res['extra']))


def run_bfs(driver, pool, agg, tier, seed, log):
    """Level-synchronous explicit-state search; a state is the history reaching it.
    bfs_expand({'root':..., 'history':[...]}) runs on the real code in a worker and
    returns Rec.result() plus 'succ': [{'event':e, 'canon':str, 'expand':bool}]."""
    depth = driver.bfs_depth(tier)
    roots = driver.bfs_roots(tier, seed)
    frontier = [dict(root=r, history=[]) for r in roots]
    seen = set()
    level = 0
    truncated = 0
    while frontier and level < depth:
        results = pool.map(frontier, func='bfs_expand')
        nxt = []
        for t, res in zip(frontier, results):
            agg.merge(t, res, driver)
            if not res or res.get('harness_error') or res.get('aborted'):
                continue
            for s in res.get('succ', ()):
                key = (json.dumps(t['root'], sort_keys=True), s['canon'])
                if key in seen:
                    continue
                seen.add(key)
                if s.get('expand', True):
                    nxt.append(dict(root=t['root'], history=t['history'] + [s['event']]))
        level += 1
        log(f'bfs level {level}: expanded {len(frontier)} histories, {len(seen)} states, next {len(nxt)}')
        frontier = nxt
    agg.counts['bfs_depth_completed'] = level
    agg.counts['bfs_frontier_left_unexpanded_at_bound'] = len(frontier)
    agg.states.update(short_hash(repr(k), 16) for k in seen)
    # determinism of the search itself: the root expansions are repeated in fresh processes
    first = [dict(root=r, history=[]) for r in roots][:3]
    if first and not agg.harness_errors:
        base = pool.map(first, func='bfs_expand')
        again = pool.map([dict(t, fresh=True) for t in first], func='bfs_expand')
        for t, a, b in zip(first, base, again):
            da = (a or {}).get('digest'), sorted(s_['canon'] for s_ in (a or {}).get('succ', ()))
            db_ = (b or {}).get('digest'), sorted(s_['canon'] for s_ in (b or {}).get('succ', ()))
            agg.counts['determinism_reruns_bfs'] += 1
            if da != db_:
                agg.harness_errors.append(('nondeterminism: BFS root expansion differs in a fresh process', t))


def run_check(pid, tier, seed, workers, quiet=False):
    t0 = time.time()
    driver = importlib.import_module(f'props.{pid.lower()}')

    def log(msg):
        if not quiet:
            print(f'[{pid} {time.time() - t0:6.1f}s] {msg}', flush=True)

    agg = Agg()
    pool = Pool(f'props.{pid.lower()}', n_workers=workers,
                task_timeout=getattr(driver, 'TASK_TIMEOUT', 900.0))
    try:
        tasks = driver.tasks(tier, seed) if hasattr(driver, 'tasks') else []
        log(f'tier={tier} seed={seed} tasks={len(tasks)} workers={workers}')
        if tasks:
            last = [0]

            def progress(d, n):
                if d - last[0] >= max(1, n // 10):
                    last[0] = d
                    log(f'  {d}/{n} tasks')

            results = pool.map(tasks, progress=progress)
            for t, r in zip(tasks, results):
                agg.merge(t, r, driver)
        if hasattr(driver, 'bfs_roots'):
            run_bfs(driver, pool, agg, tier, seed, log)
        # determinism: re-run a fixed slice in fresh workers, compare digests
        ndet = 0
        if tasks and not agg.harness_errors:
            k = getattr(driver, 'DETERMINISM_SLICE', 3)
            idx = sorted(set([0, len(tasks) // 2, len(tasks) - 1]))[:k]
            re_tasks = [dict(tasks[i], fresh=True) for i in idx]
            re_res = pool.map(re_tasks)
            for i, r in zip(idx, re_res):
                first = results[i]
                d1 = first.get('digest') if isinstance(first, dict) else None
                d2 = r.get('digest') if isinstance(r, dict) else None
                if first.get('aborted') and r.get('aborted'):
                    d1 = d2 = 'aborted'
                elif first.get('aborted') or r.get('aborted'):
                    # one of the two runs died: where the driver declares a dying worker benign for this task (the pre-built
                    # engine sometimes takes the process down instead of raising) there is nothing to compare
                    on_abort = getattr(driver, 'on_abort', None)
                    if on_abort is not None and on_abort(tasks[i], first if first.get('aborted') else r) == {}:
                        agg.counts['determinism_rerun_skipped_benign_abort'] += 1
                        continue
                ndet += 1
                if d1 != d2:
                    agg.harness_errors.append((f'nondeterminism: task {i} digest {d1} vs {d2} in a fresh process', tasks[i]))
        agg.counts['determinism_reruns'] = ndet
        if hasattr(driver, 'finalize'):
            driver.finalize(agg, tier, seed)
    finally:
        pool.close()

    wall = time.time() - t0
    # classify violations
    findings = [f for f in load_findings() if f.get('property') == pid]
    open_keys = {f['key']: f for f in findings if f.get('status') == 'open'}
    by_key = {}
    for v in agg.violations:
        e = by_key.setdefault(v['key'], dict(v, n=0))
        e['n'] += 1 + v.get('more', 0)
    new, known = [], []
    for k, v in by_key.items():
        (known if k in open_keys else new).append(v)
    rdir = os.path.join(ROOT, 'replays', pid)
    lines = []
    for v in known:
        lines.append(f"KNOWN-FINDING: property={pid} {open_keys[v['key']].get('what', v['what'])} [key={v['key']}]")
    for f in open_keys.values():
        if f['key'] not in by_key:
            lines.append(f"NOTE: listed finding not reproduced in this run (tier={tier}): {f['key']}")
    for v in new[:40]:
        os.makedirs(rdir, exist_ok=True)
        path = os.path.join(rdir, short_hash(v['key'], 10) + '.json')
        with open(path, 'w') as f:
            json.dump(dict(property=pid, key=v['key'], what=v['what'], case=v['case'],
                           expected=v.get('expected'), observed=v.get('observed'),
                           witnesses_in_run=v['n'], tier=tier, seed=seed), f, indent=1, default=repr)
        lines.append(f"VIOLATION property={pid} replay={os.path.relpath(path, ROOT)}")
        lines.append(f"  what: {v['what']}  (key={v['key']}, witnesses={v['n']})")
    if len(new) > 40:
        lines.append(f'  ... and {len(new) - 40} further distinct violation keys')

    # evidence
    level = driver.LEVEL
    cov = dict(
        evaluations=agg.evals,
        distinct_nontrivial=len(agg.nontrivial),
        rule=driver.RULE,
        samples=agg.samples[:6] or ['(no sample recorded)'],
        exhaustive=not agg.harness_errors and agg.counts.get('capped', 0) == 0,
        distinct_outcomes=len(agg.outcomes),
        counters=dict(sorted(agg.counts.items())),
        tasks=len(tasks),
        worker_respawns=pool.respawns,
        anchored_sources=source_fingerprint(getattr(driver, 'ANCHOR_FILES', [])),
    )
    if level == 'model_checking' or agg.states:
        cov['states'] = len(agg.states)
        cov['transitions'] = agg.transitions
        cov['traces_validated_against_impl'] = agg.counts.get('traces_validated', agg.evals)
    cov['code_under_test'] = os.environ.get('VERIF_REPO', '/repo') + '/src'
    ev = dict(
        property_id=pid, tier=tier, seed=seed, level=level, coverage=cov,
        assumptions=list(getattr(driver, 'ASSUMPTIONS', [])),
        wall_s=round(wall, 2), violations=len(new),
        known_findings_reproduced=sorted(v['key'] for v in known),
        technique=getattr(driver, 'TECHNIQUE', ''),
    )
    evdir = os.path.join(ROOT, 'evidence')
    if os.environ.get('VERIF_REPO', '/repo') != '/repo' or os.environ.get('VERIF_NO_EVIDENCE'):
        # evidence committed under /verif must come from runs against /repo itself
        evdir = os.path.join('/tmp', 'vf_scratch_evidence')
    os.makedirs(evdir, exist_ok=True)
    evpath = os.path.join(evdir, f'{pid}.json')
    with open(evpath, 'w') as f:
        json.dump(ev, f, indent=1, default=repr)
        f.write('\n')
    validate_evidence(evpath, log)

    for line in lines:
        print(line, flush=True)
    log(f'evaluations={agg.evals} distinct_nontrivial={len(agg.nontrivial)} outcomes={len(agg.outcomes)} '
        f'states={len(agg.states)} transitions={agg.transitions} violations={len(new)} known={len(known)} wall={wall:.1f}s')
    if agg.harness_errors:
        for msg, t in agg.harness_errors[:5]:
            print(f'HARNESS-ERROR {pid}: {msg[:3000]}\n  task={json.dumps(t, default=repr)[:500]}', flush=True)
        # a violation with its replay file stands on its own (e.g. the code under test started to consume real
        # randomness, which also trips the determinism re-run); only harness errors alone give exit 2
        return EXIT_VIOLATION if new else EXIT_HARNESS
    return EXIT_VIOLATION if new else EXIT_OK


def validate_evidence(path, log):
    code = (
        "import json,sys,jsonschema;"
        "s=json.load(open('/root/.vp/EVIDENCE.schema.json'));"
        "jsonschema.validate(json.load(open(sys.argv[1])),s)"
    )
    if not os.path.exists('/root/.vp/EVIDENCE.schema.json'):
        return
    try:
        r = subprocess.run(['python3-vt', '-c', code, path], capture_output=True, text=True, timeout=60)
        if r.returncode != 0:
            log('evidence does not validate: ' + r.stderr[-800:])
    except (OSError, subprocess.TimeoutExpired) as e:
        log(f'evidence validation skipped: {e}')


def run_replay(pid, path):
    driver = importlib.import_module(f'props.{pid.lower()}')
    with open(path) as f:
        rep = json.load(f)
    print(f"replaying {rep['key']}\n  what: {rep['what']}\n  case: {json.dumps(rep['case'])[:2000]}")
    os.makedirs('/dev/shm/vf_replay', exist_ok=True)
    os.chdir('/dev/shm/vf_replay')
    vs = driver.replay(rep['case'])
    if vs:
        for v in vs:
            print(f"REPRODUCED key={v['key']}\n  what: {v['what']}\n  expected: {v.get('expected')}\n  observed: {v.get('observed')}")
        return EXIT_VIOLATION
    print('not reproduced: the case passes on the current tree')
    return EXIT_OK


def main(argv=None):
    ap = argparse.ArgumentParser()
    ap.add_argument('pid', nargs='?')
    ap.add_argument('--tier', default=os.environ.get('VERIF_TIER', 'quick'), choices=['quick', 'thorough'])
    ap.add_argument('--replay')
    ap.add_argument('--workers', type=int, default=int(os.environ.get('VERIF_WORKERS', '16')))
    ap.add_argument('--selftest', action='store_true')
    a = ap.parse_args(argv)
    seed = int(os.environ.get('VERIF_SEED', '0') or 0)
    sys.path.insert(0, ROOT)
    if a.selftest:
        from . import selftest
        return selftest.main(a.workers)
    if not a.pid:
        ap.error('property id required')
    if a.replay:
        return run_replay(a.pid, a.replay)
    return run_check(a.pid.upper(), a.tier, seed, a.workers)


if __name__ == '__main__':
    sys.exit(main())
