"""Reference model for C19 (sampling of alternatives) - plain Python, stdlib only, never imports biogeme.

Vocabulary
  alts      : list of dicts (one per alternative, table order), key 'alt_id' + attribute columns
  partition : list of lists of ids (strata, in the order given to the library)
  ks        : list of requested sample sizes, one per stratum
  ind       : dict of the individual's own columns (including 'choice')
  answer    : list (one entry per stratum) of lists of ids = what the owned sampler returned for that stratum
"""
from __future__ import annotations

import itertools
import math

ID = 'alt_id'


# ----------------------------------------------------------------------------- enumeration helpers
def set_partitions(items, max_blocks):
    """All set partitions of `items` (a list) into at most max_blocks blocks.  Blocks are ordered by
    their first element's position, elements inside a block keep list order (restricted growth strings)."""
    n = len(items)
    out = []

    def rec(i, assign, nb):
        if i == n:
            blocks = [[] for _ in range(nb)]
            for it, b in zip(items, assign):
                blocks[b].append(it)
            out.append(blocks)
            return
        for b in range(min(nb + 1, max_blocks)):
            rec(i + 1, assign + [b], max(nb, b + 1))

    rec(0, [], 0)
    # simplest first: fewer blocks first
    out.sort(key=lambda bl: len(bl))
    return out


def size_vectors(partition):
    """All vectors 1 <= k_s <= n_s."""
    return [list(v) for v in itertools.product(*[range(1, len(b) + 1) for b in partition])]


def stratum_of(partition, alt):
    for s, b in enumerate(partition):
        if alt in b:
            return s
    return None


def first_answers(partition, ks, chosen):
    """Every possible answer of the sampler for the first sample: for each stratum every ordered
    (k_s - [chosen in s])-subset of the stratum without the chosen alternative; product across strata."""
    per = []
    for b, k in zip(partition, ks):
        pool = [a for a in b if a != chosen]
        kk = k - 1 if chosen in b else k
        per.append([list(p) for p in itertools.permutations(pool, kk)])
    return [list(c) for c in itertools.product(*per)]


def second_answers(partition, ks):
    per = []
    for b, k in zip(partition, ks):
        per.append([list(p) for p in itertools.permutations(b, k)])
    return [list(c) for c in itertools.product(*per)]


def n_perm(n, k):
    return math.factorial(n) // math.factorial(n - k)


def count_first_answers(partition, ks, chosen):
    t = 1
    for b, k in zip(partition, ks):
        d = 1 if chosen in b else 0
        t *= n_perm(len(b) - d, k - d)
    return t


def count_second_answers(partition, ks):
    t = 1
    for b, k in zip(partition, ks):
        t *= n_perm(len(b), k)
    return t


# ----------------------------------------------------------------------------- protocol
def expected_requests(partition, ks, chosen):
    """What the library must ask the sampler for, stratum by stratum (first sample)."""
    out = []
    for b, k in zip(partition, ks):
        inside = chosen in b
        out.append(dict(ids=sorted(a for a in b if a != chosen), n=k - 1 if inside else k))
    return out


def expected_requests_second(partition, ks):
    return [dict(ids=sorted(b), n=k) for b, k in zip(partition, ks)]


def correction(partition, ks, alt):
    s = stratum_of(partition, alt)
    return math.log(ks[s] / len(partition[s]))


def mev_weight(partition, ks, alt):
    s = stratum_of(partition, alt)
    return len(partition[s]) / ks[s]


def close(a, b, rel=1e-10, ab=1e-12):
    if a is None or b is None:
        return False
    if isinstance(a, float) and math.isnan(a):
        return False
    if isinstance(b, float) and math.isnan(b):
        return False
    return abs(a - b) <= ab + rel * max(abs(a), abs(b))


# ----------------------------------------------------------------------------- specifications
# Each spec: combined variables (name, f(ind, alt)) and the utility V(p, ind, alt, cv) written in the same
# operation order as the biogeme expression built by the driver (props/c19.py: build_spec).
def _cv_ac(ind, alt):
    return ind['age'] * alt['cost'] / ind['inc']


def _cv_tt_inc(ind, alt):
    return ind['inc'] * alt['tt']


def _cv_dz(ind, alt):
    return (ind['hz'] - alt['zone']) * (ind['hz'] - alt['zone'])


def _cv_home(ind, alt):
    return 1.0 if ind['hid'] == alt[ID] else 0.0


SPECS = {
    'S0': dict(
        combined=[('ac', _cv_ac)],
        params=['b_z', 'B2'],
        utility=lambda p, ind, alt, cv: p['b_z'] * alt['cost'] + p['B2'] * cv['ac'],
    ),
    'S1': dict(
        combined=[('tt_inc', _cv_tt_inc), ('dz', _cv_dz)],
        params=['b10', 'b_a', 'b_z'],
        utility=lambda p, ind, alt, cv: p['b10'] * alt['tt'] + p['b_a'] * cv['dz'] + p['b_z'] * cv['tt_inc'],
    ),
    'S2': dict(
        combined=[('home', _cv_home)],
        params=['b_z', 'B2', 'b_a'],
        utility=lambda p, ind, alt, cv: p['b_z'] * alt['cost'] + p['B2'] * (ind['age'] * alt['tt']) + p['b_a'] * cv['home'],
    ),
}


def combined_values(spec, ind, alt):
    return {name: f(ind, alt) for name, f in SPECS[spec]['combined']}


def utility(spec, p, ind, alt):
    return SPECS[spec]['utility'](p, ind, alt, combined_values(spec, ind, alt))


def logsumexp(vals):
    m = max(vals)
    return m + math.log(sum(math.exp(v - m) for v in vals))


# ----------------------------------------------------------------------------- full choice set models
def full_logit_logprob(spec, p, ind, alts_by_id, all_ids):
    v = {a: utility(spec, p, ind, alts_by_id[a]) for a in all_ids}
    return v[ind['choice']] - logsumexp([v[a] for a in all_ids])


def full_nested_logprob(spec, p, ind, alts_by_id, all_ids, nests):
    """Textbook nested logit (top scale 1): P(i) = P(i|m) P(m); alternatives in no nest are alone (mu = 1).
    nests: list of (mu parameter name, list of ids)."""
    v = {a: utility(spec, p, ind, alts_by_id[a]) for a in all_ids}
    groups = [(p[mu], list(members)) for mu, members in nests]
    nested = set(a for _, m in groups for a in m)
    for a in all_ids:
        if a not in nested:
            groups.append((1.0, [a]))
    c = ind['choice']
    # log of nest "inclusive" terms
    incl = []
    for mu, members in groups:
        incl.append(logsumexp([mu * v[a] for a in members]) / mu)
    denom = logsumexp(incl)
    for (mu, members), iv in zip(groups, incl):
        if c in members:
            return (mu * v[c] - mu * iv) + (iv - denom)
    raise ValueError('chosen alternative in no group')


def full_cnl_logprob(spec, p, ind, alts_by_id, all_ids, cnl):
    """Textbook cross-nested logit: P(i) = sum_m P(m) P(i|m); alternatives in no nest are alone.
    cnl: list of (nest name, mu parameter name, {id: alpha})."""
    v = {a: utility(spec, p, ind, alts_by_id[a]) for a in all_ids}
    groups = [(p[mu], {a: al for a, al in alphas.items() if al != 0.0}) for _, mu, alphas in cnl]
    nested = set(a for _, al in groups for a in al)
    for a in all_ids:
        if a not in nested:
            groups.append((1.0, {a: 1.0}))
    c = ind['choice']
    sums = [sum(al ** mu * math.exp(mu * v[a]) for a, al in alphas.items()) for mu, alphas in groups]
    tops = [s ** (1.0 / mu) for s, (mu, _) in zip(sums, groups)]
    denom = sum(tops)
    prob = 0.0
    for (mu, alphas), s, t in zip(groups, sums, tops):
        if c in alphas:
            prob += (t / denom) * (alphas[c] ** mu * math.exp(mu * v[c]) / s)
    return math.log(prob)


# ----------------------------------------------------------------------------- models on a sample
def sampled_logit_logprob(spec, p, ind, alts_by_id, partition, ks, sample_ids):
    """McFadden: utilities corrected by - ln(k_s/n_s); chosen = ind['choice'] must be in sample_ids."""
    cu = {a: utility(spec, p, ind, alts_by_id[a]) - correction(partition, ks, a) for a in sample_ids}
    return cu[ind['choice']] - logsumexp([cu[a] for a in sample_ids])


class OutOfDomain(Exception):
    pass


def sampled_nested_logprob(spec, p, ind, alts_by_id, partition, ks, sample_ids, partition2, ks2, mev_ids, nests):
    """Guevara & Ben-Akiva: V_i - ln q_i + ln G_i, the nest sums estimated on the second sample with weights n/k."""
    v = {a: utility(spec, p, ind, alts_by_id[a]) for a in set(sample_ids) | set(mev_ids)}
    cu = {}
    for a in sample_ids:
        term = 0.0
        for mu_name, members in nests:
            if a in members:
                mu = p[mu_name]
                s = sum(mev_weight(partition2, ks2, j) * math.exp(mu * v[j]) for j in mev_ids if j in members)
                if s <= 0.0:
                    raise OutOfDomain('empty nest sum')
                term += (mu - 1.0) * v[a] + ((1.0 / mu) - 1.0) * math.log(s)
        cu[a] = v[a] - correction(partition, ks, a) + term
    return cu[ind['choice']] - logsumexp([cu[a] for a in sample_ids])


def sampled_cnl_logprob(spec, p, ind, alts_by_id, partition, ks, sample_ids, partition2, ks2, mev_ids, cnl):
    v = {a: utility(spec, p, ind, alts_by_id[a]) for a in set(sample_ids) | set(mev_ids)}
    cu = {}
    for a in sample_ids:
        tot = 0.0
        for _, mu_name, alphas in cnl:
            al = alphas.get(a, 0.0)
            if al == 0.0:
                continue
            mu = p[mu_name]
            s = sum(mev_weight(partition2, ks2, j) * alphas.get(j, 0.0) ** mu * math.exp(mu * v[j])
                    for j in mev_ids if alphas.get(j, 0.0) != 0.0)
            if s <= 0.0:
                raise OutOfDomain('empty nest sum')
            tot += al ** mu * math.exp((mu - 1.0) * v[a]) * s ** ((1.0 / mu) - 1.0)
        term = math.log(tot) if tot != 0.0 else 0.0  # logzero
        cu[a] = v[a] - correction(partition, ks, a) + term
    return cu[ind['choice']] - logsumexp([cu[a] for a in sample_ids])
