"""Kernel self-test: the explorer must report both planted bugs of props/toy.py exactly where
they are planted, nothing on the clean variant, and the pool must survive a dying worker."""
import importlib
from .pool import Pool


def main(workers=4):
    toy = importlib.import_module('props.toy')
    pool = Pool('props.toy', n_workers=min(4, workers))
    try:
        tasks = toy.tasks('quick', 0)
        res = pool.map(tasks)
    finally:
        pool.close()
    ok = True
    for t, r in zip(tasks, res):
        keys = {v['key'] for v in r.get('violations', [])}
        want = set()
        if t['bo']:
            want.add('TOY|order')
        if t['bw']:
            want.add('TOY|torn')
        status = 'ok' if keys == want else 'MISMATCH'
        if keys != want:
            ok = False
        print(f'selftest variant {t}: reported {sorted(keys)} expected {sorted(want)} {status}; cases={r.get("evals")}')
    print('selftest', 'passed' if ok else 'FAILED')
    return 0 if ok else 2
