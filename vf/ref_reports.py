"""Reference reading of the figures printed in the estimation reports (HTML, LaTeX, F12, printed form).

Plain Python (re, math, decimal): no biogeme, no numpy, no pandas.  Used by props/c14.py.

Oracle for one printed figure: the token is a number in the usual notation (or nan / inf) and that number equals the
value it stands for to the precision of the format, i.e. it is within half a unit of the last significant digit the
format prints.  '1e+03.0' or 'nan.0' are not numbers; '1e+03' for 1000.4 at 3 significant digits is fine.
"""
from __future__ import annotations

import math
import re
from decimal import Decimal

NUMBER = re.compile(r'^[+-]?(?:\d+\.?\d*|\.\d+)(?:[eE][+-]?\d+)?$')
SPECIAL = re.compile(r'^[+-]?(?:nan|inf|infinity)$', re.I)


def token_value(tok):
    """float value of a printed token, or None when the token is not a number."""
    if not isinstance(tok, str):
        return None
    t = tok.strip()
    if NUMBER.match(t) or SPECIAL.match(t):
        try:
            return float(t)
        except ValueError:      # pragma: no cover
            return None
    return None


def token_is(tok, x, sig) -> bool:
    """The token parses as a number that equals x to `sig` significant digits."""
    got = token_value(tok)
    if got is None:
        return False
    x = float(x)
    special = bool(SPECIAL.match(tok.strip()))
    if math.isnan(x):
        return special and math.isnan(got)
    if math.isinf(x):
        return special and got == x
    if special:
        return False
    dt = Decimal(tok.strip())           # exact: '1.8e+308' is a number although it is beyond the largest float
    if x == 0.0:
        return dt == 0
    dx = Decimal(x)
    half_unit = Decimal(5).scaleb(dx.adjusted() - sig)      # 0.5 * 10**(exponent - sig + 1)
    return abs(dt - dx) <= half_unit


def rendering_class(x, sig) -> str:
    """How a value looks at `sig` significant digits in general ('g') notation: the class of the witness."""
    x = float(x)
    if math.isnan(x):
        return 'nan'
    if math.isinf(x):
        return 'inf'
    if x == 0.0:
        return 'zero'
    d = Decimal(x)
    q = d.quantize(Decimal(1).scaleb(d.adjusted() - sig + 1))   # rounded to sig significant digits
    e = q.adjusted()
    if e < -4 or e >= sig:
        return 'exponent-form'
    if q == q.to_integral_value():
        return 'integer'
    return 'decimal'


# --------------------------------------------------------------------------- HTML
def _html_table(html, opener):
    m = re.search(opener + r'(.*?)</table>', html, re.S)
    if not m:
        return None
    head = re.findall(r'<th>(.*?)</th>', m.group(1))
    rows = []
    for row in re.findall(r'<tr class=biostyle><td>(.*?)</tr>', m.group(1), re.S):
        cells = row.split('</td><td>')
        cells[-1] = cells[-1].replace('</td>', '')
        rows.append(cells)
    return head, rows


def html_parameters(html):
    """(header cells, rows) of the table of estimated parameters; header[0] is 'Name'."""
    return _html_table(html, r'<h1>Estimated parameters</h1>')


def html_correlations(html):
    """(header cells, rows) of the table of pairs; header[:2] are the two coefficient columns."""
    return _html_table(html, r'<h2>Correlation of coefficients</h2>')


# --------------------------------------------------------------------------- LaTeX
def _latex_rows(block):
    rows = []
    for line in block.split('\n'):
        line = line.strip()
        if line.endswith('\\\\') and '&' in line:
            rows.append([c.strip() for c in line[:-2].split('&')])
    return rows


def latex_tables(latex):
    """(rows of the parameter table, rows of the pair table); the first row of each is the header (first cell empty)."""
    m = re.search(r'\\section\{Parameter estimates\}(.*?)%%Correlation', latex, re.S)
    c = re.search(r'\\section\{Correlation\}(.*)$', latex, re.S)
    return (_latex_rows(m.group(1)) if m else None), (_latex_rows(c.group(1)) if c else None)


# --------------------------------------------------------------------------- F12
def f12_figures(text):
    """(coefficient lines as (label, flag, [tokens]), end marker found, correlation fields of width 7)."""
    lines = text.split('\n')
    coef = []
    i = 3
    while i < len(lines) and lines[i].startswith('   0 '):
        ln = lines[i]
        coef.append((ln[5:15], ln[15:17], ln[17:].split()))
        i += 1
    end_ok = i < len(lines) and lines[i] == '  -1'
    corr = []
    if end_ok:
        for ln in lines[i + 3:]:
            corr.extend(ln[k:k + 7] for k in range(0, len(ln), 7))
    return coef, end_ok, corr


# --------------------------------------------------------------------------- printed form
def printed_parameter(text, name):
    """(value token, [[std err, t, p] token groups]) of the line of the printed form that lists `name`, or None when
    the parameter is not on exactly one line."""
    prefix = f'{name:15}: '
    lines = [ln for ln in text.split('\n') if ln.startswith(prefix)]
    if len(lines) != 1:
        return None
    rest = lines[0][len(prefix):]
    return rest.split('[')[0], [g.split(' ') for g in re.findall(r'\[([^\]]*)\]', rest)]


def printed_pair(text, names):
    """Tokens of the line of the printed form for the pair of parameter names, or None."""
    prefix = f'{tuple(names)}:\t'
    lines = [ln for ln in text.split('\n') if ln.startswith(prefix)]
    if len(lines) != 1:
        return None
    return lines[0][len(prefix):].split('\t')
