"""Thin helpers around the library for drivers (run inside workers; import biogeme lazily)."""
from __future__ import annotations


def make_db(rows, columns=None, name='t'):
    """Database from a list of row dicts (column order preserved)."""
    import pandas as pd
    import biogeme.database as db

    cols = columns or list(rows[0])
    df = pd.DataFrame({c: [r[c] for r in rows] for c in cols})
    return db.Database(name, df)


def engine_values(expr, database, betas=None, number_of_draws=1000):
    """Per-row values through the compiled engine (expression-level entry point)."""
    import numpy as np

    out = expr.get_value_c(database=database, betas=betas, number_of_draws=number_of_draws,
                           aggregation=False, prepare_ids=True)
    return [float(v) for v in np.asarray(out, dtype=float).ravel()]


def make_biogeme(database, formulas, **kw):
    import biogeme.biogeme as bio
    from biogeme.parameters import Parameters

    opts = dict(generate_html=False, generate_pickle=False, save_iterations=False, number_of_threads=1)
    opts.update(kw)
    return bio.BIOGEME(database, formulas, parameters=Parameters(), **opts)


def is_engine_error(e: BaseException) -> bool:
    """Exceptions raised from inside the compiled engine surface as RuntimeError."""
    return isinstance(e, RuntimeError) and not type(e).__module__.startswith('biogeme')
