"""Reference models for C11 (draw generators).  Plain Python, stdlib only; never imports biogeme.

* radical inverse / Halton windows in exact rational arithmetic;
* the standard-normal quantile by Newton refinement on math.erf / math.erfc from a crude closed-form
  start (Abramowitz-Stegun 26.2.23, error 4.5e-4), followed by a *certification* step: the returned z is
  accepted only if the normal CDF evaluated at z(1-d) and z(1+d) brackets the target probability, so the
  reference does not rest on the convergence of the iteration but only on the accuracy of libm's erf/erfc;
* the parser of a catalogue entry's description text (advertised support / base / skip / construction).
"""
from __future__ import annotations

import math
import re
from fractions import Fraction
from functools import lru_cache

SQRT2 = math.sqrt(2.0)
INV_SQRT_2PI = 1.0 / math.sqrt(2.0 * math.pi)
TWO_OVER_SQRT_PI = 2.0 / math.sqrt(math.pi)


# --------------------------------------------------------------------------- Halton
def radical_inverse(base: int, i: int) -> Fraction:
    """van der Corput radical inverse of the integer i >= 0 in the given base, exactly."""
    out = Fraction(0)
    f = Fraction(1, base)
    while i > 0:
        i, d = divmod(i, base)
        out += d * f
        f /= base
    return out


@lru_cache(maxsize=1 << 16)
def _radical_inverse_float(base: int, i: int) -> float:
    """float(radical_inverse(base, i)); memoised (pure function of two integers, immutable result)."""
    return float(radical_inverse(base, i))


def halton_window(base: int, skip: int, n: int) -> list[float]:
    """Elements skip+1 ... skip+n of the radical-inverse sequence (element 0 of the sequence is 0 and is never
    delivered; 'skipping the first s' drops elements 1..s).  A new list on every call."""
    return [_radical_inverse_float(base, i) for i in range(skip + 1, skip + n + 1)]


# --------------------------------------------------------------------------- normal CDF / quantile
def norm_cdf(z: float) -> float:
    return 0.5 * math.erfc(-z / SQRT2)


def _start(p: float) -> float:
    """A&S 26.2.23 for the lower tail 0 < p <= 0.5 (|error| < 4.5e-4)."""
    t = math.sqrt(-2.0 * math.log(p))
    return -(t - (2.515517 + 0.802853 * t + 0.010328 * t * t)
             / (1.0 + 1.432788 * t + 0.189269 * t * t + 0.001308 * t * t * t))


class ReferenceNotCertified(Exception):
    pass


def _lower_tail(p: float) -> float:
    """Phi^{-1}(p) for 0 < p < 0.25, via erfc (relative accuracy kept in the tail)."""
    z = _start(p)
    for _ in range(60):
        f = 0.5 * math.erfc(-z / SQRT2) - p
        d = INV_SQRT_2PI * math.exp(-0.5 * z * z)
        step = f / d
        z -= step
        if abs(step) <= 2e-17 * abs(z):
            break
    # certification
    dlt = 3e-15
    lo, hi = z * (1.0 + dlt), z * (1.0 - dlt)  # z < 0: lo < z < hi
    if not (0.5 * math.erfc(-lo / SQRT2) < p < 0.5 * math.erfc(-hi / SQRT2)):
        raise ReferenceNotCertified(f'lower tail p={p!r} z={z!r}')
    return z


def _central(p: float) -> float:
    """Phi^{-1}(p) for 0.25 <= p <= 0.75 via erf on q = p - 1/2 (exact subtraction), relative accuracy near 0."""
    q = p - 0.5
    if q == 0.0:
        return 0.0
    s = -1.0 if q < 0 else 1.0
    a = 2.0 * abs(q)  # target value of erf(t), t = z / sqrt 2, exact
    t = abs(_start(0.5 - abs(q))) / SQRT2
    for _ in range(60):
        f = math.erf(t) - a
        d = TWO_OVER_SQRT_PI * math.exp(-t * t)
        step = f / d
        t -= step
        if abs(step) <= 2e-17 * abs(t):
            break
    dlt = 3e-15
    if not (math.erf(t * (1.0 - dlt)) < a < math.erf(t * (1.0 + dlt))):
        raise ReferenceNotCertified(f'central p={p!r} t={t!r}')
    return s * t * SQRT2


@lru_cache(maxsize=1 << 16)
def norm_ppf(p: float) -> float:
    """Standard normal quantile of a double p in (0, 1); accurate to a few 1e-15 relative (certified bracket)."""
    if not 0.0 < p < 1.0:
        raise ValueError(p)
    if 0.25 <= p <= 0.75:
        return _central(p)
    if p < 0.25:
        return _lower_tail(p)
    return -_lower_tail(1.0 - p)  # 1 - p is exact for p >= 0.5


# AS241 (Wichura 1988) branch structure, as published: central |p - 1/2| <= 0.425; else r = sqrt(-ln(min(p, 1-p))),
# intermediate r <= 5, far tail r > 5.
E25 = math.exp(-25.0)


def region(p: float) -> str:
    if abs(p - 0.5) <= 0.425:
        return 'central[0.075,0.925]'
    m = p if p < 0.5 else 1.0 - p
    side = 'lower' if p < 0.5 else 'upper'
    if m >= E25:
        return f'{side}-intermediate(e^-25..0.075)'
    return f'{side}-far-tail(<e^-25)'


# --------------------------------------------------------------------------- catalogue descriptions
_INTERVAL = re.compile(r'\[\s*(-?\d+(?:\.\d+)?)\s*[,:]\s*(-?\d+(?:\.\d+)?)\s*\]')


def parse_description(desc: str) -> dict:
    """What a catalogue entry *advertises*, read from its description text only."""
    d = desc.lower()
    out = dict(
        normal='normal' in d,
        anti='antithetic' in d,
        halton='halton' in d,
        mlhs='latin hypercube' in d,
        base=None, skip=None, support=None,
    )
    m = _INTERVAL.search(desc)
    if m:
        out['support'] = (float(m.group(1)), float(m.group(2)))
    elif not out['normal']:
        out['support'] = (0.0, 1.0)  # a Halton / uniform sequence without a stated interval lives on the unit interval
    m = re.search(r'base\s+(\d+)', d)
    if m:
        out['base'] = int(m.group(1))
    m = re.search(r'skipping\s+the\s+first\s+(\d+)', d)
    if m:
        out['skip'] = int(m.group(1))
    return out
