"""Reference models for C11 (draw generators).  Plain Python, stdlib only; never imports biogeme.

* radical inverse / Halton windows in exact rational arithmetic;
* the standard-normal quantile by Newton refinement on math.erf / math.erfc from a crude closed-form
  start (Abramowitz-Stegun 26.2.23, error 4.5e-4), followed by a *certification* step: the returned z is
  accepted only if the normal CDF evaluated at z(1-d) and z(1+d) brackets the target probability, so the
  reference does not rest on the convergence of the iteration but only on the accuracy of libm's erf/erfc;
* the parser of a catalogue entry's description text (advertised support / base / skip / construction).
"""
from __future__ import annotations

import math
import re
from fractions import Fraction
from functools import lru_cache

SQRT2 = math.sqrt(2.0)
INV_SQRT_2PI = 1.0 / math.sqrt(2.0 * math.pi)
TWO_OVER_SQRT_PI = 2.0 / math.sqrt(math.pi)


# --------------------------------------------------------------------------- Halton
def radical_inverse(base: int, i: int) -> Fraction:
    """van der Corput radical inverse of the integer i >= 0 in the given base, exactly."""
    out = Fraction(0)
    f = Fraction(1, base)
    while i > 0:
        i, d = divmod(i, base)
        out += d * f
        f /= base
    return out


@lru_cache(maxsize=1 << 16)
def _radical_inverse_float(base: int, i: int) -> float:
    """float(radical_inverse(base, i)); memoised (pure function of two integers, immutable result)."""
    return float(radical_inverse(base, i))


def halton_window(base: int, skip: int, n: int) -> list[float]:
    """Elements skip+1 ... skip+n of the radical-inverse sequence (element 0 of the sequence is 0 and is never
    delivered; 'skipping the first s' drops elements 1..s).  A new list on every call."""
    return [_radical_inverse_float(base, i) for i in range(skip + 1, skip + n + 1)]


# --------------------------------------------------------------------------- normal CDF / quantile
def norm_cdf(z: float) -> float:
    return 0.5 * math.erfc(-z / SQRT2)


def _start(p: float) -> float:
    """A&S 26.2.23 for the lower tail 0 < p <= 0.5 (|error| < 4.5e-4)."""
    t = math.sqrt(-2.0 * math.log(p))
    return -(t - (2.515517 + 0.802853 * t + 0.010328 * t * t)
             / (1.0 + 1.432788 * t + 0.189269 * t * t + 0.001308 * t * t * t))


class ReferenceNotCertified(Exception):
    pass


def _lower_tail(p: float) -> float:
    """Phi^{-1}(p) for 0 < p < 0.25, via erfc (relative accuracy kept in the tail)."""
    z = _start(p)
    for _ in range(60):
        f = 0.5 * math.erfc(-z / SQRT2) - p
        d = INV_SQRT_2PI * math.exp(-0.5 * z * z)
        step = f / d
        z -= step
        if abs(step) <= 2e-17 * abs(z):
            break
    # certification
    dlt = 3e-15
    lo, hi = z * (1.0 + dlt), z * (1.0 - dlt)  # z < 0: lo < z < hi
    if not (0.5 * math.erfc(-lo / SQRT2) < p < 0.5 * math.erfc(-hi / SQRT2)):
        raise ReferenceNotCertified(f'lower tail p={p!r} z={z!r}')
    return z


def _central(p: float) -> float:
    """Phi^{-1}(p) for 0.25 <= p <= 0.75 via erf on q = p - 1/2 (exact subtraction), relative accuracy near 0."""
    q = p - 0.5
    if q == 0.0:
        return 0.0
    s = -1.0 if q < 0 else 1.0
    a = 2.0 * abs(q)  # target value of erf(t), t = z / sqrt 2, exact
    t = abs(_start(0.5 - abs(q))) / SQRT2
    for _ in range(60):
        f = math.erf(t) - a
        d = TWO_OVER_SQRT_PI * math.exp(-t * t)
        step = f / d
        t -= step
        if abs(step) <= 2e-17 * abs(t):
            break
    dlt = 3e-15
    if not (math.erf(t * (1.0 - dlt)) < a < math.erf(t * (1.0 + dlt))):
        raise ReferenceNotCertified(f'central p={p!r} t={t!r}')
    return s * t * SQRT2


@lru_cache(maxsize=1 << 16)
def norm_ppf(p: float) -> float:
    """Standard normal quantile of a double p in (0, 1); accurate to a few 1e-15 relative (certified bracket)."""
    if not 0.0 < p < 1.0:
        raise ValueError(p)
    if 0.25 <= p <= 0.75:
        return _central(p)
    if p < 0.25:
        return _lower_tail(p)
    return -_lower_tail(1.0 - p)  # 1 - p is exact for p >= 0.5


# AS241 (Wichura 1988) branch structure, as published: central |p - 1/2| <= 0.425; else r = sqrt(-ln(min(p, 1-p))),
# intermediate r <= 5, far tail r > 5.
E25 = math.exp(-25.0)


def region(p: float) -> str:
    if abs(p - 0.5) <= 0.425:
        return 'central[0.075,0.925]'
    m = p if p < 0.5 else 1.0 - p
    side = 'lower' if p < 0.5 else 'upper'
    if m >= E25:
        return f'{side}-intermediate(e^-25..0.075)'
    return f'{side}-far-tail(<e^-25)'


# Algorithm AS241 (Wichura, Appl. Statist. 37 (1988) 477-484), routine PPND16, transcribed from the publication.
# It is NOT the oracle (the oracle is norm_ppf above); it serves to tell *which* defect an inaccurate draw comes from:
# as241(p, central=<piece selection rule>) is the value the published pieces deliver when the central piece is selected
# by the given rule.  central='published' is |p - 1/2| <= 0.425 (then as241 agrees with norm_ppf to 1e-15, which
# selftest_as241 verifies, so the transcription of the coefficients does not rest on the code under test);
# central='abs_u_le_0.45' is the deviating selection |p| <= 0.45 documented in the open finding
# 'C11|normal-quantile-inaccurate|region=...'.
_AS241_A = (3.3871328727963666080e0, 1.3314166789178437745e2, 1.9715909503065514427e3, 1.3731693765509461125e4,
            4.5921953931549871457e4, 6.7265770927008700853e4, 3.3430575583588128105e4, 2.5090809287301226727e3)
_AS241_B = (1.0, 4.2313330701600911252e1, 6.8718700749205790830e2, 5.3941960214247511077e3, 2.1213794301586595867e4,
            3.9307895800092710610e4, 2.8729085735721942674e4, 5.2264952788528545610e3)
_AS241_C = (1.42343711074968357734e0, 4.63033784615654529590e0, 5.76949722146069140550e0, 3.64784832476320460504e0,
            1.27045825245236838258e0, 2.41780725177450611770e-1, 2.27238449892691845833e-2, 7.74545014278341407640e-4)
_AS241_D = (1.0, 2.05319162663775882187e0, 1.67638483018380384940e0, 6.89767334985100004550e-1,
            1.48103976427480074590e-1, 1.51986665636164571966e-2, 5.47593808499534494600e-4, 1.05075007164441684324e-9)
_AS241_E = (6.65790464350110377720e0, 5.46378491116411436990e0, 1.78482653991729133580e0, 2.96560571828504891230e-1,
            2.65321895265761230930e-2, 1.24266094738807843860e-3, 2.71155556874348757815e-5, 2.01033439929228813265e-7)
_AS241_F = (1.0, 5.99832206555887937690e-1, 1.36929880922735805310e-1, 1.48753612908506148525e-2,
            7.86869131145613259100e-4, 1.84631831751005468180e-5, 1.42151175831644588870e-7, 2.04426310338993978564e-15)


def _horner(coef, x: float) -> float:
    """coef[0] + coef[1] x + ... + coef[7] x^7, nested from the highest coefficient (as in the publication)."""
    v = coef[-1]
    for c in reversed(coef[:-1]):
        v = v * x + c
    return v


def as241(p: float, central: str = 'published') -> float:
    q = p - 0.5
    if central == 'published':
        use_central = abs(q) <= 0.425
    elif central == 'abs_u_le_0.45':
        use_central = abs(p) <= 0.45
    else:
        raise KeyError(central)
    if use_central:
        r = 0.180625 - q * q
        return q * _horner(_AS241_A, r) / _horner(_AS241_B, r)
    r = p if q < 0.0 else 1.0 - p
    if r <= 0.0:
        return 0.0
    r = math.sqrt(-math.log(r))
    if r <= 5.0:
        r -= 1.6
        v = _horner(_AS241_C, r) / _horner(_AS241_D, r)
    else:
        r -= 5.0
        v = _horner(_AS241_E, r) / _horner(_AS241_F, r)
    return -v if q < 0.0 else v


def selftest_as241() -> float:
    """Worst disagreement (relative to max(1,|z|)) between the transcription of AS241 with the published piece
    selection and the certified quantile, over a comb of (0,1), both tails and the limits of the pieces."""
    pts = [k / 2000.0 for k in range(1, 2000)]
    pts += [2.0 ** -j for j in range(2, 1000, 3)] + [1.0 - 2.0 ** -j for j in range(2, 54)]
    pts += [0.075, 0.925, math.nextafter(0.075, 0.0), math.nextafter(0.925, 1.0), E25, E25 * 1.0000001, E25 * 0.9999999]
    worst = 0.0
    for p in pts:
        z = norm_ppf(p)
        worst = max(worst, abs(as241(p) - z) / max(1.0, abs(z)))
    return worst


# --------------------------------------------------------------------------- catalogue descriptions
_INTERVAL = re.compile(r'\[\s*(-?\d+(?:\.\d+)?)\s*[,:]\s*(-?\d+(?:\.\d+)?)\s*\]')


def parse_description(desc: str) -> dict:
    """What a catalogue entry *advertises*, read from its description text only."""
    d = desc.lower()
    out = dict(
        normal='normal' in d,
        anti='antithetic' in d,
        halton='halton' in d,
        mlhs='latin hypercube' in d,
        base=None, skip=None, support=None,
    )
    m = _INTERVAL.search(desc)
    if m:
        out['support'] = (float(m.group(1)), float(m.group(2)))
    elif not out['normal']:
        out['support'] = (0.0, 1.0)  # a Halton / uniform sequence without a stated interval lives on the unit interval
    m = re.search(r'base\s+(\d+)', d)
    if m:
        out['base'] = int(m.group(1))
    m = re.search(r'skipping\s+the\s+first\s+(\d+)', d)
    if m:
        out['skip'] = int(m.group(1))
    return out
