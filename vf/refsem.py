"""Reference semantics of biogeme's expression language (plain Python, never imports biogeme
except inside ``build``).

A *term* is a nested tuple:
  ('num', v) ('bool', b) ('beta', name) ('var', name) ('draw', name, type) ('rv', name)
  ('+',a,b) ('-',a,b) ('*',a,b) ('/',a,b) ('**',a,b) ('neg',a)
  ('exp',a) ('log',a) ('logzero',a) ('sin',a) ('cos',a) ('ncdf',a)
  ('min',a,b) ('max',a,b) ('and',a,b) ('or',a,b)
  ('==',a,b) ('!=',a,b) ('<=',a,b) ('>=',a,b) ('<',a,b) ('>',a,b)
  ('belongs', a, (v1, v2, ...))
  ('elem', key, ((k1, t1), (k2, t2), ...))
  ('condsum', ((c1, t1), ...))
  ('multsum', (t1, t2, ...))        list form
  ('multsumd', ((k1, t1), ...))     dict form
  ('linutil', ((beta_name, var_name), ...))
  ('loglogit', choice, ((alt, util, av_or_None), ...))   av None everywhere -> full choice set form
  ('logit', choice, ((alt, util, av_or_None), ...))
  ('mc', a) ('traj', a) ('integrate', a, rvname) ('derive', a, name)

``build``  turns a term into a biogeme expression through the public DSL (operator overloading with
           raw Python numbers, constructors, models.*).
``evaluate`` gives the mathematical value (float) for one row / parameter point;
``evaluate_hd`` gives value, gradient and Hessian w.r.t. a list of parameter names by hyper-dual numbers.
"""
from __future__ import annotations

import math

REL = 1e-10
ABS = 1e-12
FRAGILE = 1e-9
BIG = 1e8


class OutOfDomain(Exception):
    """The reference itself leaves the regular domain of the property (log/power of a
    non-positive number, zero divisor, missing key, overflow, unavailable chosen alternative)."""


class Fragile(Exception):
    """A branch decision (comparison, tie, key, truth test) sits closer than FRAGILE to its
    boundary while its operands are inexact."""


# --------------------------------------------------------------------------- hyper-dual numbers
class HD:
    __slots__ = ('v', 'g', 'h')

    def __init__(self, v, g, h):
        self.v, self.g, self.h = v, g, h

    @staticmethod
    def const(v, n):
        return HD(float(v), [0.0] * n, [[0.0] * n for _ in range(n)])

    @staticmethod
    def var(v, i, n):
        x = HD.const(v, n)
        x.g[i] = 1.0
        return x

    def _n(self):
        return len(self.g)

    def chain(self, f, d1, d2):
        """f(u) with derivatives d1 = f'(u), d2 = f''(u)."""
        n = self._n()
        g = [d1 * gi for gi in self.g]
        h = [[d1 * self.h[i][j] + d2 * self.g[i] * self.g[j] for j in range(n)] for i in range(n)]
        return HD(f, g, h)

    def __add__(self, o):
        o = _lift(o, self)
        n = self._n()
        return HD(self.v + o.v, [a + b for a, b in zip(self.g, o.g)],
                  [[self.h[i][j] + o.h[i][j] for j in range(n)] for i in range(n)])

    __radd__ = __add__

    def __neg__(self):
        n = self._n()
        return HD(-self.v, [-a for a in self.g], [[-self.h[i][j] for j in range(n)] for i in range(n)])

    def __sub__(self, o):
        return self + (-_lift(o, self))

    def __rsub__(self, o):
        return _lift(o, self) + (-self)

    def __mul__(self, o):
        o = _lift(o, self)
        n = self._n()
        g = [self.g[i] * o.v + self.v * o.g[i] for i in range(n)]
        h = [[self.h[i][j] * o.v + self.g[i] * o.g[j] + self.g[j] * o.g[i] + self.v * o.h[i][j]
              for j in range(n)] for i in range(n)]
        return HD(self.v * o.v, g, h)

    __rmul__ = __mul__

    def __truediv__(self, o):
        o = _lift(o, self)
        return self * o.chain(1.0 / o.v, -1.0 / o.v ** 2, 2.0 / o.v ** 3)

    def __rtruediv__(self, o):
        return _lift(o, self) / self


def _lift(x, like):
    return x if isinstance(x, HD) else HD.const(x, len(like.g))


def val(x):
    return x.v if isinstance(x, HD) else x


def _un(x, f, d1, d2):
    """Apply a smooth unary function given value / first / second derivative callables."""
    if isinstance(x, HD):
        return x.chain(f(x.v), d1(x.v), d2(x.v))
    return f(x)


SQRT2 = math.sqrt(2.0)
INV_SQRT_2PI = 1.0 / math.sqrt(2.0 * math.pi)


def ncdf(x):
    return 0.5 * math.erfc(-x / SQRT2)


def npdf(x):
    return INV_SQRT_2PI * math.exp(-0.5 * x * x)


# --------------------------------------------------------------------------- static helpers
INEXACT_KINDS = {'/', '**', 'exp', 'log', 'logzero', 'sin', 'cos', 'ncdf', 'loglogit', 'logit', 'mc',
                 'integrate', 'derive', 'draw', 'rv', 'traj'}


def children(t):
    k = t[0]
    if k in ('num', 'bool', 'beta', 'var', 'draw', 'rv', 'badlogit'):
        return []
    if k in ('belongs',):
        return [t[1]]
    if k == 'elem':
        return [t[1]] + [x for _, x in t[2]]
    if k == 'condsum':
        return [x for c, e in t[1] for x in (c, e)]
    if k == 'multsum':
        return list(t[1])
    if k == 'multsumd':
        return [x for _, x in t[1]]
    if k == 'linutil':
        return [x for b, v in t[1] for x in (('beta', b), ('var', v))]
    if k in ('loglogit', 'logit'):
        out = [t[1]]
        for alt, u, av in t[2]:
            out.append(u)
            if av is not None:
                out.append(av)
        return out
    if k in ('integrate', 'derive'):
        return [t[1]]
    return [x for x in t[1:] if isinstance(x, tuple)]


def has_inexact(t):
    if t[0] in INEXACT_KINDS:
        return True
    return any(has_inexact(c) for c in children(t))


def leaves(t, kind):
    """Names of leaves of a kind ('beta', 'var', 'draw', 'rv') in order of first appearance."""
    out = []

    def rec(x):
        if x[0] == kind:
            if x[1] not in out:
                out.append(x[1])
        for c in children(x):
            rec(c)

    rec(t)
    return out


def size(t):
    return 1 + sum(size(c) for c in children(t))


def kinds(t):
    s = {t[0]}
    for c in children(t):
        s |= kinds(c)
    return s


# --------------------------------------------------------------------------- evaluation
class Ctx:
    """Evaluation context for one observation.
    row: {column: value}; params: {name: value}; free: list of names differentiated (HD mode);
    draws: {name: [R values for this observation]}; rows: list of row dicts of the individual (traj)."""

    def __init__(self, row=None, params=None, free=None, draws=None, rows=None, rv=None, strict_fragile=True):
        self.row = row or {}
        self.params = params or {}
        self.free = list(free) if free else None
        self.draws = draws or {}
        self.rows = rows
        self.rv = rv or {}
        self.draw_r = None
        self.strict_fragile = strict_fragile
        self.reads = set()  # (column) read for this observation (lazy semantics)
        self.quirks = ()    # names of known engine defects to *mimic* (used only to identify a known finding)

    def clone(self, **kw):
        c = Ctx(self.row, self.params, self.free, self.draws, self.rows, dict(self.rv), self.strict_fragile)
        c.draw_r = self.draw_r
        c.reads = self.reads
        c.quirks = self.quirks
        for k, v in kw.items():
            setattr(c, k, v)
        return c


def _finite(x, what, ctx=None):
    """Overflow-region rule of the regular domain (|value| < 1e8); only 'finite' inside quadrature / lenient mode."""
    v = val(x)
    limit = BIG if (ctx is None or ctx.strict_fragile) else 1e300
    if not math.isfinite(v) or abs(v) > limit:
        raise OutOfDomain(f'{what}: |value| beyond {limit:g} or not finite')
    return x


def _near(a, b):
    return abs(a - b) <= FRAGILE * max(1.0, abs(a), abs(b))


def _cmp_guard(ctx, a, b, ta, tb):
    """Raise Fragile when a comparison of a with b is within FRAGILE and not exactly decidable."""
    if not ctx.strict_fragile:
        return
    if a == b:
        if has_inexact(ta) or has_inexact(tb):
            raise Fragile('tie between inexact operands')
        return
    if _near(a, b):
        raise Fragile('operands closer than 1e-9')


def _truth(ctx, x, t):
    v = val(x)
    if ctx.strict_fragile:
        if v == 0.0:
            if has_inexact(t):
                raise Fragile('exact zero of an inexact operand in a truth test')
        elif abs(v) <= FRAGILE:
            raise Fragile('truth test closer than 1e-9 to zero')
    return v != 0.0


def ev(t, ctx):
    """Recursive evaluator, generic over float / HD."""
    k = t[0]
    if k == 'num':
        return float(t[1])
    if k == 'bool':
        return 1.0 if t[1] else 0.0
    if k == 'beta':
        v = ctx.params[t[1]]
        if ctx.free is not None and t[1] in ctx.free:
            return HD.var(v, ctx.free.index(t[1]), len(ctx.free))
        return float(v)
    if k == 'var':
        ctx.reads.add(t[1])
        return float(ctx.row[t[1]])
    if k == 'draw':
        if ctx.draw_r is None:
            raise OutOfDomain('draw outside MonteCarlo')
        return float(ctx.draws[t[1]][ctx.draw_r])
    if k == 'rv':
        if t[1] not in ctx.rv:
            raise OutOfDomain('random variable outside Integrate')
        return ctx.rv[t[1]]
    if k in ('+', '-', '*'):
        a, b = ev(t[1], ctx), ev(t[2], ctx)
        r = a + b if k == '+' else a - b if k == '-' else a * b
        return _finite(r, k)
    if k == '/':
        a, b = ev(t[1], ctx), ev(t[2], ctx)
        if val(b) == 0.0:
            raise OutOfDomain('zero divisor')
        if ctx.strict_fragile and abs(val(b)) < 1e-9:
            raise OutOfDomain('divisor smaller than 1e-9')
        return _finite(a / b, '/', ctx)
    if k == 'neg':
        return -ev(t[1], ctx)
    if k == '**':
        a, b = ev(t[1], ctx), ev(t[2], ctx)
        if 'pow2_hessian' in ctx.quirks and isinstance(a, HD) and t[2] == ('num', 2.0):
            # engine defect (bioExprPowerConstant.cc, exponent == 2): Hessian 2 g g' + 2 h instead of 2 g g' + 2 f h
            n = len(a.g)
            return HD(a.v * a.v, [2.0 * a.v * gi for gi in a.g],
                      [[2.0 * a.g[i] * a.g[j] + 2.0 * a.h[i][j] for j in range(n)] for i in range(n)])
        if t[2][0] == 'num' and float(t[2][1]).is_integer() and abs(t[2][1]) <= 8:
            # constant integer exponent: defined for any base (non-zero for negative exponents)
            n_ = int(t[2][1])
            va = val(a)
            if va == 0.0 and n_ <= 0:
                raise OutOfDomain('zero to a non-positive power')
            if ctx.strict_fragile and abs(va) < 1e-9 and n_ < 0:
                raise OutOfDomain('negative power of a number smaller than 1e-9')
            if va <= 0.0 or n_ >= 0:
                try:
                    f_ = va ** n_
                    d1_ = n_ * va ** (n_ - 1) if n_ != 0 else 0.0
                    d2_ = n_ * (n_ - 1) * va ** (n_ - 2) if n_ not in (0, 1) else 0.0
                except (OverflowError, ZeroDivisionError):
                    raise OutOfDomain('integer power overflow')
                return _finite(a.chain(f_, d1_, d2_) if isinstance(a, HD) else f_, '**', ctx)
        if val(a) <= 0.0:
            raise OutOfDomain('power of a non-positive number')
        if ctx.strict_fragile and val(a) < 1e-9:
            raise OutOfDomain('power of a number smaller than 1e-9')
        return _finite(_pow(a, b), '**', ctx)
    if k == 'exp':
        a = ev(t[1], ctx)
        if val(a) > (18.0 if ctx.strict_fragile else 700.0):
            raise OutOfDomain('exp overflow region')
        return _un(a, math.exp, math.exp, math.exp)
    if k == 'log':
        a = ev(t[1], ctx)
        if val(a) <= 0.0 or (ctx.strict_fragile and val(a) < 1e-9):
            raise OutOfDomain('log of a non-positive (or < 1e-9) number')
        return _un(a, math.log, lambda u: 1.0 / u, lambda u: -1.0 / (u * u))
    if k == 'logzero':
        a = ev(t[1], ctx)
        if val(a) == 0.0:
            if ctx.strict_fragile and has_inexact(t[1]):
                raise Fragile('logzero at an inexact zero')
            return a * 0.0 if isinstance(a, HD) else 0.0
        if val(a) < 0.0 or (ctx.strict_fragile and val(a) < 1e-9):
            raise OutOfDomain('logzero of a negative (or < 1e-9) number')
        return _un(a, math.log, lambda u: 1.0 / u, lambda u: -1.0 / (u * u))
    if k == 'sin':
        return _un(ev(t[1], ctx), math.sin, math.cos, lambda u: -math.sin(u))
    if k == 'cos':
        return _un(ev(t[1], ctx), math.cos, lambda u: -math.sin(u), lambda u: -math.cos(u))
    if k == 'ncdf':
        return _un(ev(t[1], ctx), ncdf, npdf, lambda u: -u * npdf(u))
    if k in ('min', 'max'):
        a, b = ev(t[1], ctx), ev(t[2], ctx)
        va, vb = val(a), val(b)
        if va == vb:
            if ctx.strict_fragile and (has_inexact(t[1]) or has_inexact(t[2]) or ctx.free is not None):
                raise Fragile('min/max tie')
            return a
        if ctx.strict_fragile and _near(va, vb):
            raise Fragile('min/max near tie')
        if k == 'min':
            return a if va < vb else b
        return a if va > vb else b
    if k == 'and':
        # the engine short-circuits; reads of the right operand are left unspecified (superset)
        a = _truth(ctx, ev(t[1], ctx), t[1])
        b = _truth(ctx, ev(t[2], ctx), t[2])
        return 1.0 if (a and b) else 0.0
    if k == 'or':
        a = _truth(ctx, ev(t[1], ctx), t[1])
        b = _truth(ctx, ev(t[2], ctx), t[2])
        return 1.0 if (a or b) else 0.0
    if k in ('==', '!=', '<=', '>=', '<', '>'):
        a, b = val(ev(t[1], ctx)), val(ev(t[2], ctx))
        _cmp_guard(ctx, a, b, t[1], t[2])
        r = {'==': a == b, '!=': a != b, '<=': a <= b, '>=': a >= b, '<': a < b, '>': a > b}[k]
        return 1.0 if r else 0.0
    if k == 'belongs':
        a = val(ev(t[1], ctx))
        for m in t[2]:
            _cmp_guard(ctx, a, float(m), t[1], ('num', m))
        return 1.0 if any(a == float(m) for m in t[2]) else 0.0
    if k == 'elem':
        kv = val(ev(t[1], ctx))
        if ctx.strict_fragile and has_inexact(t[1]) and _near(kv, round(kv)):
            raise Fragile('Elem key at an integer boundary from inexact arithmetic')
        if kv != math.floor(kv):
            raise OutOfDomain('Elem key is not an integer')
        key = int(kv)
        for kk, e in t[2]:
            if kk == key:
                return _finite(ev(e, ctx), 'elem', ctx)
        raise OutOfDomain(f'Elem key {key} absent')
    if k == 'condsum':
        tot = 0.0
        for c, e in t[1]:
            if _truth(ctx, ev(c, ctx), c):
                tot = tot + ev(e, ctx)
        return _finite(tot, 'condsum', ctx)
    if k == 'multsum':
        tot = 0.0
        for e in t[1]:
            tot = tot + ev(e, ctx)
        return _finite(tot, 'multsum', ctx)
    if k == 'multsumd':
        tot = 0.0
        for _, e in t[1]:
            tot = tot + ev(e, ctx)
        return _finite(tot, 'multsumd', ctx)
    if k == 'linutil':
        tot = 0.0
        for b, v in t[1]:
            tot = tot + ev(('beta', b), ctx) * ev(('var', v), ctx)
        if 'linutil_last_partner' in ctx.quirks and isinstance(tot, HD):
            # engine defect (bioExprLinearUtility.cc keeps ONE partner variable per literal id: theFriend[beta id] is
            # overwritten by every further term carrying that parameter): the value is the true sum, but the derivative
            # with respect to a parameter is the variable of the LAST term carrying it instead of the sum over all of
            # its terms.  Identical to the true derivative when no free parameter repeats.
            n = len(tot.g)
            g = [0.0] * n
            for b, v in t[1]:
                if b in ctx.free:
                    g[ctx.free.index(b)] = float(ctx.row[v])
            tot = HD(tot.v, g, [[0.0] * n for _ in range(n)])
        return _finite(tot, 'linutil', ctx)
    if k in ('loglogit', 'logit'):
        r = _loglogit(t, ctx)
        if k == 'logit':
            return _un(r, math.exp, math.exp, math.exp)
        return r
    if k == 'mc':
        R = None
        for name in leaves(t[1], 'draw'):
            R = len(ctx.draws[name])
        if R is None:
            # no draw inside: the mean of a constant
            return ev(t[1], ctx)
        tot = 0.0
        for r in range(R):
            tot = tot + ev(t[1], ctx.clone(draw_r=r))
        return _finite(tot / R if not isinstance(tot, HD) else tot * (1.0 / R), 'mc', ctx)
    if k == 'traj':
        if ctx.rows is None:
            raise OutOfDomain('trajectory without panel rows')
        prod = 1.0
        for row in ctx.rows:
            prod = prod * ev(t[1], ctx.clone(row=row))
        return _finite(prod, 'traj', ctx)
    if k == 'badlogit':
        raise OutOfDomain('inconsistent logit specification')
    if k == 'integrate':
        return _integrate(t, ctx)
    if k == 'derive':
        return _derive(t, ctx)
    raise ValueError(f'unknown term kind {k!r}')


def _pow(a, b):
    if not isinstance(a, HD) and not isinstance(b, HD):
        try:
            return a ** b
        except OverflowError:
            raise OutOfDomain('power overflow')
    # a**b = exp(b log a)
    la = _un(_lift(a, b if isinstance(b, HD) else a), math.log, lambda u: 1.0 / u, lambda u: -1.0 / (u * u))
    e = la * b
    try:
        f = val(a) ** val(b)
    except OverflowError:
        raise OutOfDomain('power overflow')
    return e.chain(f, f, f)


def _loglogit(t, ctx):
    if leaves(t[1], 'beta'):
        # the library audits the choice against the data with the *initial* parameter values; a choice
        # that depends on parameters is not a meaningful specification
        raise OutOfDomain('choice depends on parameters')
    choice = val(ev(t[1], ctx))
    if ctx.strict_fragile and has_inexact(t[1]) and _near(choice, round(choice)):
        raise Fragile('choice at an integer boundary from inexact arithmetic')
    if choice != math.floor(choice):
        raise OutOfDomain('choice is not an integer')
    ch = int(choice)
    alts = t[2]
    keys = [a for a, _, _ in alts]
    if ch not in keys:
        raise OutOfDomain(f'choice {ch} is not an alternative')
    avail = {}
    for a, u, av in alts:
        avail[a] = True if av is None else _truth(ctx, ev(av, ctx), av)
    if not avail[ch]:
        raise OutOfDomain('chosen alternative unavailable')
    utils = {a: ev(u, ctx) for a, u, av in alts if avail[a]}  # lazy: unavailable utilities are not read
    vch = utils[ch]
    m = max(val(u) for u in utils.values())
    if m - val(vch) > 600 or any(abs(val(u)) > 600 for u in utils.values()):
        raise OutOfDomain('logit overflow region')
    denom = 0.0
    for a, u in utils.items():
        d = u - vch
        denom = denom + _un(d, math.exp, math.exp, math.exp)
    return -_un(denom, math.log, lambda z: 1.0 / z, lambda z: -1.0 / (z * z)) if isinstance(denom, HD) else -math.log(denom)


def _integrate(t, ctx):
    """Integral over the real line in the named random variable: composite Simpson on [-40, 40]
    (the statement covers smooth, normally decaying integrands)."""
    name = t[2]
    n = 12000
    a, b = -40.0, 40.0
    hstep = (b - a) / n
    tot = 0.0
    for i in range(n + 1):
        x = a + i * hstep
        w = 1.0 if i in (0, n) else (4.0 if i % 2 else 2.0)
        c = ctx.clone(strict_fragile=False)  # quadrature nodes far in the tails are not 'values' to be compared
        c.rv = dict(ctx.rv)
        c.rv[name] = x
        try:
            v = ev(t[1], c)
        except OutOfDomain:
            raise
        tot = tot + v * w
    return tot * (hstep / 3.0)


def _derive(t, ctx):
    """Partial derivative of the argument w.r.t. a parameter or a variable, by hyper-dual numbers."""
    name = t[2]
    inner = ctx.clone()
    if name in ctx.params:
        inner.free = [name]
        r = ev(t[1], inner)
        return r.g[0] if isinstance(r, HD) else 0.0
    # derivative w.r.t. a data variable: treat the variable as a parameter
    inner.params = dict(ctx.params)
    inner.params['__dv__'] = ctx.row[name]
    inner.free = ['__dv__']
    r = ev(_subst_var(t[1], name), inner)
    return r.g[0] if isinstance(r, HD) else 0.0


def map_children(t, f):
    """Rebuilds a term applying f to every child term (structure-aware)."""
    k = t[0]
    if k in ('num', 'bool', 'beta', 'var', 'draw', 'rv', 'linutil', 'badlogit'):
        return t
    if k == 'belongs':
        return (k, f(t[1]), t[2])
    if k == 'elem':
        return (k, f(t[1]), tuple((kk, f(e)) for kk, e in t[2]))
    if k == 'condsum':
        return (k, tuple((f(c), f(e)) for c, e in t[1]))
    if k == 'multsum':
        return (k, tuple(f(e) for e in t[1]))
    if k == 'multsumd':
        return (k, tuple((kk, f(e)) for kk, e in t[1]))
    if k in ('loglogit', 'logit'):
        return (k, f(t[1]), tuple((a, f(u), None if av is None else f(av)) for a, u, av in t[2]))
    if k in ('integrate', 'derive'):
        return (k, f(t[1]), t[2])
    return (k,) + tuple(f(x) for x in t[1:])


def _subst_var(t, name):
    if t[0] == 'var' and t[1] == name:
        return ('beta', '__dv__')
    if t[0] == 'linutil':
        # expand so that the variable can be substituted
        out = None
        for b, v in t[1]:
            term = ('*', ('beta', b), _subst_var(('var', v), name))
            out = term if out is None else ('+', out, term)
        return out
    return map_children(t, lambda c: _subst_var(c, name))


def subst(t, mapping):
    """Replace leaves: mapping {('var', name): term, ('beta', name): term, ...}."""
    if t[0] in ('var', 'beta', 'draw', 'rv') and (t[0], t[1]) in mapping:
        return mapping[(t[0], t[1])]
    if t[0] == 'linutil':
        if any(('beta', b) in mapping or ('var', v) in mapping for b, v in t[1]):
            out = None
            for b, v in t[1]:
                term = ('*', subst(('beta', b), mapping), subst(('var', v), mapping))
                out = term if out is None else ('+', out, term)
            return out
        return t
    return map_children(t, lambda c: subst(c, mapping))


ALL_KINDS = {'num', 'bool', 'beta', 'var', 'draw', 'rv', '+', '-', '*', '/', '**', 'neg', 'exp', 'log', 'logzero',
             'sin', 'cos', 'ncdf', 'min', 'max', 'and', 'or', '==', '!=', '<=', '>=', '<', '>', 'belongs', 'elem',
             'condsum', 'multsum', 'multsumd', 'linutil', 'loglogit', 'logit', 'mc', 'traj', 'integrate', 'derive', 'badlogit'}


def evaluate(t, row=None, params=None, draws=None, rows=None, strict=True):
    """Mathematical value as a float; raises OutOfDomain / Fragile."""
    ctx = Ctx(row=row, params=params, draws=draws, rows=rows, strict_fragile=strict)
    try:
        r = ev(t, ctx)
    except (OverflowError, ZeroDivisionError, ValueError) as e:
        raise OutOfDomain(f'{type(e).__name__}: {e}')
    return float(val(r))


def evaluate_hd(t, free, row=None, params=None, draws=None, rows=None, strict=True, quirks=()):
    """(value, gradient list, hessian list of lists) w.r.t. the names in ``free``."""
    ctx = Ctx(row=row, params=params, free=free, draws=draws, rows=rows, strict_fragile=strict)
    ctx.quirks = tuple(quirks)
    try:
        r = ev(t, ctx)
    except (OverflowError, ZeroDivisionError, ValueError) as e:
        raise OutOfDomain(f'{type(e).__name__}: {e}')
    if not isinstance(r, HD):
        r = HD.const(r, len(free))
    return r.v, r.g, r.h


def reads(t, row, params, draws=None, rows=None):
    """Set of columns a lazy evaluation of the term touches for this observation."""
    ctx = Ctx(row=row, params=params, draws=draws, rows=rows, strict_fragile=False)
    ev(t, ctx)
    return set(ctx.reads)


def _perturb(v, s):
    """Relative perturbation by 1e-13; integer-valued inputs (keys, choices, 0/1 indicators, identifiers) are exact data
    and are left alone - perturbing them would change which branch / key is taken, which is not a conditioning question."""
    v = float(v)
    return v if v.is_integer() else v * (1.0 + 1e-13 * s)


def ill_conditioned(t, row, params, draws=None, rows=None, base=None):
    """Rule (c): re-evaluate with inputs perturbed by 1e-13 relative; True when the value moves by
    more than 1e-10 relative (catastrophic cancellation)."""
    try:
        if base is None:
            base = evaluate(t, row, params, draws, rows, strict=False)
        s = 1.0
        row2 = {}
        for kx, v in (row or {}).items():
            row2[kx] = _perturb(v, s)
            s = -s
        par2 = {}
        for kx, v in (params or {}).items():
            par2[kx] = _perturb(v, s)
            s = -s
        rows2 = None
        if rows is not None:
            rows2 = [{kx: _perturb(v, 1.0) for kx, v in r.items()} for r in rows]
        other = evaluate(t, row2, par2, draws, rows2, strict=False)
    except (OutOfDomain, Fragile):
        return True
    return abs(other - base) > 1e-10 * max(1e-2, abs(base))


def close(a, b, rel=REL, abs_=ABS):
    if a == b:
        return True
    if not (math.isfinite(a) and math.isfinite(b)):
        return False
    return abs(a - b) <= abs_ + rel * max(abs(a), abs(b))


# --------------------------------------------------------------------------- builder (imports biogeme)
class Builder:
    """term -> biogeme expression through the public DSL.
    ``betas``: {name: (value, lb, ub, status)}.  The same Python tuple *object* met twice yields the same
    expression object when ``share`` is true (sharing experiments); equal-but-distinct tuples never share."""

    def __init__(self, betas, share=False, raw_numbers=True, av_order='same'):
        self.betas = betas
        self.share = share
        self.raw = raw_numbers
        self.memo = {}
        self.av_order = av_order  # order of the availability dictionary relative to the utilities: same | reversed | rotated

    def leaf_or_raw(self, t):
        """Operand for an operator overload: raw Python number/bool for constant leaves."""
        if self.raw and t[0] == 'num':
            return t[1]
        if self.raw and t[0] == 'bool':
            return t[1]
        return self.build(t)

    def build(self, t):
        if self.share and id(t) in self.memo and self.memo[id(t)][0] is t:
            return self.memo[id(t)][1]
        e = self._build(t)
        if self.share:
            self.memo[id(t)] = (t, e)  # keeps t alive, so its id cannot be recycled
        return e

    def _build(self, t):
        import biogeme.expressions as ex
        from biogeme import models

        k = t[0]
        if k == 'num':
            return ex.Numeric(t[1])
        if k == 'bool':
            return ex.Numeric(t[1])
        if k == 'beta':
            v, lb, ub, st = self.betas[t[1]]
            return ex.Beta(t[1], v, lb, ub, st)
        if k == 'var':
            return ex.Variable(t[1])
        if k == 'draw':
            return ex.bioDraws(t[1], t[2])
        if k == 'rv':
            return ex.RandomVariable(t[1])
        if k in ('+', '-', '*', '/', '**', 'and', 'or', '==', '!=', '<=', '>=', '<', '>'):
            a, b = t[1], t[2]
            const_a = a[0] in ('num', 'bool')
            const_b = b[0] in ('num', 'bool')
            if const_a and const_b:
                x, y = self.build(a), self.leaf_or_raw(b)
            elif const_a:
                x, y = self.leaf_or_raw(a), self.build(b)
            else:
                x, y = self.build(a), self.leaf_or_raw(b)
            if k == '+':
                return x + y
            if k == '-':
                return x - y
            if k == '*':
                return x * y
            if k == '/':
                return x / y
            if k == '**':
                return x ** y
            if k == 'and':
                return x & y
            if k == 'or':
                return x | y
            if k == '==':
                return x == y
            if k == '!=':
                return x != y
            if k == '<=':
                return x <= y
            if k == '>=':
                return x >= y
            if k == '<':
                return x < y
            return x > y
        if k == 'neg':
            return -self.build(t[1])
        un = {'exp': ex.exp, 'log': ex.log, 'logzero': ex.logzero, 'sin': ex.sin, 'cos': ex.cos,
              'ncdf': ex.bioNormalCdf, 'mc': ex.MonteCarlo, 'traj': ex.PanelLikelihoodTrajectory}
        if k in un:
            return un[k](self.leaf_or_raw(t[1]))
        if k == 'min':
            return ex.bioMin(self.leaf_or_raw(t[1]), self.leaf_or_raw(t[2]))
        if k == 'max':
            return ex.bioMax(self.leaf_or_raw(t[1]), self.leaf_or_raw(t[2]))
        if k == 'belongs':
            return ex.BelongsTo(self.leaf_or_raw(t[1]), set(t[2]))
        if k == 'elem':
            return ex.Elem({kk: self.leaf_or_raw(e) for kk, e in t[2]}, self.leaf_or_raw(t[1]))
        if k == 'condsum':
            return ex.ConditionalSum([ex.ConditionalTermTuple(condition=self.leaf_or_raw(c), term=self.leaf_or_raw(e))
                                      for c, e in t[1]])
        if k == 'multsum':
            return ex.bioMultSum([self.leaf_or_raw(e) for e in t[1]])
        if k == 'multsumd':
            return ex.bioMultSum({kk: self.leaf_or_raw(e) for kk, e in t[1]})
        if k == 'linutil':
            return ex.bioLinearUtility([ex.LinearTermTuple(beta=self.build(('beta', b)), x=self.build(('var', v)))
                                        for b, v in t[1]])
        if k in ('loglogit', 'logit'):
            util = {a: self.leaf_or_raw(u) for a, u, av in t[2]}
            full = all(av is None for _, _, av in t[2])
            alts = list(t[2])
            if self.av_order == 'reversed':
                alts = alts[::-1]
            elif self.av_order == 'rotated':
                alts = alts[1:] + alts[:1]
            av = None if full else {a: (1 if av is None else self.leaf_or_raw(av)) for a, u, av in alts}
            ch = self.leaf_or_raw(t[1])
            return (models.loglogit if k == 'loglogit' else models.logit)(util, av, ch)
        if k == 'badlogit':
            # t[1] in {'availability-keys', 'utility-keys', 'choice-values'}: a logit whose dictionaries / choice are inconsistent
            util = {1: ex.Numeric(0.5), 2: ex.Variable('x1') * 0.25, 3: ex.Numeric(0.0)}
            av = {1: 1, 2: 1, 3: 1}
            ch = ex.Variable('choice')
            if t[1] == 'availability-keys':
                av[4] = 1
            elif t[1] == 'utility-keys':
                del av[2]
            else:
                del util[3]
                del av[3]
            return models.loglogit(util, av, ch)
        if k == 'integrate':
            return ex.Integrate(self.leaf_or_raw(t[1]), t[2])
        if k == 'derive':
            return ex.Derive(self.leaf_or_raw(t[1]), t[2])
        raise ValueError(f'unknown term kind {k!r}')


def default_betas(names, values=None, fixed=()):
    """{name: (value, lb, ub, status)} with status 1 for names in ``fixed``."""
    values = values or {}
    return {n: (values.get(n, 0.0), None, None, 1 if n in fixed else 0) for n in names}


def show(t):
    """Compact printable form of a term."""
    k = t[0]
    if k in ('num', 'bool'):
        return repr(t[1])
    if k in ('beta', 'var', 'rv'):
        return t[1]
    if k == 'draw':
        return f'{t[1]}~{t[2]}'
    return k + '(' + ','.join(show(c) if isinstance(c, tuple) and c and isinstance(c[0], str) and c[0] in ALL_KINDS
                              else repr(c) for c in t[1:]) + ')'
