"""C16 — catalogs span the product of their controllers; operators stay inside it.

Explicit-state model checking of the configuration graph of a family of catalog structures, on the
real code, against a boring reference model (plain Python: controller name -> index, modular arithmetic).

 part 'static'  every configuration of every structure: size of the space, identifier for every listing
                order, from_string / from_dict / from_tuple_of_configurations round trips, iteration (full set,
                every subset of size 1 and 2), configure_catalogs / select_expression / set_configuration_from_id
                / BIOGEME.from_configuration; after each selection every catalog shows the member of its
                controller and the formula's str, signature tree and engine value on every row (two parameter
                points) equal those of the formula written out by hand (plain expressions, no catalog) and the
                value computed with stdlib math.
 part 'ops'     the complete transition relation: from EVERY configuration, every operator of
                prepare_operators() x step alphabet x EVERY answer of the random seam (random.choices /
                sample / choice replaced by a choice-point enumerator); result compared with the reference
                model, closure, the real object inspected (and evaluated through the engine) after each
                transition; inverse property; reachability over the recorded real transitions.
 part 'hidden'  operators applied with argument configuration c while the real object sits in EVERY other
                configuration s (the full product of hidden state x argument).
 part 'chains'  every operator history of depth 2 (quick) / 3 (thorough) from every configuration, real
                object vs reference model at every step, states reached by different paths compared.
 part 'confobj' histories on ONE Configuration object: every way of obtaining it (empty, constructor from a list /
                generator, from_dict, from_string, from_tuple_of_configurations, current_configuration(), result
                of an operator) x every configuration x every listing order, followed by 1 (2, 3 with a reduced
                order alphabet) assignments of the public `selections` property with every configuration in
                every listing order.  After the history every identifier observer (get_string_id, string_id,
                str), ==/hash against freshly built configurations of the whole product, the round trip through
                from_string, get_selection, membership in set_of_configurations(), configure_catalogs with that
                object, sets of such objects (size, equality with the product, iteration over them and over
                every pair) and every operator applied to them must agree with the reference model of the LAST
                assignment.
 part 'containers' (tasks of the parts static / ops / hidden / chains carrying `names_as`): the same exploration on
                the structures with hand-written catalogs, every catalog now governed by an explicitly declared
                Controller whose specification names are handed over in EVERY kind of iterable the signature
                (Iterable[str]) admits: list, tuple, dict keys view, a re-iterable object without __len__, a
                generator, a map object, a list iterator, an itertools.chain, a hand-written one-shot iterator
                (thorough: also mixed kinds within one formula, and the K-structures with only the shared
                controller declared that way).  The reference model does not know about containers: the space,
                identifiers, iteration, selection, values and operators must be those of the names listed.
                Configuration(...) is likewise built from every such kind of iterable of SelectionTuples.
 part 'orders'  every catalog that is handed to an EXISTING controller (controlled_by = a shared declared Controller, the
                controller another catalog made for itself, or - all structures with hand-written catalogs - a Controller
                declared for it) is declared with its members in EVERY other order than the controller's names, and with
                the last member dropped / renamed / one member added; one catalog at a time and all catalogs of a
                controller together (thorough: every pair of different orders on two catalogs of one controller); through
                Catalog(list) and Catalog.from_dict.  Acceptable outcomes: the catalog is refused, or every configuration
                makes every catalog take the member carrying the NAME its controller selects and the formula equals the
                hand-written one (text, signature, engine values).
 part 'treeops' tree operations on the formula with catalogs sitting in EVERY configuration (reached from another one):
                rename_elementary (5 lists of names x prefix / suffix / both / none, keyword and positional), fix_betas
                (3 dictionaries x the same options), change_init_values (3 dictionaries), and every history of 2 operations
                over a reduced alphabet of 6 (second operation resolved against the names produced by the first); applied
                to the formula whose parameters / variables are one shared object per name, one object per occurrence, and
                to a deep copy of the configured formula.  Afterwards every observer - set_of_elementary_expression and
                dict_of_elementary_expression for every type, get_beta_values, get_elementary_expression for every name
                before / after, embed_expression, requires_draws, check_draws / check_rv / check_panel_trajectory,
                count_panel_trajectory_expressions, get_status_id_manager, str, signature tree, engine values on a table
                that holds the renamed columns - must equal that of the hand-written formula of the configuration after
                the same operations, and the plain-Python reference (the operation applied to the term, stdlib math).
 part 'names'   (tasks whose structure is called '<name>~<shape>'): the same structures with the names of controllers,
                catalogs, members and the generic names of the helper generators rewritten by every SHAPE of names - only
                ';' and ':' are reserved, every other string is a name and two names are the same only as the same string:
                'blank-ends' (each name of the seed with a blank / tab / no-break space / two blanks at one end or both),
                'twins' (names that differ from each other only by letter case, by white space at an end or by the encoding
                of an accented letter, so that any normalisation merges two of them) and 'marks' (punctuation a parser,
                pattern or format string could give a meaning to: . | [ ] = , { } ( ) " * / % backslash ? ' & # + ^ $).  Parts static,
                ops, hidden, confobj and orders (thorough: + chains, every way of obtaining a Configuration object, depth 2)
                with the unchanged reference model.  The part 'orders' (all structures, shaped or not) also renames the last
                member into a name that differs from the controller's only by a blank at its end / only by letter case:
                such a catalog lacks the alternative and must be refused.
 part 'numbers' (tasks carrying `numbers`): the structures that hand plain numbers to catalogs / segmentations (a member
                that is a number; the keys of the mappings of the potential segmentations) with those numbers given as
                numbers of numpy (int64, int32, uint8, int16, uint64, int8, uint16, intc / float64, float32, float16,
                longdouble in rotation, same values): static and hidden (thorough: + ops) against the hand-written formula
                with Python's numbers.
 part 'intkinds' the STEP of every operator and the INDEX of every selection by index given as every kind of integer - numbers of
                numpy (int64, int32, int16, int8, an element of numpy.arange, uint8, uint16, uint64; thorough: + intp, intc,
                longlong, uint32), a member of a subclass of int, a bool (steps / indices 0 and 1) -: from EVERY configuration,
                every operator of prepare_operators() and the method behind it (increased_controller, decreased_controller,
                two_controllers, modify_random_controllers; quick: 3 steps) x the step alphabet of the part 'ops' x every answer
                of the random seam, compared with the reference model of int(step): closure, result, argument unaltered, object
                state, formula (text; engine values and signature once per family of kinds and reached configuration); increase
                then decrease and decrease then increase by the same step of that kind; select_expression /
                CentralController.set_controller / Controller.set_index with every index of that kind (out-of-range ones
                refused, the object as it was), current_configuration() in that state ==/hash the configuration, and Increase /
                Decrease of every controller (step 1 as int and as that kind) on that object.
 part 'refused' invalid requests with the object in EVERY configuration x derived from EVERY configuration: configure_catalogs /
                set_configuration_from_id / an operator given a configuration with an unknown selection (a made-up name, the
                name of a selection of another controller) at each position, with an unknown controller (sorting first / last),
                lacking one controller; increased_controller / decreased_controller / set_controller / two_controllers on an
                unknown controller; two_controllers with an unknown direction.  Whether the request is refused and whether it
                moved the selection is counted, not judged (the statement is silent); judged: afterwards the object is in ONE
                configuration of the product, every catalog on the member of its controller, the formula text that of the
                hand-written one, and an operator applied to current_configuration() goes on as the reference model says.
"""
from __future__ import annotations

import itertools
import math
import os
import re

from vf.rec import Rec

ID = 'C16'
LEVEL = 'model_checking'
TECHNIQUE = ('explicit-state exploration of the configuration graph of 17 (+1 in the thorough tier) catalog structures on the real '
             'Catalog/Controller/CentralController objects: every configuration x every operator x step alphabet '
             'x every answer of the random seam, compared step by step with a plain-Python reference model; every '
             'configuration evaluated through the engine against the formula written out by hand; every history of '
             '(way of obtaining a Configuration object) x 1..2 (3) assignments of its selections property, every observer '
             'of the object against the reference model of the last assignment; the static / operator / hidden-state '
             '(thorough: depth-2 history) exploration repeated on the 11 (12) structures with hand-written catalogs with every '
             'catalog under an explicitly declared Controller whose names are handed over as each of 9 kinds of iterable '
             '(list, tuple, dict keys, re-iterable without len, generator, map, iterator, chain, hand-written one-shot iterator); '
             'every catalog handed to an existing controller declared with its members in every other order / one member dropped, '
             'renamed, added (refused, or behaves like the hand-written formula with alternatives matched by name); every '
             'configuration x tree operation (rename_elementary, fix_betas, change_init_values with every prefix/suffix option; '
             'histories of 2) x {shared, per-occurrence elementary objects, deep copy}: all observers of the elementary '
             'expressions, text, signature and engine values against the hand-written formula after the same operations and '
             'against the operation applied to the term in plain Python; the static / operator / hidden-state / Configuration-object / '
             'member-order exploration repeated on every structure with its controller, catalog, member and generic names rewritten '
             'by 3 shapes of names (white space at the ends; names differing only by case, end blanks or unicode encoding; '
             'punctuation other than the reserved ";" and ":"), and with the plain numbers given to catalogs and segmentations '
             'handed over as numbers of numpy; every configuration x every operator (and the method behind it) x step alphabet x '
             'every kind of integer the step is given as (8-12 numpy integer types signed and unsigned, int subclass, bool), '
             'increase-then-decrease with such steps, every selection by index x entry point x kind of integer, against the '
             'reference model of int(value); every (state, configuration) pair x every invalid request derived from it '
             '(unknown selection / controller, missing controller, unknown direction) x entry point: the object stays inside the product')
RULE = ('one case per (structure, configuration, listing order) identifier check, per (structure, configuration, '
        'entry point, parameter point) evaluation against the hand-written formula, per visited element of an '
        'iteration, and per operator application (structure, hidden state, argument configuration, operator, step, '
        'random answer tape / history), and per history on one Configuration object (way of obtaining it, its '
        'configuration and listing order, the assigned configurations and their listing orders). Non-trivial: '
        'evaluations always; identifier checks whose listing order is '
        'not the canonical one; operator applications that change the configuration; Configuration-object histories '
        'whose last assignment changes the configuration or lists it in a non-canonical order. The cases of the '
        '"containers" variants (kind of iterable the controller names are given as, all / only the shared controller declared '
        'explicitly) are the same cases keyed additionally by the variant. Part orders: one case per (structure, declared / '
        'as described, altered catalogs and their alteration, constructor), all non-trivial. Part treeops: one case per '
        '(structure, configuration, way the elementary objects are held, history of operations); non-trivial when the '
        'history changes the hand-written formula (or is the observers-only history). Parts names / numbers: the same cases on '
        'the structure named <name>~<shape> / keyed additionally by the kind of number. Part intkinds: one case per '
        '(structure, configuration, operator, step, kind of integer, entry point, random answer tape), per (configuration, '
        'controller, step, kind, order) inverse pair, per (configuration, controller, index, kind, entry point) selection; '
        'non-trivial when the configuration changes. Part refused: one case per (structure, state, invalid request); '
        'non-trivial when the request moved the selection. distinct = distinct such keys.')
ASSUMPTIONS = [
    'names of controllers, catalogs and members do not contain the reserved characters ";" and ":" and catalog '
    'names are unique in a formula (the library reserves / requires this)',
    'randomness of the operators enters only through the module attribute biogeme.controller.random '
    '(choices / sample / choice / randint / randrange / shuffle are owned and enumerated; any other use is a harness error)',
    'the engine (cythonbiogeme) is trusted to evaluate a plain formula; values are additionally compared with stdlib math '
    '(rel 1e-10) on a 4-row table at two parameter points',
    'a Configuration object changes only through its public `selections` property (valid, complete assignments); in-place '
    'edits of the returned list are outside the statement; after a REFUSED assignment (duplicate controller) the object must still be the configuration of its last accepted assignment',
    'a Controller may be declared with ANY iterable of distinct names (signature Iterable[str]), one-shot iterators included; '
    'the iterable is read in its own order; unordered containers (set) are not in the alphabet; Catalog(named_expressions) is '
    'declared as a list and is always given a list',
    'tree operations: the new names produced by a renaming (prefix + name + suffix) are neither in the list of names to '
    'rename nor already used in the formula (histories violating this are skipped and counted), so that the result does not '
    'depend on how many times a shared object is visited; a tree operation is compared in the configuration in which it '
    'was applied (what members that were not selected look like afterwards is outside the statement); names listed as a list',
    'a catalog handed to a controller whose names it does not list in the same order may be refused (any exception raised '
    'by the library while it is declared counts as refused) or accepted; if accepted, "matching alternative" means the member '
    'carrying the name the controller selects; a catalog lacking one of the names must be refused',
    'a name is any string without ";" and ":" (white space, punctuation, any letter case and unicode encoding included); two '
    'names are the same name only when they are the same string; shapes of names explored: blank-ends, twins, marks (empty '
    'names and names containing line breaks are not in the alphabet)',
    'the numbers of numpy (numpy.integer, numpy.floating) are valid wherever a catalog member / a key of a segmentation mapping '
    'is a plain number and mean the same value (repository commit 54cc724)',
    'a step / an index is an integer whatever its type: numpy.integer of any width and signedness, subclasses of int, bool '
    '(operator.index(value) is the step / index meant); the reported number of modifications only has to be an integer; numpy '
    'overflow warnings are ignored, the result is judged',
    'an invalid request (configuration naming an unknown selection / controller or lacking a controller, operator on an unknown '
    'controller / direction) may be refused or not and may move the selection or not (counted): only the invariant that the '
    'object stays in one configuration of the product, consistent with the hand-written formula, is judged; an out-of-range '
    'index must be refused with the object unchanged (as in the part static)',
    'structures are bounded: <= 3 controllers, <= 4 selections per controller, <= 12 configurations per structure (24 in the thorough tier)',
]
ANCHOR_FILES = ['src/biogeme/catalog.py', 'src/biogeme/controller.py', 'src/biogeme/configuration.py',
                'src/biogeme/expressions/multiple_expressions.py', 'src/biogeme/expressions/catalog_iterator.py',
                'src/biogeme/expressions/base_expressions.py', 'src/biogeme/segmentation.py']
DETERMINISM_SLICE = 3
TASK_TIMEOUT = 600.0

SEP, SELSEP = ';', ':'  # the documented identifier syntax (reference side)


# =========================================================================== alphabets (VERIF_SEED)
def alphabet(seed):
    """Value / name alphabets.  Never sampling: each seed is one fixed finite alphabet, explored exhaustively."""
    k = seed % 4
    rows = [
        dict(x=[1.0, 2.0, 3.0, 0.5], y=[0.5, 1.5, 2.5, 1.0], z=[2.0, 0.25, 1.0, 3.0], g=[1, 2, 1, 2], h=[0, 1, 2, 2],
             ch=[1, 2, 1, 2], av=[1, 1, 1, 0]),
        dict(x=[0.75, 1.25, 2.0, 4.0], y=[2.0, 0.5, 1.0, 1.5], z=[1.0, 3.0, 0.5, 2.0], g=[2, 2, 1, 1], h=[2, 0, 1, 0],
             ch=[2, 1, 1, 2], av=[1, 0, 1, 1]),
        dict(x=[3.0, 0.25, 1.5, 1.0], y=[1.0, 2.0, 0.25, 3.0], z=[0.5, 1.0, 2.0, 4.0], g=[1, 1, 2, 2], h=[1, 2, 0, 1],
             ch=[1, 1, 2, 2], av=[0, 1, 1, 1]),
        dict(x=[2.0, 1.0, 0.5, 1.5], y=[0.25, 1.0, 3.0, 2.0], z=[3.0, 2.0, 1.0, 0.5], g=[2, 1, 2, 1], h=[0, 0, 1, 2],
             ch=[2, 2, 1, 1], av=[1, 1, 0, 1]),
    ][k]
    betas = [
        dict(b1=0.5, b2=-1.25, b3=0.75, bf=2.0),
        dict(b1=-0.5, b2=0.25, b3=1.5, bf=-1.0),
        dict(b1=1.25, b2=0.5, b3=-0.75, bf=0.5),
        dict(b1=0.125, b2=-2.0, b3=1.0, bf=1.5),
    ][k]
    # names: catalogs / controllers K*, members M*.  Pools are adversarial for sorting and for confusion of roles.
    names = [
        dict(c1='c1', c2='c2', c3='c3', K='K', m=['lin', 'log', 'sq', 'ex'], G='G', GA='GA', GB='GB'),
        dict(c1='c10', c2='c2', c3='c1', K='c', m=['a', 'ab', 'a b', 'B'], G='seg', GA='p q', GB='p'),
        dict(c1='β-cat', c2='Cat_Z', c3='cat a', K='0', m=['é1', 'x-y', 'no_seg', '1'], G='no_seg', GA='g', GB='h'),
        dict(c1='b', c2='a', c3='c', K='a b', m=['b', 'a', 'c', 'generic'], G='altspec', GA='generic', GB='x_y'),
    ][k]
    return dict(rows=rows, betas=betas, names=names, k=k)


# --------------------------------------------------------------------------- shapes of names (part 'names')
# The only reserved characters of a name are ';' and ':'.  Every other string is a name, and two names are the same
# name only when they are the same string.  Each shape rewrites the names of the controllers, catalogs, members and the
# generic names handed to the helper generators; the structures, tables and parameters stay those of the seed.
NAME_SHAPES = ('blank-ends', 'twins', 'marks')
_NAME_KEYS = ('c1', 'c2', 'c3', 'K', 'G', 'GA', 'GB')
# white space at either end: blank, tab, no-break space (U+00A0), two blanks, white space at both ends
_BLANK_ENDS = (' {}', '{} ', ' {} ', '\t{}', '{}\t', '\u00a0{}', '{}  ', '{}\u00a0', '  {}', '\t{} ', ' {}\t')
# punctuation that a parser / formatter / pattern could give a meaning to (never ';' nor ':')
_MARKS = ('{}.1', '{}|{}', '[{}]', '{}={}', '{},{}', '{{{}}}', '({})', '"{}"', '{}*', '{}/{}', '%s{}', '\\{}', '{}?', "'{}", '{}&{}', '#{}',
          '{}+', '^{}$')


def shaped_names(names, shape, k):
    """The names of a seed rewritten by a shape (None: unchanged)."""
    if shape is None:
        return names
    out = dict(names)
    keys = list(_NAME_KEYS) + [('m', i) for i in range(len(names['m']))]
    m = list(names['m'])

    def put(key, value):
        if isinstance(key, tuple):
            m[key[1]] = value
        else:
            out[key] = value

    def old(key):
        return names['m'][key[1]] if isinstance(key, tuple) else names[key]

    if shape == 'blank-ends':
        # every name of the seed with white space at one end (or both); the decoration rotates with the seed
        for j, key in enumerate(keys):
            put(key, _BLANK_ENDS[(j + 3 * k) % len(_BLANK_ENDS)].format(old(key)))
    elif shape == 'marks':
        for j, key in enumerate(keys):
            pat = _MARKS[(j + 5 * k) % len(_MARKS)]
            put(key, pat.format(*([old(key)] * pat.replace('{{', '').count('{}'))))
    elif shape == 'twins':
        # names that differ from each other ONLY by letter case, by white space at an end, or by the way an accented
        # letter is encoded: any normalisation of a name (strip, lower, casefold, unicode normal form) merges two of them
        low, up = [('k', 'K'), ('ab', 'aB'), ('\u00e9', 'e\u0301'), ('z z', 'Z z')][k]
        ctrl = [low, up, low + ' ', ' ' + low, ' ' + up, up + ' ', low + '\t']
        mem = [[low, up, low + ' ', ' ' + low], [up + ' ', up, low, ' ' + up], [low, up, up.upper() + ' ', low + ' '],
               [' ' + low, low, up, low + '  ']][k]
        for j, key in enumerate(_NAME_KEYS):
            out[key] = ctrl[(j + k) % len(ctrl)]
        m[:] = mem
    else:
        raise KeyError(shape)
    out['m'] = m
    flat = [out[key] for key in _NAME_KEYS]
    if len(set(flat)) != len(flat) or len(set(m)) != len(m) or any(SEP in s or SELSEP in s for s in flat + m):
        raise RuntimeError(f'alphabet error: shape {shape} of seed alphabet {k} gives {flat} / {m}')
    return out


# =========================================================================== kinds of iterables (reference side)
# every kind of object that is an Iterable[...] of the listed items, in the listed order
# kinds of numbers of numpy (part 'numbers'): all of them are numbers for the library (numpy.integer / numpy.floating)
NUMPY_INTS = ('int64', 'int32', 'uint8', 'int16', 'uint64', 'int8', 'uint16', 'intc')
NUMPY_FLOATS = ('float64', 'float32', 'float16', 'longdouble')
NAME_CONTAINERS = ('list', 'tuple', 'dict_keys', 'reiterable', 'generator', 'map', 'iterator', 'chain', 'once')
ONE_SHOT = ('generator', 'map', 'iterator', 'chain', 'once')


class _ReIterable:
    """Iterable only: no __len__, no __getitem__; every iter() starts again."""

    def __init__(self, items):
        self._items = list(items)

    def __iter__(self):
        return iter(list(self._items))


class _Once:
    """A hand-written one-shot iterator (its own iterator; exhausted after one pass)."""

    def __init__(self, items):
        self._items = list(items)
        self._i = 0

    def __iter__(self):
        return self

    def __next__(self):
        if self._i >= len(self._items):
            raise StopIteration
        self._i += 1
        return self._items[self._i - 1]


def as_container(kind, items):
    items = list(items)
    if kind == 'list':
        return list(items)
    if kind == 'tuple':
        return tuple(items)
    if kind == 'dict_keys':
        return {it: None for it in items}.keys()
    if kind == 'reiterable':
        return _ReIterable(items)
    if kind == 'generator':
        return (it for it in items)
    if kind == 'map':
        return map(lambda it: it, items)
    if kind == 'iterator':
        return iter(items)
    if kind == 'chain':
        h = len(items) // 2
        return itertools.chain(items[:h], items[h:])
    if kind == 'once':
        return _Once(items)
    raise KeyError(kind)


def container_kind(names_as, j):
    """Kind of iterable used for the j-th explicitly declared controller: a kind, or 'mix<k>' = the kinds in
    rotation starting at #k."""
    if names_as.startswith('mix'):
        return NAME_CONTAINERS[(j + int(names_as[3:])) % len(NAME_CONTAINERS)]
    return names_as


def has_handwritten_catalog(st):
    found = []

    def walk(t):
        if isinstance(t, (tuple, list)):
            if isinstance(t, tuple) and t and t[0] == 'cat':
                found.append(t[1])
            for a in t:
                walk(a)

    walk(st['term'])
    return bool(found)


# =========================================================================== term language (reference side)
# ('num', v) ('raw', v) ('beta', name, value, status) ('var', name)
# ('+',a,b) ('-',a,b) ('*',a,b) ('/',a,b) ('neg',a) ('exp',a) ('log',a) ('pow',a,k) ('min',a,b) ('max',a,b)
# ('==',a,b) ('!=',a,b) ('<',a,b) ('<=',a,b) ('>',a,b) ('>=',a,b)
# ('msum',[t..]) ('elem',[(key,t)..],keyterm) ('loglogit',[(alt,t)..],None|[(alt,t)..],choiceterm)
# ('cat', catalog_name, controller_name|None, [(member_name, term)..])
# ('h', helper_index, beta_index[, alternative])   reference to a catalog produced by a helper generator

def B(al, name, status=0):
    return ('beta', name, al['betas'][name], status)


def V(name):
    return ('var', name)


def N(v):
    return ('num', float(v))


def seg_names(segs, maxnum):
    """Reference for the selections offered by segmentation_catalogs: combinations of at most maxnum
    segmentations, in the documented order, named by the joined variable names ('no_seg' for none)."""
    combos = [c for c in itertools.product([False, True], repeat=len(segs)) if sum(c) <= maxnum]
    names = ['no_seg' if not any(c) else '-'.join(s['var'] for keep, s in zip(c, segs) if keep) for c in combos]
    return combos, names


def seg_term(beta, segs, combo):
    """The segmented parameter written out by hand (documented by Segmentation.segmented_code)."""
    _, name, value, status = beta
    terms = [beta]
    for keep, s in zip(combo, segs):
        if not keep:
            continue
        ref = s['ref'] if s['ref'] is not None else s['map'][0][1]
        for val, cat in s['map']:
            if cat == ref:
                continue
            terms.append(('*', ('beta', f'{name}_{cat}', value, status), ('==', V(s['var']), N(val))))
    return ('msum', terms)


def helper_controllers(h):
    """controller name -> selections, for a helper description."""
    out = {}
    if h['kind'] == 'seg':
        out[h['generic']] = seg_names(h['segs'], h['max'])[1]
    else:
        if h['segs']:
            out[h['generic']] = seg_names(h['segs'], h['max'])[1]
        out[h['generic'] + '_gen_altspec'] = ['generic', 'altspec']
    return out


def helper_catalog_names(h):
    """(catalog name, controller name) for every catalog a helper generates (reference)."""
    out = []
    if h['kind'] == 'seg':
        for b in h['betas']:
            out.append((f'segmented_{b[1]}', h['generic']))
    else:
        allb = [b[1] for b in h['betas']] + [f'{b[1]}_{a}' for a in h['alts'] for b in h['betas']]
        if h['segs']:
            for n in allb:
                out.append((f'segmented_{n}', h['generic']))
        for b in h['betas']:
            for a in h['alts']:
                out.append((f'{b[1]}_{a}_gen_altspec', h['generic'] + '_gen_altspec'))
    return out


def expand_helper(node, st, choice):
    """Hand-written term of a helper-generated catalog under a choice (controller -> index)."""
    h = st['helpers'][node[1]]
    beta = h['betas'][node[2]]
    if h['kind'] == 'gas':
        alt = node[3]
        if choice[h['generic'] + '_gen_altspec'] == 1:
            beta = ('beta', f'{beta[1]}_{alt}', beta[2], beta[3])
        if not h['segs']:
            return beta
    combos, _ = seg_names(h['segs'], h['max'])
    return seg_term(beta, h['segs'], combos[choice[h['generic']]])


def controllers_of(st):
    """Reference: controller name -> list of selection names, from the description alone."""
    if st.get('menus'):
        # part 'orders': the menus are those of the unaltered description, whatever the order (or the set) of the
        # members listed by the altered catalogs
        return dict(sorted((c, list(v)) for c, v in st['menus'].items()))
    out = {}

    def walk(t):
        if not isinstance(t, tuple):
            return
        k = t[0]
        if k == 'cat':
            ctrl = t[2] if t[2] is not None else t[1]
            names = [m for m, _ in t[3]]
            if ctrl in out and out[ctrl] != names:
                raise RuntimeError(f'description error: controller {ctrl} with two menus')
            out[ctrl] = names
            for _, m in t[3]:
                walk(m)
        elif k == 'h':
            pass
        elif k == 'msum':
            for a in t[1]:
                walk(a)
        elif k == 'elem':
            for _, a in t[1]:
                walk(a)
            walk(t[2])
        elif k == 'loglogit':
            for _, a in t[1]:
                walk(a)
            for _, a in (t[2] or []):
                walk(a)
            walk(t[3])
        elif k in ('num', 'raw', 'beta', 'var'):
            pass
        else:
            for a in t[1:]:
                walk(a)

    walk(st['term'])
    for h in st['helpers']:
        out.update(helper_controllers(h))
    return dict(sorted(out.items()))


class MissingAlternative(Exception):
    pass


def substitute(t, st, choice):
    """The formula written out by hand: every catalog replaced by the member its controller selects."""
    if not isinstance(t, tuple):
        return t
    k = t[0]
    if k == 'cat':
        ctrl = t[2] if t[2] is not None else t[1]
        if st.get('menus'):
            # the alternative MATCHING the selection of the controller: the member carrying that name
            want = st['menus'][ctrl][choice[ctrl]]
            found = [mt for mn, mt in t[3] if mn == want]
            if len(found) != 1:
                raise MissingAlternative(f'catalog {t[1]!r} has {len(found)} members named {want!r}')
            return substitute(found[0], st, choice)
        return substitute(t[3][choice[ctrl]][1], st, choice)
    if k == 'h':
        return expand_helper(t, st, choice)
    if k in ('num', 'raw', 'beta', 'var'):
        return t
    if k == 'msum':
        return ('msum', [substitute(a, st, choice) for a in t[1]])
    if k == 'elem':
        return ('elem', [(key, substitute(a, st, choice)) for key, a in t[1]], substitute(t[2], st, choice))
    if k == 'loglogit':
        return ('loglogit', [(key, substitute(a, st, choice)) for key, a in t[1]],
                None if t[2] is None else [(key, substitute(a, st, choice)) for key, a in t[2]],
                substitute(t[3], st, choice))
    if k == 'pow':
        return ('pow', substitute(t[1], st, choice), t[2])
    return (k,) + tuple(substitute(a, st, choice) for a in t[1:])


def beta_names(t, acc=None):
    acc = {} if acc is None else acc
    if isinstance(t, tuple):
        if t[0] == 'beta':
            acc[t[1]] = (t[2], t[3])
        elif t[0] in ('msum',):
            for a in t[1]:
                beta_names(a, acc)
        elif t[0] == 'elem':
            for _, a in t[1]:
                beta_names(a, acc)
            beta_names(t[2], acc)
        elif t[0] == 'loglogit':
            for _, a in t[1]:
                beta_names(a, acc)
            for _, a in (t[2] or []):
                beta_names(a, acc)
            beta_names(t[3], acc)
        elif t[0] in ('num', 'raw', 'var'):
            pass
        elif t[0] == 'pow':
            beta_names(t[1], acc)
        else:
            for a in t[1:]:
                beta_names(a, acc)
    return acc


class OutOfDomain(Exception):
    pass


def ref_eval(t, row, betas):
    """Mathematical value of a catalog-free term on one row (stdlib math only)."""
    k = t[0]
    if k in ('num', 'raw'):
        return float(t[1])
    if k == 'beta':
        # a fixed parameter keeps its value even when the dictionary names it (DESIGN §6, not a violation)
        return float(t[2] if t[3] == 1 else betas.get(t[1], t[2]))
    if k == 'var':
        return float(row[t[1]])
    if k == 'neg':
        return -ref_eval(t[1], row, betas)
    if k == 'exp':
        return math.exp(ref_eval(t[1], row, betas))
    if k == 'log':
        v = ref_eval(t[1], row, betas)
        if v <= 0:
            raise OutOfDomain('log')
        return math.log(v)
    if k == 'pow':
        v = ref_eval(t[1], row, betas)
        if v <= 0:
            raise OutOfDomain('pow')
        return v ** t[2]
    if k == 'msum':
        s = 0.0
        for a in t[1]:
            s += ref_eval(a, row, betas)
        return s
    if k == 'elem':
        key = int(ref_eval(t[2], row, betas))
        for kk, a in t[1]:
            if kk == key:
                return ref_eval(a, row, betas)
        raise OutOfDomain('elem key')
    if k == 'loglogit':
        ch = int(ref_eval(t[3], row, betas))
        us = {kk: ref_eval(a, row, betas) for kk, a in t[1]}
        av = {kk: 1.0 for kk in us} if t[2] is None else {kk: ref_eval(a, row, betas) for kk, a in t[2]}
        if ch not in us or av[ch] == 0:
            raise OutOfDomain('chosen alternative unavailable')
        m = max(u for kk, u in us.items() if av[kk] != 0)
        den = sum(math.exp(u - m) for kk, u in us.items() if av[kk] != 0)
        return us[ch] - m - math.log(den)
    a = ref_eval(t[1], row, betas)
    b = ref_eval(t[2], row, betas)
    if k == '+':
        return a + b
    if k == '-':
        return a - b
    if k == '*':
        return a * b
    if k == '/':
        if b == 0:
            raise OutOfDomain('div')
        return a / b
    if k == 'min':
        return min(a, b)
    if k == 'max':
        return max(a, b)
    if k == '==':
        return 1.0 if a == b else 0.0
    if k == '!=':
        return 1.0 if a != b else 0.0
    if k == '<':
        return 1.0 if a < b else 0.0
    if k == '<=':
        return 1.0 if a <= b else 0.0
    if k == '>':
        return 1.0 if a > b else 0.0
    if k == '>=':
        return 1.0 if a >= b else 0.0
    raise RuntimeError(f'unknown term {k}')


# =========================================================================== tree operations (reference side)
# An operation is a JSON-able dict:
#   {'op': 'none'}
#   {'op': 'rename', 'names': [..], 'prefix': str|None, 'suffix': str|None, 'style': 'kw'|'pos'}
#   {'op': 'fix',    'values': {name: value}, 'prefix': .., 'suffix': .., 'style': ..}
#   {'op': 'change', 'values': {name: value}}
BASE_VARS = ('x', 'y', 'z', 'g', 'h', 'ch', 'av')


def affixes(seed):
    """(prefix, suffix) of the seed's alphabet; never empty, never producing an existing name."""
    return [('p_', '_1'), ('pre', 'suf'), ('A_', '_B'), ('q', '_')][seed % 4]


def affix_options(seed):
    p, s_ = affixes(seed)
    return [(p, None), (None, s_), (p, s_)]


def ext_columns(seed):
    """The table of the seed plus, for every variable and every (prefix, suffix) option, a column carrying the renamed
    name whose values are those of the variable rotated by 1 / 2 / 3 rows (same domain, other value in every row
    where the column is not constant)."""
    rows = dict(alphabet(seed)['rows'])
    out = dict(rows)
    for k, (p, s_) in enumerate(affix_options(seed), start=1):
        for v in BASE_VARS:
            col = rows[v]
            out[f'{p or ""}{v}{s_ or ""}'] = col[k % len(col):] + col[:k % len(col)]
    return out


def map_leaves(t, f):
    """A catalog-free term with every ('beta', ..) / ('var', ..) leaf replaced by f(leaf)."""
    if not isinstance(t, tuple):
        return t
    k = t[0]
    if k in ('beta', 'var'):
        return f(t)
    if k in ('num', 'raw'):
        return t
    if k in ('cat', 'h'):
        raise RuntimeError('map_leaves: the term still holds a catalog')
    if k == 'msum':
        return ('msum', [map_leaves(a, f) for a in t[1]])
    if k == 'elem':
        return ('elem', [(key, map_leaves(a, f)) for key, a in t[1]], map_leaves(t[2], f))
    if k == 'loglogit':
        return ('loglogit', [(key, map_leaves(a, f)) for key, a in t[1]],
                None if t[2] is None else [(key, map_leaves(a, f)) for key, a in t[2]], map_leaves(t[3], f))
    if k == 'pow':
        return ('pow', map_leaves(t[1], f), t[2])
    return (k,) + tuple(map_leaves(a, f) for a in t[1:])


def leaves_of(t):
    acc = []

    def f(leaf):
        acc.append(leaf)
        return leaf

    map_leaves(t, f)
    return acc


def ref_treeop(term, op):
    """What the operation does to a formula written out by hand: the documented effect on every elementary expression."""
    kind = op['op']
    if kind == 'none':
        return term
    pre, suf = op.get('prefix') or '', op.get('suffix') or ''
    if kind == 'rename':
        names = set(op['names'])
        return map_leaves(term, lambda t: (t[0], pre + t[1] + suf) + t[2:] if t[1] in names else t)
    vals = op['values']
    if kind == 'fix':
        return map_leaves(term, lambda t: ('beta', pre + t[1] + suf, float(vals[t[1]]), 1)
                          if t[0] == 'beta' and t[1] in vals else t)
    if kind == 'change':
        return map_leaves(term, lambda t: ('beta', t[1], float(vals[t[1]]), t[3]) if t[0] == 'beta' and t[1] in vals else t)
    raise KeyError(kind)


def ref_elementary(term):
    """Reference for the observers of the elementary expressions of a catalog-free formula."""
    lv = leaves_of(term)
    variables = sorted({t[1] for t in lv if t[0] == 'var'})
    betas = {}
    for t in lv:
        if t[0] == 'beta':
            if t[1] in betas and betas[t[1]] != (float(t[2]), t[3]):
                raise RuntimeError(f'alphabet error: parameter {t[1]} with two values / statuses in one formula')
            betas[t[1]] = (float(t[2]), t[3])
    free = sorted(b for b, (_, st_) in betas.items() if st_ == 0)
    fixed = sorted(b for b, (_, st_) in betas.items() if st_ != 0)
    sets = dict(VARIABLE=variables, BETA=sorted(betas), FREE_BETA=free, FIXED_BETA=fixed, RANDOM_VARIABLE=[], DRAWS=[])
    entry = lambda b: (b, 'Beta', b, betas[b][0], betas[b][1])
    dicts = dict(VARIABLE=[(v, 'Variable', v, None, None) for v in variables], BETA=[entry(b) for b in sorted(betas)],
                 FREE_BETA=[entry(b) for b in free], FIXED_BETA=[entry(b) for b in fixed], RANDOM_VARIABLE=[], DRAWS=[])
    return dict(sets=sets, dicts=dicts, beta_values={b: betas[b][0] for b in free}, names=set(variables) | set(betas),
                kinds={**{v: 'Variable' for v in variables}, **{b: 'Beta' for b in betas}})


def op_label(op):
    """Coarse name of an operation for finding keys."""
    if op['op'] == 'none':
        return 'observers-only'
    if op['op'] == 'change':
        return 'change_init_values'
    aff = {(False, False): 'no-affix', (True, False): 'prefix', (False, True): 'suffix', (True, True): 'prefix+suffix'}[
        (op.get('prefix') is not None, op.get('suffix') is not None)]
    return ('rename_elementary' if op['op'] == 'rename' else 'fix_betas') + ':' + aff


def treeop_alphabet(st, space, seed, tier):
    """The operations explored on one structure (resolved against the names of the structure) and the reduced alphabet
    of the histories of depth 2."""
    terms = [substitute(st['term'], st, ch) for ch in space.configs]
    lv = [leaf for tm in terms for leaf in leaves_of(tm)]
    allvars = sorted({t[1] for t in lv if t[0] == 'var'})
    allbetas = sorted({t[1] for t in lv if t[0] == 'beta'})
    # names present in every configuration come first (so that the small name lists are never vacuous)
    common_v = [v for v in allvars if all(any(t == ('var', v) for t in leaves_of(tm)) for tm in terms)] or allvars
    common_b = [b for b in allbetas if all(any(t[0] == 'beta' and t[1] == b for t in leaves_of(tm)) for tm in terms)] or allbetas
    p, s_ = affixes(seed)
    val = lambda i: round((0.35 + 0.2 * i) * (-1 if i % 2 else 1), 6)
    name_lists = [('one-variable', [common_v[0]]), ('all-variables', allvars),
                  ('parameter+variable', [common_b[0], allvars[-1]]), ('all-names', allbetas + allvars),
                  ('absent-name', ['absent'])]
    full = tier == 'thorough'
    ops = [dict(op='none')]
    for label, names in name_lists:
        if label == 'absent-name' and not full:
            ops.append(dict(op='rename', names=names, prefix=p, suffix=s_, style='kw'))
            continue
        for pre, suf in affix_options(seed):
            ops.append(dict(op='rename', names=names, prefix=pre, suffix=suf, style='kw'))
        if full or label == 'all-names':
            ops.append(dict(op='rename', names=names, prefix=p, suffix=s_, style='pos'))
            ops.append(dict(op='rename', names=names, prefix=None, suffix=None, style='kw'))
    fix_dicts = [('one', {common_b[0]: val(0)}), ('all', {b: val(i + 1) for i, b in enumerate(allbetas)}), ('absent', {'absent': val(9)})]
    for label, vals in fix_dicts:
        if label == 'absent' and not full:
            ops.append(dict(op='fix', values=vals, prefix=p, suffix=s_, style='kw'))
            continue
        for pre, suf in [(None, None)] + affix_options(seed):
            ops.append(dict(op='fix', values=vals, prefix=pre, suffix=suf, style='kw'))
        if full or label == 'all':
            ops.append(dict(op='fix', values=vals, prefix=p, suffix=s_, style='pos'))
    for vals in ({common_b[-1]: val(3)}, {b: val(i + 4) for i, b in enumerate(allbetas)}, {'absent': val(8)}):
        ops.append(dict(op='change', values=vals))
    # histories of depth 2: a reduced alphabet; the second operation is resolved against the names AFTER the first
    deep = [dict(op='rename', names=allvars, prefix=None, suffix=s_, style='kw'),
            dict(op='rename', names=[common_b[0], common_v[0]], prefix=p, suffix=None, style='kw'),
            dict(op='rename', names='*', prefix=p, suffix=s_, style='kw'),
            dict(op='fix', values={common_b[0]: val(0)}, prefix=None, suffix=s_, style='kw'),
            dict(op='fix', values='*', prefix=p, suffix=None, style='kw'),
            dict(op='change', values='*')]
    return ops, deep


def resolve_op(op, terms_now):
    """'*' = every name (parameter) of the formulas as they are NOW, in every configuration."""
    lv = [leaf for tm in terms_now for leaf in leaves_of(tm)]
    if op.get('names') == '*':
        return dict(op, names=sorted({t[1] for t in lv}))
    if op.get('values') == '*':
        bs = sorted({t[1] for t in lv if t[0] == 'beta'})
        return dict(op, values={b: round(0.45 + 0.15 * i, 6) * (-1 if i % 3 == 1 else 1) for i, b in enumerate(bs)})
    return op


# =========================================================================== the structures
def structures(seed, shape=None):
    """The structures of a seed; with a shape (NAME_SHAPES) the same structures, named '<name>~<shape>', whose controller /
    catalog / member / generic names are rewritten by shaped_names."""
    al = alphabet(seed)
    n = shaped_names(al['names'], shape, al['k'])
    m = n['m']
    tail = '' if shape is None else f'~{shape}'
    b1, b2, b3, bf = B(al, 'b1'), B(al, 'b2'), B(al, 'b3'), B(al, 'bf', 1)
    x, y, z = V('x'), V('y'), V('z')
    segs = [dict(var='g', map=[(1, 'low'), (2, 'high')], ref=None, as_variable=False),
            dict(var='h', map=[(0, 'h0'), (1, 'h1'), (2, 'h2')], ref='h1', as_variable=True)]
    S = []

    def add(name, term, helpers=(), big=False):
        S.append(dict(name=name + tail, term=term, helpers=list(helpers), big=big, seed=seed, shape=shape, base=name))

    c1 = ('cat', n['c1'], None, [(m[0], x), (m[1], ('log', x))])
    c2 = ('cat', n['c2'], None, [(m[0], y), (m[2], ('*', y, y)), (m[3], ('exp', ('neg', y)))])
    # 1. two independent catalogs, 2 x 3
    add('indep23', ('+', ('*', b1, c1), ('*', b2, c2)))
    # 2. two catalogs synchronised by one controller (3) + an independent one (2); the same catalog object twice
    k1 = ('cat', n['c1'], n['K'], [(m[0], x), (m[1], ('*', b3, x)), (m[2], ('raw', 0))])
    k2 = ('cat', n['c2'], n['K'], [(m[0], ('exp', y)), (m[1], ('/', y, z)), (m[2], ('pow', y, 2))])
    c3 = ('cat', n['c3'], None, [(m[3], z), (m[0], ('-', z, bf))])
    add('sync3x2', ('-', ('+', ('*', b1, k1), ('*', k2, b2)), ('*', c3, ('max', k1, ('num', 0.5)))))
    # 3. a catalog nested in a member of another
    inner = ('cat', n['c2'], None, [(m[0], ('*', x, x)), (m[1], ('/', ('exp', x), z))])
    outer = ('cat', n['c1'], None, [(m[2], ('*', b1, x)), (m[3], ('*', b1, inner))])
    add('nested2x2', ('+', outer, ('*', b2, y)))
    # 4. nested, the inner catalog shares its controller with a catalog outside (3 x 2)
    inner_k = ('cat', n['c2'], n['K'], [(m[0], x), (m[1], ('log', x)), (m[2], ('*', x, z))])
    outside_k = ('cat', n['c3'], n['K'], [(m[0], y), (m[1], ('neg', y)), (m[2], ('raw', 1.5))])
    outer2 = ('cat', n['c1'], None, [(m[0], ('*', b3, inner_k)), (m[1], ('+', inner_k, bf))])
    add('nested_shared3x2', ('msum', [outer2, ('*', b2, outside_k), ('*', b1, z)]))
    # 5. three controllers 2 x 2 x 3, catalogs under Elem, comparison, bioMin and a unary operator
    d1 = ('cat', n['c1'], None, [(m[0], x), (m[1], z)])
    d2 = ('cat', n['c2'], None, [(m[0], ('*', b2, y)), (m[1], ('*', b2, ('log', y)))])
    d3 = ('cat', n['c3'], None, [(m[0], N(1)), (m[1], ('>', y, d1)), (m[2], ('elem', [(0, z), (1, bf)], ('>=', x, N(1.5))))])
    add('three2x2x3', ('+', ('exp', ('neg', ('*', b1, d1))), ('*', d3, ('min', d2, ('elem', [(1, d1), (2, b3)], V('g'))))), big=True)
    # 6./7. segmentation_catalogs, 2 potential segmentations, maximum_number 1 and 2, on 2 parameters
    for mx in (1, 2):
        hs = [dict(kind='seg', generic=n['G'], betas=[b1, bf], segs=segs, max=mx)]
        add(f'segmentation_max{mx}', ('+', ('*', ('h', 0, 0), x), ('*', ('h', 0, 1), y)), hs)
    # 8. generic / alternative specific, 2 parameters x 2 alternatives, no segmentation; two generic names (2 x 2)
    hs = [dict(kind='gas', generic=n['GA'], betas=[b1], alts=['A', 'B'], segs=[], max=5),
          dict(kind='gas', generic=n['GB'], betas=[b2], alts=['A', 'B'], segs=[], max=5)]
    add('gas_2x2', ('loglogit', [(1, ('+', ('*', ('h', 0, 0, 'A'), x), ('*', ('h', 1, 0, 'A'), y))),
                                 (2, ('+', ('*', ('h', 0, 0, 'B'), z), ('*', ('h', 1, 0, 'B'), x)))], None, V('ch')), hs)
    # 9. one call for two parameters: one controller
    hs = [dict(kind='gas', generic=n['GA'], betas=[b1, b2], alts=['A', 'B'], segs=[], max=5)]
    add('gas_one_controller', ('-', ('+', ('*', ('h', 0, 0, 'A'), x), ('*', ('h', 0, 1, 'A'), y)),
                               ('+', ('*', ('h', 0, 0, 'B'), z), ('*', ('h', 0, 1, 'B'), x))), hs)
    # 10./11. generic / alternative specific with potential segmentations (2 x 3 and 2 x 4)
    for mx in (1, 2):
        hs = [dict(kind='gas', generic=n['GA'], betas=[b1, bf], alts=['A', 'B'], segs=segs, max=mx)]
        add(f'gas_segmented_max{mx}', ('-', ('+', ('*', ('h', 0, 0, 'A'), x), ('*', ('h', 0, 1, 'A'), y)),
                                       ('+', ('*', ('h', 0, 0, 'B'), z), ('*', ('h', 0, 1, 'B'), x))), hs, big=(mx == 2))
    # 12. the formula IS a catalog (model catalog), containing another catalog: 2 x 2
    e1 = ('cat', n['c2'], None, [(m[0], x), (m[1], ('log', x))])
    add('top_level2x2', ('cat', n['c1'], None, [
        (m[0], ('loglogit', [(1, ('*', b1, e1)), (2, ('*', b2, y))], None, V('ch'))),
        (m[1], ('loglogit', [(1, ('*', b1, e1)), (2, ('+', b3, ('*', b2, y)))], [(1, V('av')), (2, N(1))], N(2)))]))
    # 13. catalogs in the utilities and availabilities of a logit, the same catalog object in two places: 2 x 2
    u1 = ('cat', n['c1'], None, [(m[0], ('*', b1, x)), (m[1], ('*', b1, ('log', x)))])
    a1 = ('cat', n['c3'], None, [(m[0], N(1)), (m[1], V('av'))])
    add('logit_avail2x2', ('loglogit', [(1, u1), (2, ('*', b2, y)), (3, ('+', u1, bf))], [(1, N(1)), (2, N(1)), (3, a1)], V('ch')))
    # 14. a controller with a single selection (1 x 3): arithmetic modulo 1
    s1 = ('cat', n['c3'], None, [(m[1], ('*', b3, z))])
    add('single1x3', ('-', ('*', b2, c2), s1))
    # 15. three levels of nesting (2 x 2 x 2)
    l3 = ('cat', n['c3'], None, [(m[0], x), (m[1], ('exp', ('neg', x)))])
    l2 = ('cat', n['c2'], None, [(m[2], ('*', b2, l3)), (m[0], ('*', b2, y))])
    l1 = ('cat', n['c1'], None, [(m[1], ('+', l2, b1)), (m[3], ('*', z, b3))])
    add('nested3levels', ('/', l1, ('num', 2.0)), big=True)
    # 16. outer and inner catalog governed by the same controller, plus an independent catalog (2 x 2)
    in_k = ('cat', n['c2'], n['K'], [(m[0], x), (m[1], ('log', x))])
    out_k = ('cat', n['c1'], n['K'], [(m[0], ('*', b1, in_k)), (m[1], ('-', in_k, b1))])
    add('nested_same_controller', ('+', out_k, ('*', c3, b2)))
    # 17. a catalog attached to the controller ANOTHER CATALOG made for itself (Catalog(..., controlled_by=first.controlled_by)),
    #     plus an independent catalog (2 x 2)
    o1 = ('cat', n['c1'], None, [(m[0], x), (m[1], ('log', x))])
    o2 = ('cat', n['c2'], n['c1'], [(m[0], ('*', b2, y)), (m[1], ('/', y, z))])
    add('attached_to_catalog_controller', ('-', ('+', ('*', b1, o1), o2), ('*', c3, b3)))
    return S


def thorough_only(seed, shape=None):
    """The largest structure (thorough tier only): three controllers 3 x 4 x 2 = 24 configurations."""
    al = alphabet(seed)
    n = shaped_names(al['names'], shape, al['k'])
    m = n['m']
    b1, b2, b3, bf = B(al, 'b1'), B(al, 'b2'), B(al, 'b3'), B(al, 'bf', 1)
    x, y, z = V('x'), V('y'), V('z')
    t1 = ('cat', n['c1'], None, [(m[0], x), (m[1], ('log', x)), (m[2], ('pow', x, 2))])
    t2 = ('cat', n['c2'], None, [(m[3], y), (m[2], ('*', y, z)), (m[1], ('exp', ('neg', y))), (m[0], ('/', y, x))])
    t3 = ('cat', n['c3'], None, [(m[0], ('*', b3, z)), (m[3], ('-', bf, z))])
    return dict(name='three3x4x2' + ('' if shape is None else f'~{shape}'), term=('msum', [('*', b1, t1), ('*', b2, t2), t3, ('*', t1, t3)]),
                helpers=[], big=True, seed=seed, shape=shape, base='three3x4x2')


def get_structure(seed, name):
    shape = name.split('~', 1)[1] if '~' in name else None
    if name.split('~', 1)[0] == 'three3x4x2':
        return thorough_only(seed, shape)
    for st in structures(seed, shape):
        if st['name'] == name:
            return st
    raise KeyError(name)


# =========================================================================== reference model of the space
class RefSpace:
    def __init__(self, st):
        self.ctrl = controllers_of(st)            # sorted by controller name
        self.names = list(self.ctrl)
        self.sizes = [len(self.ctrl[c]) for c in self.names]
        self.configs = [dict(zip(self.names, idx)) for idx in itertools.product(*[range(s) for s in self.sizes])]

    def cid(self, choice):
        return SEP.join(f'{c}{SELSEP}{self.ctrl[c][choice[c]]}' for c in sorted(choice))

    def size(self):
        p = 1
        for s in self.sizes:
            p *= s
        return p

    def all_ids(self):
        return [self.cid(c) for c in self.configs]

    def parse(self, cid):
        out = {}
        for term in cid.split(SEP):
            c, s = term.split(SELSEP)
            out[c] = self.ctrl[c].index(s)
        return out

    # operators ----------------------------------------------------------------------------
    def operator_names(self):
        ops = []
        for c in self.names:
            ops += [f'Increase {c}', f'Decrease {c}']
        for a in self.names:
            for b in self.names:
                if a != b:
                    for d in ('NE', 'NW', 'SE', 'SW'):
                        ops.append(f'Pair_{a}_{b}_{d}')
        ops += ['Increase_several', 'Decrease_several']
        return ops

    def op_desc(self, name):
        if name.startswith('Increase ') and name[9:] in self.ctrl:
            return ('inc', name[9:])
        if name.startswith('Decrease ') and name[9:] in self.ctrl:
            return ('dec', name[9:])
        if name in ('Increase_several', 'Decrease_several'):
            return ('several', name == 'Increase_several')
        for a in self.names:
            for b in self.names:
                for d in ('NE', 'NW', 'SE', 'SW'):
                    if name == f'Pair_{a}_{b}_{d}' and a != b:
                        return ('pair', a, b, d)
        raise KeyError(name)

    def move(self, choice, c, k):
        out = dict(choice)
        out[c] = (choice[c] + k) % len(self.ctrl[c])
        return out

    def apply(self, choice, desc, step, answer=()):
        """Returns the list of acceptable results (one, except for 'Decrease_several', DESIGN §6)."""
        if desc[0] == 'inc':
            return [self.move(choice, desc[1], step)]
        if desc[0] == 'dec':
            return [self.move(choice, desc[1], -step)]
        if desc[0] == 'pair':
            _, a, b, d = desc
            out = self.move(choice, a, step if d[1] == 'E' else -step)
            return [self.move(out, b, step if d[0] == 'N' else -step)]
        up, down = dict(choice), dict(choice)
        for c in answer:
            up = self.move(up, c, 1)
            down = self.move(down, c, -1)
        return [up] if desc[1] else [up, down]

    def reach(self, start, depth, steps):
        """Configurations reached by all histories of exactly 1..depth operator applications:
        (lower bound without Decrease_several, upper bound with both readings of Decrease_several)."""
        descs = [self.op_desc(o) for o in self.operator_names()]

        def level(front, both):
            out = set()
            for cid in front:
                choice = self.parse(cid)
                for d in descs:
                    for step in steps:
                        if d[0] == 'several':
                            if not d[1] and not both:
                                continue
                            k = max(0, min(step, len(self.names)))
                            for ans in itertools.product(self.names, repeat=k):
                                for c in self.apply(choice, d, step, ans):
                                    out.add(self.cid(c))
                        else:
                            out.add(self.cid(self.apply(choice, d, step)[0]))
            return out

        res = []
        for both in (False, True):
            front, seen = {self.cid(start)}, set()
            for _ in range(depth):
                front = level(front, both)
                seen |= front
            res.append(seen)
        return res[0], res[1]

    def steps_for(self, desc):
        if desc[0] in ('inc', 'dec'):
            s = len(self.ctrl[desc[1]])
            return sorted({0, 1, 2, 3, s, s + 1, 7})
        if desc[0] == 'pair':
            s1, s2 = len(self.ctrl[desc[1]]), len(self.ctrl[desc[2]])
            return sorted({0, 1, 2, 3, s1, s1 + 1, s2, s2 + 1, 7})
        nc = len(self.names)
        return sorted({0, 1, 2, 3, nc, nc + 1})


# =========================================================================== the random seam
class Unowned(RuntimeError):
    pass


class Chooser:
    """Choice-point enumerator: a run consumes a script of answers and logs (answer, number of options)."""

    def __init__(self, script=()):
        self.script = list(script)
        self.trace = []

    def choose(self, n):
        if n <= 0:
            raise IndexError('choice from an empty population')
        i = len(self.trace)
        v = self.script[i] if i < len(self.script) else 0
        self.trace.append((v, n))
        return v

    def next_script(self):
        t = list(self.trace)
        while t and t[-1][0] + 1 >= t[-1][1]:
            t.pop()
        if not t:
            return None
        return [v for v, _ in t[:-1]] + [t[-1][0] + 1]


class FakeRandom:
    """Stands in for the module `random` inside biogeme.controller."""

    def __init__(self):
        self.ch = None
        self.picked = []

    def _c(self, n):
        if self.ch is None:
            raise Unowned('random used outside an enumerated operator application')
        return self.ch.choose(n)

    def choices(self, population, weights=None, *, cum_weights=None, k=1):
        pop = list(population)
        out = [pop[self._c(len(pop))] for _ in range(max(0, k))]
        self.picked += out
        return out

    def sample(self, population, k, *, counts=None):
        pop = list(population)
        if k > len(pop) or k < 0:
            raise ValueError('Sample larger than population or is negative')
        out = [pop.pop(self._c(len(pop))) for _ in range(k)]
        self.picked += out
        return out

    def choice(self, seq):
        seq = list(seq)
        out = seq[self._c(len(seq))]
        self.picked.append(out)
        return out

    def randint(self, a, b):
        return a + self._c(b - a + 1)

    def randrange(self, a, b=None):
        if b is None:
            a, b = 0, a
        return a + self._c(b - a)

    def shuffle(self, x):
        pool = list(x)
        for i in range(len(x)):
            x[i] = pool.pop(self._c(len(pool)))

    def __getattr__(self, name):
        raise Unowned(f'random.{name} is not owned by the C16 seam')


_FAKE = FakeRandom()


def patch_random():
    import biogeme.controller as ctl
    ctl.random = _FAKE


def unpatch_random():
    import random as real
    import biogeme.controller as ctl
    ctl.random = real


class Raised:
    """An operator application that raised inside the library (a result, not a harness error)."""

    def __init__(self, exc):
        self.exc = exc
        self.text = f'{type(exc).__name__}: {exc}'


def library_raised(exc):
    """True when the innermost frame of the traceback is library code (not this driver, not the kernel)."""
    tb = exc.__traceback__
    last = None
    while tb is not None:
        last = tb.tb_frame.f_code.co_filename
        tb = tb.tb_next
    if isinstance(exc, Unowned) or last is None:
        return False
    return '/biogeme/' in last.replace(os.sep, '/') and '/verif/' not in last


def where_raised(exc):
    tb = exc.__traceback__
    name = '?'
    while tb is not None:
        fn = tb.tb_frame.f_code.co_filename.replace(os.sep, '/')
        if '/biogeme/' in fn:
            name = f'{os.path.basename(fn)}:{tb.tb_frame.f_code.co_name}'
        tb = tb.tb_next
    return name


def all_answers(run):
    """Runs `run()` once per possible answer tape of the random seam; yields (picked names, tape, result).
    A run that raises inside the library yields a `Raised` result."""
    script = []
    n = 0
    while script is not None:
        _FAKE.ch = Chooser(script)
        _FAKE.picked = []
        try:
            res = run()
        except Exception as e:
            if not library_raised(e):
                raise
            res = Raised(e)
        finally:
            ch, _FAKE.ch = _FAKE.ch, None
        yield list(_FAKE.picked), tuple(v for v, _ in ch.trace), res
        script = ch.next_script()
        n += 1
        if n > 5000:
            raise RuntimeError('answer space of the random seam larger than 5000')


# =========================================================================== real side: building
class Built:
    """A structure built on the real library: expression (with catalogs or written out by hand)."""

    def __init__(self, st, choice=None):
        import biogeme.expressions as ex
        from biogeme.catalog import Catalog, segmentation_catalogs, generic_alt_specific_catalogs
        from biogeme.expressions import NamedExpression
        from biogeme.controller import Controller
        from biogeme.segmentation import DiscreteSegmentationTuple

        self.st = st
        self.ex = ex
        self.leaves = {}
        self.catalogs = {}      # catalog name -> (Catalog object, controller name)
        self.controllers = {}   # explicit Controller objects by name
        self.helper_objs = []
        self._Catalog, self._Named, self._Controller = Catalog, NamedExpression, Controller
        # how the specification names of explicitly declared controllers are handed over (None: a list, and only the
        # controllers the description names are declared explicitly); explicit: every hand-written catalog is governed
        # by an explicitly declared Controller named like the catalog (the same space for the reference model)
        self.names_as = st.get('names_as')
        self.explicit = bool(st.get('explicit'))
        # part 'treeops': 'fresh' = every occurrence of a parameter / variable is its own object (as when the members
        # are written independently of each other); default: one object per name, shared by all members
        self.fresh = st.get('leaves') == 'fresh'
        # part 'orders': the menus of the controllers (the altered catalogs list other members), the constructor used
        self.menus = st.get('menus') or {}
        self.ctor = st.get('ctor')
        # part 'numbers': the plain numbers of the formula WITH catalogs (members that are numbers, keys of the mappings
        # of the potential segmentations) are handed over as numbers of numpy; the hand-written formula keeps Python's
        self.numbers = st.get('numbers') if choice is None else None
        self._npi = alphabet(st['seed'])['k']
        if choice is None:
            for h in st['helpers']:
                betas = [self.build(b) for b in h['betas']]
                pot = tuple(
                    DiscreteSegmentationTuple(ex.Variable(s['var']) if s['as_variable'] else s['var'],
                                              {self.number(val): cat for val, cat in s['map']}, reference=s['ref'])
                    for s in h['segs'])
                if h['kind'] == 'seg':
                    cats = segmentation_catalogs(generic_name=h['generic'], beta_parameters=betas,
                                                 potential_segmentations=pot, maximum_number=h['max'])
                    self.helper_objs.append(cats)
                    for c in cats:
                        self.catalogs[c.name] = (c, c.controlled_by.controller_name)
                else:
                    res = generic_alt_specific_catalogs(generic_name=h['generic'], beta_parameters=betas,
                                                        alternatives=tuple(h['alts']),
                                                        potential_segmentations=pot if pot else None,
                                                        maximum_number=h['max'])
                    self.helper_objs.append(res)
                    for d in res:
                        for c in d.values():
                            self.catalogs[c.name] = (c, c.controlled_by.controller_name)
                            for _, e in c.named_expressions:
                                if isinstance(e, Catalog):
                                    self.catalogs[e.name] = (e, e.controlled_by.controller_name)
            self.expr = self.build(st['term'])
        else:
            self.expr = self.build(substitute(st['term'], st, choice))

    def number(self, v):
        """A plain number of the description as the kind of number the variant asks for (same value)."""
        if self.numbers is None:
            return v
        import numpy as np
        if self.numbers != 'numpy':
            raise KeyError(self.numbers)
        kinds = NUMPY_INTS if isinstance(v, int) else NUMPY_FLOATS
        self._npi += 1
        out = getattr(np, kinds[self._npi % len(kinds)])(v)
        if float(out) != float(v) or not isinstance(out, np.generic):
            raise RuntimeError(f'alphabet error: {v!r} is not representable as {type(out).__name__}')
        return out

    def build(self, t):
        ex = self.ex
        k = t[0]
        if k == 'num':
            return ex.Numeric(t[1])
        if k == 'raw':
            return self.number(t[1])
        if k == 'beta':
            if self.fresh:
                return ex.Beta(t[1], t[2], None, None, t[3])
            key = ('beta', t[1])
            if key not in self.leaves:
                self.leaves[key] = ex.Beta(t[1], t[2], None, None, t[3])
            return self.leaves[key]
        if k == 'var':
            if self.fresh:
                return ex.Variable(t[1])
            key = ('var', t[1])
            if key not in self.leaves:
                self.leaves[key] = ex.Variable(t[1])
            return self.leaves[key]
        if k == 'cat':
            if t[1] in self.catalogs:
                return self.catalogs[t[1]][0]
            members = [self._Named(name=mn, expression=self.build(mt)) for mn, mt in t[3]]
            ctrl = None
            cname = t[2] if t[2] is not None else (t[1] if self.explicit else None)
            if cname is not None:
                if cname not in self.controllers and cname in self.catalogs and not self.explicit:
                    # the controller a catalog built before made for itself (catalog_b = Catalog(..., controlled_by=
                    # catalog_a.controlled_by))
                    self.controllers[cname] = self.catalogs[cname][0].controlled_by
                if cname not in self.controllers:
                    kind = container_kind(self.names_as or 'list', len(self.controllers))
                    menu = self.menus.get(cname) or [mn for mn, _ in t[3]]
                    self.controllers[cname] = self._Controller(cname, as_container(kind, menu))
                ctrl = self.controllers[cname]
            if self.ctor == 'dict':
                c = self._Catalog.from_dict(t[1], {mn.name: mn.expression for mn in members}, controlled_by=ctrl)
            elif self.ctor == 'list':
                c = self._Catalog(t[1], members, controlled_by=ctrl)
            elif ctrl is None and len(self.catalogs) % 2 == 1:
                c = self._Catalog.from_dict(t[1], {mn.name: mn.expression for mn in members})
            elif ctrl is not None and self.explicit and len(self.catalogs) % 2 == 1:
                c = self._Catalog.from_dict(t[1], {mn.name: mn.expression for mn in members}, controlled_by=ctrl)
            else:
                c = self._Catalog(t[1], members, controlled_by=ctrl)
            self.catalogs[t[1]] = (c, t[2] if t[2] is not None else t[1])
            return c
        if k == 'h':
            obj = self.helper_objs[t[1]]
            h = self.st['helpers'][t[1]]
            return obj[t[2]] if h['kind'] == 'seg' else obj[t[2]][t[3]]
        if k == 'neg':
            return -self.build(t[1])
        if k == 'exp':
            return ex.exp(self.build(t[1]))
        if k == 'log':
            return ex.log(self.build(t[1]))
        if k == 'pow':
            return self.build(t[1]) ** t[2]
        if k == 'msum':
            return ex.bioMultSum([self.build(a) for a in t[1]])
        if k == 'elem':
            return ex.Elem({key: self.build(a) for key, a in t[1]}, self.build(t[2]))
        if k == 'loglogit':
            from biogeme import models
            util = {key: self.build(a) for key, a in t[1]}
            av = None if t[2] is None else {key: self.build(a) for key, a in t[2]}
            return models.loglogit(util, av, self.build(t[3]))
        a, b = self.build(t[1]), self.build(t[2])
        if k == '+':
            return a + b
        if k == '-':
            return a - b
        if k == '*':
            return a * b
        if k == '/':
            return a / b
        if k == 'min':
            return ex.bioMin(a, b)
        if k == 'max':
            return ex.bioMax(a, b)
        if k == '==':
            return a == b
        if k == '!=':
            return a != b
        if k == '<':
            return a < b
        if k == '<=':
            return a <= b
        if k == '>':
            return a > b
        if k == '>=':
            return a >= b
        raise RuntimeError(f'unknown term {k}')


_DB = {}


def database(seed, ext=False):
    if (seed % 4, ext) not in _DB:
        import pandas as pd
        import biogeme.database as db
        rows = ext_columns(seed) if ext else alphabet(seed)['rows']
        # column order differs from alphabetical order and from order of use; one unused column
        cols = ['z', 'unused', 'x', 'ch', 'y', 'h', 'g', 'av'] + sorted(c for c in rows if c not in alphabet(seed)['rows'])
        data = dict(rows, unused=[7.0, 8.0, 9.0, 10.0])
        _DB[(seed % 4, ext)] = db.Database(f't16_{seed % 4}{"_ext" if ext else ""}', pd.DataFrame({c: data[c] for c in cols}))
    return _DB[(seed % 4, ext)]


def table_rows(seed, ext=False):
    rows = ext_columns(seed) if ext else alphabet(seed)['rows']
    n = len(rows['x'])
    return [{c: rows[c][i] for c in rows} for i in range(n)]


def point(names, which):
    """Parameter point: None = initial values; 1 = a dictionary naming every parameter (fixed ones too)
    with well separated values."""
    if which == 0:
        return None
    return {nm: (0.3 + 0.17 * i) * (-1 if i % 3 == 2 else 1) for i, nm in enumerate(sorted(names))}


# --------------------------------------------------------------------------- observing the real expression
_SIG_HEAD = re.compile(rb'^<([^>]+)>\{(\d+)\}(.*)$', re.S)


def sig_tree(sig):
    """Decodes a signature (list of bytes) into a nested tuple: object ids are resolved, so the result
    depends only on the structure, names, numbering of elementary expressions and values."""
    defs = {}
    root = None
    for line in sig:
        mt = _SIG_HEAD.match(line)
        if not mt:
            raise RuntimeError(f'cannot decode signature line {line!r}')
        cls, oid, rest = mt.group(1).decode(), mt.group(2).decode(), mt.group(3).decode()
        defs[oid] = (cls, rest.split(','))
        root = oid
    memo = {}

    def norm(oid):
        if oid not in memo:
            cls, toks = defs[oid]
            memo[oid] = (cls,) + tuple(norm(tk) if tk in defs else tk for tk in toks)
        return memo[oid]

    return norm(root)


def strip_catalog_tags(text, tags):
    for tg in tags:
        text = text.replace(tg, '')
    return text


def observe(expr, db, names, with_sig=True, points=(0, 1)):
    """Everything the engine sees of the currently selected formula."""
    out = {}
    for which in points:
        vals = expr.get_value_c(database=db, betas=point(names, which), prepare_ids=True)
        out[f'v{which}'] = [float(v) for v in vals]
    if with_sig:
        expr.prepare(db, 0)
        try:
            out['sig'] = sig_tree(expr.get_signature())
        finally:
            expr.set_id_manager(None)
    return out


def close(a, b, rel=1e-10, ab=1e-12):
    return abs(a - b) <= ab + rel * max(abs(a), abs(b))


class Hand:
    """Per structure: for every configuration the formula written out by hand, observed once."""

    def __init__(self, st, space, seed):
        self.st, self.space, self.seed = st, space, seed
        self.db = database(seed, ext=bool(st.get('ext_db')))
        self.cache = {}

    def get(self, cid):
        if cid not in self.cache:
            choice = self.space.parse(cid)
            term = substitute(self.st['term'], self.st, choice)
            names = beta_names(term)
            built = Built(self.st, choice)
            obs = observe(built.expr, self.db, names)
            obs['str'] = str(built.expr)
            obs['names'] = names
            ref = {}
            for which in (0, 1):
                p = point(names, which) or {}
                try:
                    ref[which] = [ref_eval(term, row, p) for row in table_rows(self.seed)]
                except OutOfDomain as e:
                    raise RuntimeError(f'alphabet error: {self.st["name"]} {cid} out of domain: {e}')
            obs['ref'] = ref
            self.cache[cid] = obs
        return self.cache[cid]


class Real:
    """The structure with catalogs on the real library + the checks of one reached state."""

    def __init__(self, st, space, seed):
        self.st, self.space, self.seed = st, space, seed
        self.b = Built(st)
        self.expr = self.b.expr
        self.db = database(seed, ext=bool(st.get('ext_db')))
        self.tags = None

    def catalog_tags(self):
        if self.tags is None:
            tags = set()
            for cname, (cat, _) in self.b.catalogs.items():
                for ne in cat.named_expressions:
                    tags.add(f'[{cname}: {ne.name}]')
            self.tags = sorted(tags, key=lambda s: (-len(s), s))
        return self.tags

    def cheap_state(self):
        """(current configuration id, selected member of every catalog, controller view)."""
        cur = self.expr.current_configuration().get_string_id()
        sel = tuple(sorted((cn, cat.selected_name(), cat.selected().name, cat.controlled_by.current_name())
                           for cn, (cat, _) in self.b.catalogs.items()))
        return cur, sel

    def check_state(self, cid, hand, rec, vio, level):
        """The real object must be in configuration cid.  level 0: selections; 1: + str; 2: + engine + signature.
        Returns a canonical form of the observed state."""
        choice = self.space.parse(cid)
        cur, sel = self.cheap_state()
        if cur != cid:
            vio('current-configuration-differs', f'current_configuration() = {cur!r}, expected {cid!r}', cid, cur)
        for cn, shown, shown2, ctrl_name in sel:
            cat, ctrl = self.b.catalogs[cn]
            want = self.space.ctrl[ctrl][choice[ctrl]]
            if not (shown == shown2 == ctrl_name == want):
                vio('catalog-not-on-the-member-of-its-controller',
                    f'catalog {cn!r} (controller {ctrl!r}) shows {shown!r}/{shown2!r}, controller says {ctrl_name!r}, '
                    f'configuration {cid!r} says {want!r}', want, shown)
            if self.st.get('menus'):
                # part 'orders': the matching alternative is the member carrying the name the controller selects
                named = [ne for ne in cat.named_expressions if ne.name == want]
                if len(named) != 1 or cat.selected().expression is not named[0].expression:
                    vio('catalog-not-on-the-member-of-its-controller',
                        f'catalog {cn!r}: selected() is not its member named {want!r}', want, cat.selected().name)
            elif cat.selected().expression is not cat.named_expressions[choice[ctrl]].expression:
                vio('catalog-not-on-the-member-of-its-controller',
                    f'catalog {cn!r}: selected() is not member #{choice[ctrl]}', choice[ctrl], None)
        canon = [cur, sel]
        if level >= 1:
            h = hand.get(cid)
            s = strip_catalog_tags(str(self.expr), self.catalog_tags())
            canon.append(s)
            if s != h['str']:
                vio('formula-text-differs-from-hand-written', f'in {cid!r}: str = {s!r}, hand-written {h["str"]!r}',
                    h['str'], s)
        if level >= 2:
            h = hand.get(cid)
            try:
                obs = observe(self.expr, self.db, h['names'])
            except Exception as e:  # the hand-written formula evaluates (hand.get succeeded); the catalog one must too
                if isinstance(e, RuntimeError):
                    rec.retire = True  # engine exceptions are sticky (DESIGN 3.1)
                vio('selected-formula-cannot-be-evaluated',
                    f'in {cid!r}: get_value_c(database, prepare_ids=True) raised {type(e).__name__}: {e}; the formula written '
                    f'out by hand evaluates to {h["v0"]}', h['v0'], f'{type(e).__name__}: {e}', witness=type(e).__name__)
                canon.append(type(e).__name__)
                return repr(canon)
            canon.append(obs['v0'])
            for which in (0, 1):
                got, want, ref = obs[f'v{which}'], h[f'v{which}'], h['ref'][which]
                if len(got) != len(want) or any(not close(a, b) for a, b in zip(got, want)):
                    vio('value-differs-from-hand-written',
                        f'in {cid!r} (parameter point {which}): engine values {got}, hand-written formula {want}', want, got)
                elif any(not close(a, b) for a, b in zip(got, ref)):
                    vio('value-differs-from-mathematical-value',
                        f'in {cid!r} (parameter point {which}): engine values {got}, stdlib-math values {ref}', ref, got)
                elif got != want:
                    rec.count('values_close_but_not_bit_identical')
            if obs['sig'] != h['sig']:
                vio('signature-differs-from-hand-written', f'in {cid!r}: {obs["sig"]!r} vs hand-written {h["sig"]!r}',
                    repr(h['sig']), repr(obs['sig']))
        return repr(canon)


# =========================================================================== tasks
PARTS = ('static', 'ops', 'hidden', 'chains', 'confobj', 'orders', 'treeops', 'intkinds', 'refused')
TREEOPS_PER_TASK = 2
TREE_MODES = ('shared', 'fresh', 'copy')     # how the elementary objects of the formula with catalogs are held
# clauses about the state of the real object in a configuration (however it was reached)
STATE_CLAUSES = {'value-differs-from-hand-written', 'signature-differs-from-hand-written',
                 'formula-text-differs-from-hand-written', 'catalog-not-on-the-member-of-its-controller',
                 'current-configuration-differs', 'value-differs-from-mathematical-value'}


def tasks(tier, seed):
    t = []
    sts = structures(seed)
    if tier == 'thorough':
        sts = sts + [thorough_only(seed)]
    for st in sts:
        t.append(dict(part='static', st=st['name'], seed=seed, tier=tier))
    for st in sts:
        sp = RefSpace(st)
        ids = sp.all_ids()
        per = 1 if len(sp.names) >= 3 else 2
        for i in range(0, len(ids), per):
            t.append(dict(part='ops', st=st['name'], seed=seed, tier=tier, starts=ids[i:i + per]))
    for st in sts:
        t.append(dict(part='hidden', st=st['name'], seed=seed, tier=tier))
    # every operator history: depth 2 with steps {1, 2}; thorough adds depth 3 (steps {1, 2} for <= 2 controllers,
    # step 1 for 3 controllers) and depth 4 with step 1 for <= 2 controllers
    for st in sts:
        sp = RefSpace(st)
        for cid in sp.all_ids():
            plans = [(2, [1, 2])]
            if tier == 'thorough':
                plans = [(2, [1, 2]), (3, [1])] if len(sp.names) >= 3 else [(3, [1, 2]), (4, [1])]
            for depth, steps in plans:
                t.append(dict(part='chains', st=st['name'], seed=seed, tier=tier, start=cid, depth=depth, steps=steps))
    # histories on one Configuration object: depth 1 over the full alphabet (one task per way of obtaining the object);
    # depth 2 (thorough: and 3 for products of at most 6 configurations) with the reduced alphabet CONF_DEEP_STARTS x
    # {first, last} listing order
    for st in sts:
        for kind in CONF_STARTS:
            t.append(dict(part='confobj', st=st['name'], seed=seed, tier=tier, kinds=[kind], depth=1))
    for st in sts:
        t.append(dict(part='confobj', st=st['name'], seed=seed, tier=tier, kinds=list(CONF_DEEP_STARTS), depth=2))
        if tier == 'thorough' and RefSpace(st).size() <= 6:
            t.append(dict(part='confobj', st=st['name'], seed=seed, tier=tier, kinds=list(CONF_DEEP_STARTS), depth=3))
    # 'containers': explicitly declared controllers, their names handed over in every kind of iterable
    t += container_tasks(tier, seed, sts)
    # 'orders': catalogs handed to an existing controller with their members in every other order (refused, or like the
    # hand-written formula)
    for st in sts:
        if not has_handwritten_catalog(st):
            continue
        if any(ctrl is not None for ctrl, _ in cat_nodes(st).values()):
            t.append(dict(part='orders', st=st['name'], seed=seed, tier=tier, explicit=False))
        t.append(dict(part='orders', st=st['name'], seed=seed, tier=tier, explicit=True))
    # 'treeops': tree operations on the formula in every configuration against the hand-written formula
    for st in sts:
        ids = RefSpace(st).all_ids()
        per = TREEOPS_PER_TASK
        for i in range(0, len(ids), per):
            t.append(dict(part='treeops', st=st['name'], seed=seed, tier=tier, cids=ids[i:i + per], depth=1))
    for st in sts:
        ids = RefSpace(st).all_ids()
        if tier != 'thorough':
            # quick: histories of depth 2 on the first and the last configuration of the structures without a logit
            if st['big'] or st['helpers'] or st['name'] in ('top_level2x2', 'logit_avail2x2'):
                continue
            ids = ids[:1] + ids[-1:]
        for i in range(0, len(ids), TREEOPS_PER_TASK):
            t.append(dict(part='treeops', st=st['name'], seed=seed, tier=tier, cids=ids[i:i + TREEOPS_PER_TASK], depth=2,
                          modes=list(TREE_MODES if tier == 'thorough' else TREE_MODES[:2])))
    # 'names': the same structures with every shape of names; 'numbers': plain numbers handed over as numbers of numpy
    t += names_tasks(tier, seed)
    t += numbers_tasks(tier, seed, sts)
    # 'intkinds': steps of the operators / indices of the selection given as every kind of integer; 'refused': invalid
    # requests from every configuration (the object stays inside the product)
    for st in sts:
        sp = RefSpace(st)
        ids = sp.all_ids()
        per = 1 if len(sp.names) >= 3 else 2
        for i in range(0, len(ids), per):
            t.append(dict(part='intkinds', st=st['name'], seed=seed, tier=tier, starts=ids[i:i + per],
                          kinds=list(INT_KINDS if tier == 'thorough' else INT_KINDS_QUICK)))
    for st in sts:
        t.append(dict(part='refused', st=st['name'], seed=seed, tier=tier))
    return t


NAMES_QUICK_OPS = ('indep23', 'gas_2x2')                  # quick tier: the transition relation of these structures only
NAMES_QUICK_CONF = ('str', 'dict', 'current', 'op')       # quick tier: these ways of obtaining a Configuration object


def shaped_structures(tier, seed):
    """The structures explored with rewritten names: every structure of the tier x every shape of names."""
    out = []
    for shape in NAME_SHAPES:
        out += structures(seed, shape)
        if tier == 'thorough':
            out.append(thorough_only(seed, shape))
    return out


def names_tasks(tier, seed):
    """Part 'names'.  quick: static (all structures), the transition relation of two structures, the hidden-state product
    and the histories of depth 1 on one Configuration object for the structures that are not big; thorough: static, hidden
    and the Configuration-object histories (depth 1 over every way of obtaining the object, depth 2) on every structure,
    the transition relation and the operator histories of depth 2 on the structures that are not big; both: the part
    'orders'.  Not 'treeops' (its operations act on the names of parameters and variables, not on those of catalogs)."""
    t = []
    sts = shaped_structures(tier, seed)
    thorough = tier == 'thorough'
    for st in sts:
        t.append(dict(part='static', st=st['name'], seed=seed, tier=tier))
    for st in sts:
        if st['base'] not in NAMES_QUICK_OPS and (not thorough or st['big']):
            continue
        sp = RefSpace(st)
        ids = sp.all_ids()
        per = 1 if len(sp.names) >= 3 else (2 if thorough else 3)
        for i in range(0, len(ids), per):
            t.append(dict(part='ops', st=st['name'], seed=seed, tier=tier, starts=ids[i:i + per]))
    for st in sts:
        if thorough or not st['big']:
            t.append(dict(part='hidden', st=st['name'], seed=seed, tier=tier))
    for st in sts:
        if thorough and not st['big']:
            for cid in RefSpace(st).all_ids():
                t.append(dict(part='chains', st=st['name'], seed=seed, tier=tier, start=cid, depth=2, steps=[1, 2]))
    for st in sts:
        if thorough:
            for kind in CONF_STARTS:
                t.append(dict(part='confobj', st=st['name'], seed=seed, tier=tier, kinds=[kind], depth=1))
            t.append(dict(part='confobj', st=st['name'], seed=seed, tier=tier, kinds=list(CONF_DEEP_STARTS), depth=2))
        elif not st['big']:
            t.append(dict(part='confobj', st=st['name'], seed=seed, tier=tier, kinds=list(NAMES_QUICK_CONF), depth=1))
    for st in sts:
        if not has_handwritten_catalog(st):
            continue
        if any(ctrl is not None for ctrl, _ in cat_nodes(st).values()):
            t.append(dict(part='orders', st=st['name'], seed=seed, tier=tier, explicit=False))
        t.append(dict(part='orders', st=st['name'], seed=seed, tier=tier, explicit=True))
    return t


def has_plain_numbers(st):
    """True when the formula with catalogs is given plain numbers: a member that is a number, or potential segmentations
    (the keys of their mappings)."""
    found = []

    def walk(t):
        if isinstance(t, (tuple, list)):
            if isinstance(t, tuple) and t and t[0] == 'raw':
                found.append(t[1])
            for a in t:
                walk(a)

    walk(st['term'])
    return bool(found) or any(h['segs'] for h in st['helpers'])


def numbers_tasks(tier, seed, sts):
    """Part 'numbers': the structures that hand plain numbers to catalogs / segmentations, those numbers now of numpy."""
    t = []
    for st in sts:
        if not has_plain_numbers(st):
            continue
        for kind in ('numpy',):
            base = dict(st=st['name'], seed=seed, tier=tier, numbers=kind)
            t.append(dict(base, part='static'))
            if tier == 'thorough' or not st['big']:
                t.append(dict(base, part='hidden'))
            if tier == 'thorough':
                sp = RefSpace(st)
                ids = sp.all_ids()
                per = 1 if len(sp.names) >= 3 else 2
                for i in range(0, len(ids), per):
                    t.append(dict(base, part='ops', starts=ids[i:i + per]))
    return t


def container_variants(tier, st):
    """(names_as, explicit) variants of one structure.  explicit=True: every hand-written catalog under an explicitly
    declared controller; explicit=False (only for structures that name a shared controller): the description as it is,
    only the shared controller declared with that kind of iterable."""
    out = [(kind, True) for kind in NAME_CONTAINERS]
    if tier == 'thorough':
        out += [(f'mix{k}', True) for k in range(1, len(NAME_CONTAINERS))]
        if '_shared_controller' in st:
            out += [(kind, False) for kind in NAME_CONTAINERS if kind != 'list']
    return out


def container_tasks(tier, seed, sts):
    t = []
    elig = []
    for st in sts:
        if has_handwritten_catalog(st):
            st = dict(st)
            if any(c not in _catalog_names(st) for c in controllers_of(st)):
                st['_shared_controller'] = True
            elig.append(st)
    for part in ('static', 'ops', 'hidden', 'chains'):
        for st in elig:
            sp = RefSpace(st)
            ids = sp.all_ids()
            for names_as, explicit in container_variants(tier, st):
                base = dict(part=part, st=st['name'], seed=seed, tier=tier, names_as=names_as, explicit=explicit)
                if part == 'static':
                    t.append(base)
                elif part == 'ops':
                    if st['big'] and tier != 'thorough':
                        continue
                    per = 2 if len(sp.names) >= 3 else 4
                    for i in range(0, len(ids), per):
                        t.append(dict(base, starts=ids[i:i + per]))
                elif part == 'hidden':
                    if tier == 'thorough' or (not st['big'] and names_as in ONE_SHOT):
                        t.append(base)
                elif part == 'chains' and tier == 'thorough' and not st['big'] and not names_as.startswith('mix'):
                    for cid in ids:
                        t.append(dict(base, start=cid, depth=2, steps=[1, 2]))
    return t


def _catalog_names(st):
    out = set()

    def walk(t):
        if isinstance(t, (tuple, list)):
            if isinstance(t, tuple) and t and t[0] == 'cat':
                out.add(t[1])
            for a in t:
                walk(a)

    walk(st['term'])
    return out


def run_task(task, _raw=False):
    variant = task.get('names_as') is not None
    rec = _TaggedRec(('containers', task['names_as'], bool(task.get('explicit')))) if variant else \
        (_TaggedRec(('numbers', task['numbers'])) if task.get('numbers') else Rec())
    patch_random()
    try:
        st = get_structure(task['seed'], task['st'])
        if variant:
            st = dict(st, names_as=task['names_as'], explicit=bool(task.get('explicit')))
        elif task['part'] == 'orders' and task.get('explicit'):
            st = dict(st, explicit=True)
        if task.get('numbers'):
            st = dict(st, numbers=task['numbers'])
        space = RefSpace(st)
        case = {k: v for k, v in task.items() if k != 'fresh'}
        # what the finding key names: the structure; for the 'containers' variants the kind of iterable the controller
        # names were given as (the behaviour of a Controller does not depend on the formula around it)
        where = st['name']
        label = st['name']
        if variant:
            kind = 'mixed-kinds' if task['names_as'].startswith('mix') else task['names_as']
            where = f'controller-names-given-as-{kind}'
            label = f'{st["name"]}, controllers declared explicitly with their names as {task["names_as"]}' + \
                ('' if task.get('explicit') else ' (shared controller only)')
        elif task.get('numbers'):
            # the kind of number does not depend on the formula around it either
            where = f'plain-numbers-given-as-{task["numbers"]}-numbers'
            label = f'{st["name"]}, numbers that are members of catalogs / keys of segmentations given as {task["numbers"]} numbers'
        elif st.get('shape'):
            # the handling of a name does not depend on the formula: the key names the shape of the names
            where = f'names-{st["shape"]}'
            label = f'{st["name"]} (controllers {list(space.ctrl)}, selections {sorted({s_ for v in space.ctrl.values() for s_ in v})})'

        def vio_factory(witness_prefix):
            def vio(clause, what, expected=None, observed=None, witness=None):
                # finding key: clause + structure (+ operator kind for clauses about an operator's result)
                prefix = '' if clause in STATE_CLAUSES else witness_prefix
                key = f'C16|{clause}|{where}' + (f':{witness}' if witness else (f':{prefix}' if prefix else ''))
                rec.violation(key, f'[{label}, seed {task["seed"]}] {what}', dict(case, key=key),
                              expected=expected, observed=observed)
            return vio

        try:
            if task['part'] == 'static':
                _static(task, st, space, rec, vio_factory(''))
            elif task['part'] == 'ops':
                _ops(task, st, space, rec, vio_factory)
            elif task['part'] == 'hidden':
                _hidden(task, st, space, rec, vio_factory)
            elif task['part'] == 'chains':
                _chains(task, st, space, rec, vio_factory)
            elif task['part'] == 'confobj':
                _confobj(task, st, space, rec)
            elif task['part'] == 'orders':
                _orders(task, st, space, rec)
            elif task['part'] == 'treeops':
                _treeops(task, st, space, rec)
            elif task['part'] == 'intkinds':
                _intkinds(task, st, space, rec)
            elif task['part'] == 'refused':
                _refused(task, st, space, rec)
        except Exception as e:
            # every input of this driver is valid: an exception raised by library code is an observed outcome
            if not library_raised(e):
                raise
            if isinstance(e, RuntimeError):
                rec.retire = True
            import traceback
            rec.case(('raised', st['name'], task['part']), type(e).__name__, outcome='library-raised')
            vio_factory('')('library-raises-on-a-valid-structure',
                            f'part {task["part"]}: {type(e).__name__}: {e} (in {where_raised(e)}); the rest of this task was not explored\n'
                            + ''.join(traceback.format_tb(e.__traceback__)[-3:]),
                            None, f'{type(e).__name__}: {e}', witness=f'{type(e).__name__}@{where_raised(e)}')
    finally:
        unpatch_random()
    return rec if _raw else rec.result()


class _TaggedRec(Rec):
    """Recorder of a variant task: the same keys as the base exploration, made distinct by the variant."""

    def __init__(self, tag):
        super().__init__()
        self._tag = tag

    def case(self, nontrivial_key=None, observation=None, outcome=None):
        super().case(None if nontrivial_key is None else (self._tag, nontrivial_key), observation, outcome)


# --------------------------------------------------------------------------- part 'static'
def _static(task, st, space, rec, vio):
    from biogeme.configuration import Configuration, SelectionTuple
    from biogeme.expressions import SelectedExpressionsIterator

    seed = task['seed']
    real = Real(st, space, seed)
    hand = Hand(st, space, seed)
    expr = real.expr
    ids = space.all_ids()
    rec.sample(dict(part='static', structure=st['name'], controllers=space.ctrl, configurations=len(ids)))

    # catalogs and their controllers as the description says
    want_cats = {}
    for h in st['helpers']:
        want_cats.update(dict(helper_catalog_names(h)))
    for cn, (cat, ctrl) in real.b.catalogs.items():
        if cn in want_cats and want_cats[cn] != ctrl:
            vio('helper-catalog-under-unexpected-controller', f'catalog {cn!r} controlled by {ctrl!r}, documented {want_cats[cn]!r}',
                want_cats[cn], ctrl)
    missing = sorted(set(want_cats) - set(real.b.catalogs))
    used_missing = [c for c in missing if c in str(expr)]
    if used_missing:
        vio('helper-catalog-missing', f'catalogs {used_missing} not generated', None, None)

    # 1. size of the space ------------------------------------------------------------------------
    n = expr.number_of_multiple_expressions()
    confs = expr.set_of_configurations()
    got_ids = sorted(c.get_string_id() for c in confs)
    rec.case(('size', st['name']), (n, got_ids), outcome=('size', n))
    if n != space.size() or len(confs) != space.size():
        vio('number-of-configurations-is-not-the-product',
            f'number_of_multiple_expressions() = {n}, |set_of_configurations()| = {len(confs)}, product of controller sizes '
            f'{space.sizes} = {space.size()}', space.size(), n)
    if got_ids != sorted(ids):
        vio('set-of-configurations-is-not-the-product', f'{got_ids} != {sorted(ids)}', sorted(ids), got_ids)
    cc = expr.central_controller
    if sorted(cc.all_configurations_ids) != sorted(ids) and \
            sorted(Configuration.from_string(s).get_string_id() for s in cc.all_configurations_ids) != sorted(ids):
        vio('set-of-configurations-is-not-the-product', f'all_configurations_ids {sorted(cc.all_configurations_ids)}',
            sorted(ids), sorted(cc.all_configurations_ids))
    if [c.controller_name for c in cc.controllers] != space.names or \
            [list(c.specification_names) for c in cc.controllers] != [space.ctrl[c] for c in space.names]:
        vio('controllers-differ-from-description', f'{[str(c) for c in cc.controllers]} vs {space.ctrl}', space.ctrl, None)

    # the enumeration bound of CentralController: the size never depends on it
    from biogeme.controller import CentralController
    for mx in (space.size() - 1, space.size(), space.size() + 1):
        cc2 = CentralController(Real(st, space, seed).expr, maximum_number_of_configurations=mx)
        got = None if cc2.all_configurations is None else sorted(c.get_string_id() for c in cc2.all_configurations)
        rec.case(('max', st['name'], mx - space.size()), (mx, got), outcome=('max', got is None))
        if cc2.number_of_configurations() != space.size():
            vio('number-of-configurations-is-not-the-product', f'CentralController(maximum={mx}).number_of_configurations() = '
                f'{cc2.number_of_configurations()}', space.size(), cc2.number_of_configurations(), witness='explicit-maximum')
        if (got is None) != (space.size() > mx) or (got is not None and got != sorted(ids)):
            vio('set-of-configurations-is-not-the-product', f'CentralController(maximum={mx}): {got}', sorted(ids), got,
                witness='explicit-maximum')

    # 2. identifiers ------------------------------------------------------------------------------
    seen_ids = {}
    for choice in space.configs:
        cid = space.cid(choice)
        pairs = [(c, space.ctrl[c][choice[c]]) for c in space.names]
        canonical = None
        for pi, perm in enumerate(itertools.permutations(pairs)):
            nontriv = ('id', st['name'], cid, pi) if pi > 0 or len(pairs) == 1 else None
            c_list = Configuration([SelectionTuple(controller=c, selection=s) for c, s in perm])
            c_gen = Configuration(SelectionTuple(controller=c, selection=s) for c, s in perm)
            c_dict = Configuration.from_dict(dict(perm))
            c_str = Configuration.from_string(SEP.join(f'{c}{SELSEP}{s}' for c, s in perm))
            got = [c_list.get_string_id(), c_gen.get_string_id(), c_dict.get_string_id(), c_str.get_string_id(),
                   c_list.string_id, str(c_list)]
            # Configuration(selections: Iterable[SelectionTuple]): every kind of iterable
            for kind in NAME_CONTAINERS:
                c_k = Configuration(as_container(kind, [SelectionTuple(controller=c, selection=s) for c, s in perm]))
                got += [c_k.get_string_id(), c_k.string_id]
                if not (c_k == c_list and c_list == c_k and hash(c_k) == hash(c_list)) or \
                        [tuple(s_) for s_ in c_k.selections] != [tuple(s_) for s_ in c_list.selections]:
                    vio('equal-configurations-compare-or-hash-unequal',
                        f'{perm} given as {kind}: {c_k.selections} vs given as a list {c_list.selections}', None, None,
                        witness=f'Configuration-from-{kind}')
            rec.case(nontriv, (cid, pi, got), outcome=('id', len(set(got))))
            if any(g != cid for g in got):
                vio('identifier-depends-on-listing-order-or-is-not-canonical',
                    f'selections listed as {perm}: identifiers {got}, expected {cid!r}', cid, got)
            if not (c_list == c_dict == c_str) or len({hash(c_list), hash(c_dict), hash(c_str)}) != 1:
                vio('equal-configurations-compare-or-hash-unequal', f'{perm}', None, None)
            back = Configuration.from_string(c_list.get_string_id())
            if back != c_list or back.get_string_id() != cid or \
                    [tuple(s) for s in back.selections] != sorted(pairs):
                vio('identifier-does-not-convert-back', f'from_string({c_list.get_string_id()!r}) = {back.selections}',
                    sorted(pairs), [tuple(s) for s in back.selections])
            if canonical is None:
                canonical = [tuple(s) for s in c_list.selections]
            elif [tuple(s) for s in c_list.selections] != canonical:
                vio('identifier-depends-on-listing-order-or-is-not-canonical', f'selections differ for {perm}', canonical, None)
            for c, s in pairs:
                if c_list.get_selection(c) != s:
                    vio('get-selection-wrong', f'{cid!r}.get_selection({c!r}) = {c_list.get_selection(c)!r}', s, None)
        if cid in seen_ids:
            vio('identifier-not-unique', f'{choice} and {seen_ids[cid]} share {cid!r}', None, cid)
        seen_ids[cid] = choice
        # merging partial configurations (every split into two parts, both orders)
        for r in range(0, len(pairs) + 1):
            for part in itertools.combinations(pairs, r):
                rest = [p for p in pairs if p not in part]
                a = Configuration.from_dict(dict(part)) if part else Configuration()
                b = Configuration.from_dict(dict(rest)) if rest else Configuration()
                for tup in ((a, b), (b, a)):
                    if any(cfg.selections is None for cfg in tup) and not any(cfg.selections for cfg in tup):
                        continue
                    mg = Configuration.from_tuple_of_configurations(tup)
                    rec.case(None, (cid, r, mg.get_string_id()), outcome=('merge', mg.get_string_id() == cid))
                    if mg.get_string_id() != cid:
                        vio('merged-partial-configurations-differ', f'{part} + {rest} -> {mg.get_string_id()!r}', cid,
                            mg.get_string_id())
    if len(set(seen_ids)) != space.size():
        vio('identifier-not-unique', f'{len(set(seen_ids))} identifiers for {space.size()} configurations', None, None)

    # 3. iteration --------------------------------------------------------------------------------
    def visit(iterator, label):
        visited = []
        for e in iterator:
            cur, _ = real.cheap_state()
            if e is not expr:
                vio('iterator-yields-another-object', label, None, None)
            real.check_state(cur, hand, rec, vio, 1) if cur in seen_ids else None
            visited.append(cur)
            rec.case(('iter', st['name'], label, len(visited)), (label, cur), outcome=('iter', cur in seen_ids))
            if len(visited) > 4 * space.size() + 4:
                vio('iteration-does-not-terminate', label, None, None)
                break
        return visited

    visited = visit(iter(expr), 'full')
    if sorted(visited) != sorted(ids):
        vio('iteration-does-not-visit-every-configuration-exactly-once',
            f'iter(expression) visited {visited}; the {space.size()} configurations are {sorted(ids)}', sorted(ids), visited)
    conf_by_id = {c.get_string_id(): c for c in confs}
    if set(conf_by_id) == set(ids):
        for r in (1, 2):
            for sub in itertools.combinations(sorted(ids), r):
                vis = visit(SelectedExpressionsIterator(expr, {conf_by_id[s] for s in sub}), f'subset{r}')
                if sorted(vis) != sorted(sub):
                    vio('iteration-does-not-visit-every-configuration-exactly-once',
                        f'iterator over {sub} visited {vis}', list(sub), vis, witness=f'subset-of-{r}')

    # 4. selecting a configuration; every entry point; every predecessor state --------------------
    order = ids + ids[::-1]
    for j, cid in enumerate(order):
        expr.configure_catalogs(Configuration.from_string(cid))
        canon = real.check_state(cid, hand, rec, vio, 2)
        rec.state((st['name'], cid))
        rec.case(('conf', st['name'], cid, j >= len(ids)), canon, outcome=('conf', st['name'], cid))
    # set_configuration_from_id with the terms listed in reverse order
    for cid in ids:
        expr.central_controller.set_configuration_from_id(SEP.join(reversed(cid.split(SEP))))
        canon = real.check_state(cid, hand, rec, vio, 1)
        rec.case(('from_id', st['name'], cid), canon, outcome=('conf', st['name'], cid))
    # select_expression: one controller at a time, from every configuration
    for choice in space.configs:
        cid = space.cid(choice)
        for c in space.names:
            for idx in range(len(space.ctrl[c])):
                expr.configure_catalogs(Configuration.from_string(cid))
                expr.select_expression(c, idx)
                want = space.cid(dict(choice, **{c: idx}))
                canon = real.check_state(want, hand, rec, vio, 1)
                rec.transition()
                rec.case(('select', st['name'], cid, c, idx) if want != cid else None, canon, outcome=('conf', st['name'], want))
    # invalid requests must be refused and leave a valid state
    from biogeme.exceptions import BiogemeError
    expr.configure_catalogs(Configuration.from_string(ids[0]))
    for c in space.names:
        for idx in (-1, len(space.ctrl[c])):
            try:
                expr.select_expression(c, idx)
                vio('out-of-range-index-accepted', f'select_expression({c!r}, {idx}) accepted', 'BiogemeError', None)
            except BiogemeError:
                pass
            real.check_state(ids[0], hand, rec, vio, 0)
            rec.case(None, ('refused', c, idx), outcome='refused')
    # 5. the BIOGEME entry point ------------------------------------------------------------------
    import biogeme.biogeme as bio
    from biogeme.parameters import Parameters
    for cid in ids:
        fresh = Real(st, space, seed)
        try:
            bobj = bio.BIOGEME.from_configuration(config_id=cid, expression=fresh.expr, database=fresh.db,
                                                  parameters=Parameters())
            total = float(bobj.calculate_init_likelihood())
        except Exception as e:
            if isinstance(e, RuntimeError):
                rec.retire = True
            rec.case(('biogeme', st['name'], cid), (cid, type(e).__name__), outcome=('biogeme', type(e).__name__))
            vio('selected-formula-cannot-be-evaluated',
                f'BIOGEME.from_configuration({cid!r}) / calculate_init_likelihood() raised {type(e).__name__}: {e}; the formula '
                f'written out by hand evaluates', None, f'{type(e).__name__}: {e}', witness=f'BIOGEME.from_configuration:{type(e).__name__}')
            continue
        want = math.fsum(hand.get(cid)['v0'])
        scale = math.fsum(abs(v) for v in hand.get(cid)['v0'])
        ok = abs(total - want) <= 1e-12 + 1e-10 * max(scale, abs(want))
        rec.case(('biogeme', st['name'], cid), (cid, round(total, 9)), outcome=('biogeme', ok))
        if not ok:
            vio('value-differs-from-hand-written', f'BIOGEME.from_configuration({cid!r}).calculate_init_likelihood() = {total}, '
                f'sum of the hand-written formula = {want}', want, total, witness='BIOGEME.from_configuration')
        fresh.check_state(cid, hand, rec, vio, 0)


# --------------------------------------------------------------------------- part 'ops'
def _op_kind(desc):
    return {'inc': 'Increase', 'dec': 'Decrease', 'pair': 'Pair'}.get(desc[0]) or \
        ('Increase_several' if desc[1] else 'Decrease_several')


def _apply_real(real, ops, opname, cid, step, Configuration):
    """All answers of the random seam: list of (picked, tape, new id, reported steps)."""
    def run():
        new, nsteps = ops[opname](Configuration.from_string(cid), step)
        return new.get_string_id(), nsteps, real.cheap_state()

    # a generator: the caller inspects the real object right after each application
    yield from all_answers(run)


def _check_menu(real, space, vio):
    ops = real.expr.central_controller.prepare_operators()
    if sorted(ops) != sorted(space.operator_names()):
        vio('operator-menu-differs', f'prepare_operators() = {sorted(ops)}; expected {sorted(space.operator_names())}',
            sorted(space.operator_names()), sorted(ops))
    return ops


def _ops(task, st, space, rec, vio_factory):
    from biogeme.configuration import Configuration

    seed = task['seed']
    real = Real(st, space, seed)
    hand = Hand(st, space, seed)
    real.expr.set_central_controller()
    ops = _check_menu(real, space, vio_factory(''))
    ids = set(space.all_ids())
    graph = {}
    for cid in task['starts']:
        choice = space.parse(cid)
        for opname in sorted(ops):
            try:
                desc = space.op_desc(opname)
            except KeyError:
                continue
            kind = _op_kind(desc)
            vio = vio_factory(kind)
            for step in space.steps_for(desc):
                for picked, tape, res in _apply_real(real, ops, opname, cid, step, Configuration):
                    rec.transition()
                    if isinstance(res, Raised):
                        rec.case(('op', st['name'], cid, opname, step, tape), (cid, opname, step, tape, res.text), outcome='raised')
                        vio('operator-raises-on-a-valid-configuration',
                            f'{opname}({cid!r}, step {step}, random answer {picked}) raised {res.text}', 'a configuration', res.text)
                        continue
                    new_id, nsteps, (cur, sel) = res
                    accept = [space.cid(c) for c in space.apply(choice, desc, step, picked)]
                    changed = new_id != cid
                    rec.case(('op', st['name'], cid, opname, step, tape) if changed else None,
                             (cid, opname, step, tape, new_id, nsteps), outcome=('to', st['name'], new_id))
                    graph.setdefault(cid, set()).add(new_id)
                    if new_id not in ids:
                        vio('operator-leaves-the-product', f'{opname}({cid!r}, step {step}, answer {picked}) = {new_id!r}',
                            sorted(ids), new_id)
                        continue
                    rec.state((st['name'], new_id))
                    if new_id not in accept:
                        vio('operator-result-differs-from-model',
                            f'{opname}({cid!r}, step {step}, random answer {picked}) = {new_id!r}; reference model {accept}',
                            accept, new_id)
                    if desc[0] == 'several':
                        moved = {c for c in space.names if space.parse(new_id)[c] != choice[c]}
                        if not moved <= set(picked):
                            vio('operator-result-differs-from-model', f'{opname} moved {sorted(moved)} but drew {picked}',
                                picked, sorted(moved))
                    # the real object after the transition: inspected and evaluated through the engine
                    if cur != new_id:
                        vio('object-state-differs-from-returned-configuration', f'after {opname}({cid!r}, {step}): object in {cur!r}, '
                            f'returned {new_id!r}', new_id, cur)
                    else:
                        real.check_state(new_id, hand, rec, vio, 2 if step in (1, 2) else 1)
                    # the argument must not be altered
                    if not isinstance(nsteps, int):
                        vio('operator-result-differs-from-model', f'{opname} reports {nsteps!r} modifications', 'int', repr(nsteps))
        # inverse property
        vio = vio_factory('inverse')
        for c in space.names:
            s = len(space.ctrl[c])
            for step in sorted({0, 1, 2, 3, s - 1, s, s + 1, 2 * s + 1}):
                for first, second in ((f'Increase {c}', f'Decrease {c}'), (f'Decrease {c}', f'Increase {c}')):
                    if first not in ops or second not in ops:
                        continue
                    try:
                        mid, _ = ops[first](Configuration.from_string(cid), step)
                        back, _ = ops[second](mid, step)
                    except Exception as e:
                        if not library_raised(e):
                            raise
                        rec.case(('inv', st['name'], cid, first, step), (cid, first, step, type(e).__name__), outcome='raised')
                        vio('operator-raises-on-a-valid-configuration', f'{second}({first}({cid!r}, {step}), {step}) raised '
                            f'{type(e).__name__}: {e}', cid, type(e).__name__)
                        continue
                    rec.transition(2)
                    ok = back.get_string_id() == cid
                    rec.case(('inv', st['name'], cid, first, step) if mid.get_string_id() != cid else None,
                             (cid, first, step, mid.get_string_id(), back.get_string_id()), outcome=('inverse', ok))
                    if not ok:
                        vio('increase-then-decrease-is-not-identity',
                            f'{second}({first}({cid!r}, {step}), {step}) = {back.get_string_id()!r} via {mid.get_string_id()!r}',
                            cid, back.get_string_id())
                    real.check_state(back.get_string_id(), hand, rec, vio, 1) if back.get_string_id() in ids else None
        # pair operators are their own inverse in the opposite direction
        opp = {'NE': 'SW', 'SW': 'NE', 'NW': 'SE', 'SE': 'NW'}
        for a in space.names:
            for b in space.names:
                if a == b:
                    continue
                for d in opp:
                    f1, f2 = f'Pair_{a}_{b}_{d}', f'Pair_{a}_{b}_{opp[d]}'
                    if f1 not in ops or f2 not in ops:
                        continue
                    for step in (1, 2, 3):
                        try:
                            mid, _ = ops[f1](Configuration.from_string(cid), step)
                            back, _ = ops[f2](mid, step)
                        except Exception as e:
                            if not library_raised(e):
                                raise
                            vio('operator-raises-on-a-valid-configuration', f'{f2}({f1}({cid!r}, {step}), {step}) raised '
                                f'{type(e).__name__}: {e}', cid, type(e).__name__, witness='pair')
                            continue
                        rec.transition(2)
                        ok = back.get_string_id() == cid
                        rec.case(('inv2', st['name'], cid, f1, step), (cid, f1, step, back.get_string_id()), outcome=('inverse', ok))
                        if not ok:
                            vio('increase-then-decrease-is-not-identity', f'{f2}({f1}({cid!r}, {step}), {step}) = '
                                f'{back.get_string_id()!r}', cid, back.get_string_id(), witness='pair')
    # reachability over the recorded real transitions (Increase is transitive on each controller)
    for cid in task['starts']:
        reach, todo = {cid}, [cid]
        while todo:
            cur = todo.pop()
            for nxt in graph.get(cur, ()):
                if nxt not in reach and nxt in ids:
                    reach.add(nxt)
                    if nxt in graph:
                        todo.append(nxt)
        # successors of cid alone already cover: every single-controller move
        want = {space.cid(space.move(space.parse(cid), c, k)) for c in space.names for k in range(len(space.ctrl[c]))}
        if not want <= graph.get(cid, set()):
            vio_factory('')('neighbourhood-incomplete', f'from {cid!r}: single-controller neighbours {sorted(want - graph.get(cid, set()))} '
                            f'not produced by any operator', sorted(want), sorted(graph.get(cid, ())))
    rec.sample(dict(part='ops', structure=st['name'], starts=task['starts'], operators=len(ops),
                    successors={k: sorted(v) for k, v in list(graph.items())[:1]}))


# --------------------------------------------------------------------------- part 'hidden'
def _hidden(task, st, space, rec, vio_factory):
    from biogeme.configuration import Configuration

    seed = task['seed']
    real = Real(st, space, seed)
    hand = Hand(st, space, seed)
    real.expr.set_central_controller()
    ops = _check_menu(real, space, vio_factory(''))
    ids = space.all_ids()
    idset = set(ids)
    steps = (1, 2)
    for s_id in ids:
        for cid in ids:
            choice = space.parse(cid)
            for opname in sorted(ops):
                try:
                    desc = space.op_desc(opname)
                except KeyError:
                    continue
                vio = vio_factory(_op_kind(desc))
                for step in steps:
                    def run():
                        real.expr.configure_catalogs(Configuration.from_string(s_id))
                        arg = Configuration.from_string(cid)
                        new, nsteps = ops[opname](arg, step)
                        return new.get_string_id(), arg.get_string_id(), real.cheap_state()

                    for picked, tape, res in all_answers(run):
                        rec.transition()
                        if isinstance(res, Raised):
                            rec.case(('hid', st['name'], s_id, cid, opname, step, tape), (s_id, cid, opname, step, res.text), outcome='raised')
                            vio('operator-raises-on-a-valid-configuration',
                                f'object in {s_id!r}: {opname}({cid!r}, step {step}, answer {picked}) raised {res.text}', None, res.text)
                            continue
                        new_id, arg_after, (cur, sel) = res
                        accept = [space.cid(c) for c in space.apply(choice, desc, step, picked)]
                        rec.case(('hid', st['name'], s_id, cid, opname, step, tape) if new_id != cid and s_id != cid else None,
                                 (s_id, cid, opname, step, tape, new_id), outcome=('to', st['name'], new_id))
                        if new_id not in idset:
                            vio('operator-leaves-the-product', f'object in {s_id!r}: {opname}({cid!r}, {step}, answer {picked}) = {new_id!r}',
                                None, new_id)
                            continue
                        rec.state((st['name'], new_id))
                        if new_id not in accept:
                            vio('operator-result-depends-on-hidden-state' if s_id != cid else 'operator-result-differs-from-model',
                                f'object in {s_id!r}: {opname}({cid!r}, step {step}, answer {picked}) = {new_id!r}; model {accept}',
                                accept, new_id)
                        if arg_after != cid:
                            vio('operator-alters-its-argument', f'{opname} changed its argument {cid!r} into {arg_after!r}', cid, arg_after)
                        if cur != new_id:
                            vio('object-state-differs-from-returned-configuration',
                                f'object in {s_id!r}: after {opname}({cid!r}, {step}) object in {cur!r}, returned {new_id!r}', new_id, cur)
                        else:
                            real.check_state(new_id, hand, rec, vio, 1)
    rec.sample(dict(part='hidden', structure=st['name'], pairs=len(ids) ** 2, operators=len(ops), steps=list(steps)))


# --------------------------------------------------------------------------- part 'chains'
def _chains(task, st, space, rec, vio_factory):
    from biogeme.configuration import Configuration

    seed = task['seed']
    real = Real(st, space, seed)
    hand = Hand(st, space, seed)
    real.expr.set_central_controller()
    ops = _check_menu(real, space, vio_factory(''))
    idset = set(space.all_ids())
    opnames = [o for o in sorted(ops) if o in set(space.operator_names())]
    descs = {o: space.op_desc(o) for o in opnames}
    depth = task['depth']
    steps = tuple(task['steps'])
    seen_canon = {}
    vio = vio_factory('chain')
    counter = {'n': 0}

    def explore(cid, history, level):
        for opname in opnames:
            if opname not in ops:
                continue
            desc = descs[opname]
            for step in steps:
                def run():
                    new, _ = ops[opname](Configuration.from_string(cid), step)
                    return new.get_string_id(), real.cheap_state()

                for picked, tape, res in all_answers(run):
                    rec.transition()
                    counter['n'] += 1
                    hist = history + [(opname, step, tape)]
                    if isinstance(res, Raised):
                        rec.case(('chain', st['name'], task['start'], tuple(hist)), None, outcome='raised')
                        vio('operator-raises-on-a-valid-configuration', f'history {hist} from {task["start"]!r} raised {res.text}',
                            None, res.text)
                        continue
                    new_id, (cur, sel) = res
                    accept = [space.cid(c) for c in space.apply(space.parse(cid), desc, step, picked)]
                    rec.case(('chain', st['name'], task['start'], tuple(hist)) if new_id != cid else None,
                             None, outcome=('to', st['name'], new_id))
                    if new_id not in idset:
                        vio('operator-leaves-the-product', f'history {hist} from {task["start"]!r}: {new_id!r}', None, new_id)
                        continue
                    if new_id not in accept or cur != new_id:
                        vio('operator-result-differs-from-model',
                            f'history {hist} from {task["start"]!r}: reached {new_id!r} (object in {cur!r}); model {accept}',
                            accept, new_id)
                        continue
                    # state reached by this path vs the state reached by any other path to the same configuration
                    canon = (cur, sel)
                    if new_id not in seen_canon:
                        seen_canon[new_id] = canon
                        rec.state((st['name'], new_id))
                        real.check_state(new_id, hand, rec, vio, 2)
                    elif seen_canon[new_id] != canon:
                        vio('state-depends-on-the-path', f'{new_id!r} reached by {hist}: {canon} vs {seen_canon[new_id]}',
                            seen_canon[new_id], canon)
                    if level + 1 < depth:
                        explore(new_id, hist, level + 1)
                    elif counter['n'] % 97 == 0:
                        real.check_state(new_id, hand, rec, vio, 1)

    explore(task['start'], [], 0)
    rec.observe((task['start'], counter['n'], sorted(seen_canon)))
    rec.sample(dict(part='chains', structure=st['name'], start=task['start'], depth=depth, histories=counter['n'],
                    states_reached=len(seen_canon)))
    # the set of configurations reached must be the one the reference model reaches with the same histories
    required, allowed = space.reach(space.parse(task['start']), depth, steps)
    if not (required <= set(seen_canon) <= allowed):
        vio('reached-set-differs-from-model', f'from {task["start"]!r} within depth {depth}, steps {steps}: reached '
            f'{sorted(seen_canon)}; model requires {sorted(required)} and allows {sorted(allowed)}',
            sorted(required), sorted(seen_canon))
    rec.count('chain_tasks_reaching_the_whole_product', int(set(seen_canon) == idset))


# --------------------------------------------------------------------------- part 'confobj'
# ways of obtaining a Configuration object (the start of a history on that one object)
CONF_STARTS = ('empty', 'list', 'gen', 'dict', 'str', 'merge', 'current', 'op')
CONF_DEEP_STARTS = ('empty', 'list', 'current')          # reduced alphabet of the histories of depth >= 2
_CONF_GROUP = {'empty': 'empty', 'current': 'library-made', 'op': 'library-made'}   # others: 'constructed'


class _Failed:
    """An observer of a valid Configuration object raised."""

    def __init__(self, exc):
        self.text = f'<{type(exc).__name__}: {exc}>'

    def __repr__(self):
        return self.text

    def __eq__(self, other):
        return False

    def __ne__(self, other):
        return True

    __hash__ = None


def _grab(fn):
    try:
        return fn()
    except Exception as e:  # the object is valid: whatever an observer raises is an observation
        return _Failed(e)


def _confobj(task, st, space, rec):
    """Histories on one Configuration object; the reference model of the object is the LAST assignment."""
    from biogeme.configuration import Configuration, SelectionTuple
    from biogeme.expressions import SelectedExpressionsIterator

    seed = task['seed']
    depth = task['depth']
    real = Real(st, space, seed)
    expr = real.expr
    expr.set_central_controller()
    ops = expr.central_controller.prepare_operators()
    ids = space.all_ids()
    n = len(ids)
    pairs_of = [[(c, space.ctrl[c][ch[c]]) for c in space.names] for ch in space.configs]
    perms_of = [list(itertools.permutations(p)) for p in pairs_of]
    nperm = len(perms_of[0])
    reduced = sorted({0, nperm - 1})
    ref = [Configuration.from_string(cid) for cid in ids]      # never assigned to
    all_set = expr.set_of_configurations()
    case = {k: v for k, v in task.items() if k != 'fresh'}
    opnames = [o for o in sorted(ops) if o in set(space.operator_names())]

    def cvio(clause, what, expected, observed, pattern):
        # the behaviour of a Configuration object does not depend on the formula: the key names the history pattern only
        key = f'C16|{clause}|Configuration-object:{pattern}' + (f':names-{st["shape"]}' if st.get('shape') else '')
        rec.violation(key, f'[{st["name"]}, seed {seed}] {what}', dict(case, key=key), expected=expected, observed=observed)

    def tuples(perm):
        return [SelectionTuple(controller=c, selection=s) for c, s in perm]

    def make(kind, ai, pi):
        perm = perms_of[ai][pi]
        if kind == 'empty':
            return Configuration()
        if kind == 'list':
            return Configuration(tuples(perm))
        if kind == 'gen':
            return Configuration(tp for tp in tuples(perm))
        if kind == 'dict':
            return Configuration.from_dict(dict(perm))
        if kind == 'str':
            return Configuration.from_string(SEP.join(f'{c}{SELSEP}{s}' for c, s in perm))
        if kind == 'merge':
            return Configuration.from_tuple_of_configurations(tuple(Configuration.from_dict({c: s}) for c, s in perm))
        if kind == 'current':
            expr.configure_catalogs(ref[ai])
            return expr.current_configuration()
        if kind == 'op':
            return ops[f'Increase {space.names[0]}'](ref[ai], 0)[0]
        raise KeyError(kind)

    def starts(kind, deep):
        """(configuration index, listing order index) of the start objects of one kind."""
        if kind == 'empty':
            return [(0, 0)]
        if kind == 'op' and f'Increase {space.names[0]}' not in ops:
            rec.count('confobj_start_unavailable')      # the menu of operators is checked by the other parts
            return []
        if kind in ('current', 'op'):
            return [(ai, 0) for ai in range(n)]
        return [(ai, pi) for ai in range(n) for pi in (reduced if deep else range(nperm))]

    def history(kind, ai, pi, assigns):
        conf = make(kind, ai, pi)
        if kind in ('current', 'op') and _grab(conf.get_string_id) != ids[ai]:
            return None                                  # reported by the parts 'static' / 'ops'
        for bi, qi in assigns:
            conf.selections = tuples(perms_of[bi][qi])
            rec.transition()
        return conf

    def pattern_of(kind, nassign):
        return f'{_CONF_GROUP.get(kind, "constructed")}+selections-{"assigned" if nassign == 1 else "reassigned"}'

    def describe(kind, ai, pi, assigns):
        head = 'Configuration()' if kind == 'empty' else f'{kind}:{[c for c, _ in perms_of[ai][pi]]}->{ids[ai]!r}'
        return head + ''.join(f' ; selections = {list(perms_of[bi][qi])}' for bi, qi in assigns)

    def check(conf, bi, pattern, text, consume):
        """The object must be the configuration #bi, for every observer."""
        cid = ids[bi]
        want_sel = sorted(pairs_of[bi])
        ok = True
        got = [_grab(conf.get_string_id), _grab(lambda: conf.string_id), _grab(lambda: str(conf))]
        sel = _grab(lambda: [tuple(s_) for s_ in conf.selections])
        if any(g != cid for g in got) or sel != want_sel:
            ok = False
            cvio('identifier-depends-on-listing-order-or-is-not-canonical',
                 f'after {text}: get_string_id() / string_id / str() = {got}, selections {sel}; expected {cid!r}', cid,
                 repr(got), pattern)
        eq = _grab(lambda: (conf == ref[bi], ref[bi] == conf, hash(conf) == hash(ref[bi])))
        if eq != (True, True, True):
            ok = False
            cvio('equal-configurations-compare-or-hash-unequal',
                 f'after {text}: (object == fresh, fresh == object, equal hashes) = {eq} for the freshly built {cid!r}',
                 (True, True, True), repr(eq), pattern)
        same = [ids[i] for i in range(n) if i != bi and _grab(lambda: (conf == ref[i]) or (ref[i] == conf)) is not False]
        if same:
            ok = False
            cvio('identifier-not-unique', f'after {text}: the object ({cid!r}) compares equal to the different configurations {same}',
                 [], same, pattern)
        back = _grab(lambda: Configuration.from_string(str(conf)))
        if isinstance(back, _Failed) or _grab(lambda: back == conf) is not True or back.get_string_id() != cid \
                or [tuple(s_) for s_ in back.selections] != want_sel:
            ok = False
            cvio('identifier-does-not-convert-back',
                 f'after {text}: from_string(str(object)) = {back!r} (str(object) = {_grab(lambda: str(conf))!r}); expected {cid!r}',
                 cid, repr(back), pattern)
        for c, s_ in pairs_of[bi]:
            if _grab(lambda: conf.get_selection(c)) != s_:
                ok = False
                cvio('get-selection-wrong', f'after {text}: get_selection({c!r}) = {_grab(lambda: conf.get_selection(c))!r}', s_,
                     None, pattern)
        if consume:
            if all_set is not None and _grab(lambda: conf in all_set) is not True:
                ok = False
                cvio('equal-configurations-compare-or-hash-unequal',
                     f'after {text}: the object is not found in set_of_configurations()', True, False, pattern)
            expr.configure_catalogs(conf)
            real.check_state(cid, None, rec, lambda clause, what, e=None, o=None, witness=None:
                             cvio(clause, f'after {text}, configure_catalogs(object): {what}', e, o, pattern), 0)
            rec.state((st['name'], cid))
        return ok

    def visit(confs, want_ids, label, text, pattern):
        visited = []
        for _ in SelectedExpressionsIterator(expr, confs):
            visited.append(real.cheap_state()[0])
            if len(visited) > 4 * n + 4:
                break
        ok = sorted(visited) == sorted(want_ids)
        rec.case(('cobj-iter', st['name'], label), (label, sorted(visited)), outcome=('cobj-iter', ok))
        if not ok:
            cvio('iteration-does-not-visit-every-configuration-exactly-once',
                 f'{text}: iteration over the set of these {len(want_ids)} objects visited {sorted(visited)}; expected '
                 f'{sorted(want_ids)}', sorted(want_ids), sorted(visited), pattern)

    nhist = 0
    for kind in task['kinds']:
        deep = depth >= 2
        pattern = pattern_of(kind, depth)
        orders = reduced if deep else list(range(nperm))
        alphabet_ = [(bi, qi) for bi in range(n) for qi in orders]
        for ai, pi in starts(kind, deep):
            # ---- every history of exactly `depth` assignments (shorter ones are the tasks of smaller depth)
            for assigns in itertools.product(alphabet_, repeat=depth):
                conf = history(kind, ai, pi, assigns)
                if conf is None:
                    rec.count('confobj_start_not_as_expected')
                    break
                bi, qi = assigns[-1]
                prev = assigns[-2][0] if depth >= 2 else (ai if kind != 'empty' else None)
                nontrivial = (prev != bi) or qi != 0
                text = describe(kind, ai, pi, assigns)
                ok = check(conf, bi, pattern, text, consume=(qi in reduced))
                nhist += 1
                if depth == 1 and qi in reduced:
                    # the history goes on with an assignment the library refuses (one controller listed twice): the
                    # object must still be the configuration of its last accepted assignment, for every observer
                    conf2 = history(kind, ai, pi, assigns)
                    c0 = space.names[0]
                    others = [s_ for s_ in space.ctrl[c0] if s_ != dict(pairs_of[bi])[c0]]
                    if conf2 is not None and others:
                        from biogeme.exceptions import BiogemeError
                        bad_list = tuples(perms_of[bi][qi]) + [SelectionTuple(controller=c0, selection=others[0])]
                        try:
                            conf2.selections = bad_list
                            rec.count('confobj_duplicate_controller_assignment_accepted')
                        except BiogemeError:
                            rec.transition()
                            ok2 = check(conf2, bi, pattern + '+refused-assignment',
                                        text + f' ; selections = {[tuple(t_) for t_ in bad_list]} (refused: BiogemeError)', consume=False)
                            rec.case(('cobj-refused', st['name'], kind, ai, pi, assigns), (kind, ai, pi, assigns, 'refused', ok2),
                                     outcome=('cobj-refused', kind, ok2))
                rec.case(('cobj', st['name'], kind, ai, pi, assigns) if nontrivial else None,
                         (kind, ai, pi, assigns, _grab(lambda: str(conf))), outcome=('cobj', kind, depth, ok))
            # ---- families: one object per configuration of the product, all with the same past
            if pi not in reduced:
                continue
            prefixes = [()] if depth == 1 else [tuple((ai2, pi) for _ in range(depth - 1))
                                                for ai2 in sorted({0, n - 1, ai})]
            for prefix in prefixes:
                objs = [history(kind, ai, pi, prefix + ((bi, (bi + pi) % nperm),)) for bi in range(n)]
                if any(o is None for o in objs):
                    break
                text = f'{n} objects [{describe(kind, ai, pi, prefix)} ; selections = <each configuration of the product>]'
                the_set = _grab(lambda: set(objs))
                size = None if isinstance(the_set, _Failed) else len(the_set)
                rec.case(('cobj-set', st['name'], kind, ai, pi, prefix), (kind, ai, pi, prefix, size), outcome=('cobj-set', size == n))
                if size != n:
                    cvio('identifier-not-unique', f'{text}: a set of them has {size} elements, the product has {n} configurations',
                         n, size, pattern)
                elif all_set is not None and the_set != all_set:
                    cvio('equal-configurations-compare-or-hash-unequal', f'{text}: the set differs from set_of_configurations()',
                         sorted(ids), sorted(str(o) for o in the_set), pattern)
                if isinstance(the_set, _Failed):
                    continue
                visit(the_set, ids, (kind, ai, pi, prefix, 'all'), text, pattern)
                if ai == 0:
                    for i, j in itertools.combinations(range(n), 2):
                        pair = _grab(lambda: {objs[i], objs[j]})
                        if not isinstance(pair, _Failed):
                            visit(pair, [ids[i], ids[j]], (kind, ai, pi, prefix, i, j),
                                  f'the two objects of [{text}] for {ids[i]!r} and {ids[j]!r}', pattern)
                # every operator applied to such an object
                if ai in (0, n - 1) and pi == (0 if kind in ('empty', 'current', 'op') else reduced[-1]):
                    for bi, obj in enumerate(objs):
                        for opname in opnames:
                            desc = space.op_desc(opname)
                            for picked, tape, res in all_answers(lambda: ops[opname](obj, 1)[0].get_string_id()):
                                rec.transition()
                                accept = [space.cid(c) for c in space.apply(space.configs[bi], desc, 1, picked)]
                                good = not isinstance(res, Raised) and res in accept
                                rec.case(('cobj-op', st['name'], kind, ai, prefix, bi, opname, tape) if good and res != ids[bi] else None,
                                         (kind, ai, bi, opname, tape, getattr(res, 'text', res)), outcome=('cobj-op', good))
                                if not good:
                                    cvio('operator-result-differs-from-model',
                                         f'after {describe(kind, ai, pi, prefix + ((bi, (bi + pi) % nperm),))}: {opname}(object, 1, '
                                         f'random answer {picked}) = {getattr(res, "text", res)!r}; reference model {accept}',
                                         accept, getattr(res, 'text', res), pattern)
                        if _grab(obj.get_string_id) != ids[bi]:
                            cvio('operator-alters-its-argument', f'operators changed their argument {ids[bi]!r} into '
                                 f'{_grab(obj.get_string_id)!r}', ids[bi], repr(_grab(obj.get_string_id)), pattern)
    rec.sample(dict(part='confobj', structure=st['name'], kinds=task['kinds'], depth=depth, histories=nhist,
                    configurations=n, listing_orders=nperm))


# --------------------------------------------------------------------------- part 'orders'
def rewrite_cats(t, f):
    """The term with every ('cat', ..) node replaced by f(node) (the members are rewritten first)."""
    if isinstance(t, list):
        return [rewrite_cats(a, f) for a in t]
    if not isinstance(t, tuple):
        return t
    if t and t[0] == 'cat':
        return f(('cat', t[1], t[2], [(mn, rewrite_cats(mt, f)) for mn, mt in t[3]]))
    return tuple(rewrite_cats(a, f) for a in t)


def cat_nodes(st):
    """catalog name -> (controller name as the description gives it, member names), in order of first occurrence."""
    out = {}

    def f(node):
        out.setdefault(node[1], (node[2], [mn for mn, _ in node[3]]))
        return node

    rewrite_cats(st['term'], f)
    return out


def alter_members(members, alteration):
    """The list of members a catalog is declared with, altered."""
    kind = alteration[0]
    if kind == 'perm':
        return [members[i] for i in alteration[1]]
    if kind == 'drop-last':
        return members[:-1]
    if kind == 'rename-last':
        return members[:-1] + [(members[-1][0] + '~', members[-1][1])]
    if kind in ('rename-last-blank', 'rename-last-case'):
        return members[:-1] + [(near_name(members[-1][0], kind[12:]), members[-1][1])]
    if kind == 'extra':
        return members + [('extra~', members[0][1])]
    raise KeyError(kind)


def near_name(name, how):
    """Another name that a normalisation (white space at the ends, letter case) would confuse with `name`."""
    return name + ' ' if how == 'blank' else name.swapcase()


ORDER_WHERE = {'perm': 'catalog-members-in-another-order-than-its-controller',
               'extra': 'catalog-with-a-member-unknown-to-its-controller',
               'drop-last': 'catalog-lacking-an-alternative-of-its-controller',
               'rename-last': 'catalog-lacking-an-alternative-of-its-controller',
               'rename-last-blank': 'catalog-lacking-an-alternative-of-its-controller',
               'rename-last-case': 'catalog-lacking-an-alternative-of-its-controller'}


def order_variants(st, explicit, tier):
    """(targets, {catalog: alteration}, constructor): every catalog handed to an existing controller (controlled_by=...)
    with its members in EVERY other order (and with one member dropped / renamed / added), one catalog at a time and
    all the catalogs of one controller together; thorough: also every pair of different orders on two catalogs of one
    controller."""
    nodes = cat_nodes(st)
    attached = [c for c, (ctrl, _) in nodes.items() if ctrl is not None or explicit]
    by_ctrl = {}
    for c in attached:
        by_ctrl.setdefault(nodes[c][0] if nodes[c][0] is not None else c, []).append(c)
    out = []
    for c in attached:
        n = len(nodes[c][1])
        alts = [('perm', list(pm)) for pm in list(itertools.permutations(range(n)))[1:]]
        alts += ([('drop-last',)] if n >= 2 else []) + [('rename-last',), ('extra',)]
        # the last member renamed into a name that differs from the selection of the controller only by a blank at its end
        # / only by letter case: not that alternative (skipped when the catalog already has a member of that name)
        last, others = nodes[c][1][-1], nodes[c][1][:-1]
        alts += [(f'rename-last-{how}',) for how in ('blank', 'case')
                 if near_name(last, how) != last and near_name(last, how) not in others]
        for a in alts:
            out.append({c: a})
    for ctrl, cs in by_ctrl.items():
        if len(cs) < 2:
            continue
        n = len(nodes[cs[0]][1])
        perms = [list(pm) for pm in list(itertools.permutations(range(n)))[1:]]
        for pm in perms:
            out.append({c: ('perm', pm) for c in cs})
        if tier == 'thorough':
            for c1, c2 in itertools.combinations(cs, 2):
                for p1 in perms:
                    for p2 in perms:
                        if p1 != p2:
                            out.append({c1: ('perm', p1), c2: ('perm', p2)})
    return [(alt, ctor) for alt in out for ctor in ('list', 'dict')]


def _orders(task, st, space, rec):
    from biogeme.configuration import Configuration
    from biogeme.exceptions import BiogemeError

    seed = task['seed']
    explicit = bool(task.get('explicit'))
    menus = controllers_of(st)
    ids = space.all_ids()
    case = {k: v for k, v in task.items() if k != 'fresh'}
    n_refused = n_accepted = 0
    for alt, ctor in order_variants(st, explicit, task['tier']):
        kinds = sorted({a[0] for a in alt.values()})
        where = ORDER_WHERE[kinds[0]]
        label = (f'{st["name"]}{" (every catalog under a declared controller)" if explicit else ""}, seed {seed}: '
                 f'catalogs {sorted(alt)} declared through {"Catalog.from_dict" if ctor == "dict" else "Catalog(list)"} with controlled_by '
                 f'and the members {({c: alter_names(cat_nodes(st)[c][1], a) for c, a in alt.items()})}; controllers {menus}')

        def ovio(clause, what, expected=None, observed=None, witness=None):
            key = f'C16|{clause}|{where}' + (f':names-{st["shape"]}' if st.get('shape') else '')
            rec.violation(key, f'[{label}] {what}', dict(case, key=key), expected=expected, observed=observed)

        term = rewrite_cats(st['term'], lambda nd: ('cat', nd[1], nd[2], alter_members(nd[3], alt[nd[1]])) if nd[1] in alt else nd)
        st2 = dict(st, term=term, menus=menus, ctor=ctor)
        ckey = ('orders', st['name'], explicit, tuple(sorted((c, repr(a)) for c, a in alt.items())), ctor)
        try:
            real = Real(st2, space, seed)
        except Exception as e:
            if not library_raised(e):
                raise
            # refused: an acceptable outcome
            n_refused += 1
            rec.case(ckey, ('refused', type(e).__name__), outcome=('orders', kinds[0], 'refused', isinstance(e, BiogemeError)))
            continue
        n_accepted += 1
        rec.case(ckey, ('accepted',), outcome=('orders', kinds[0], 'accepted'))
        if kinds[0] == 'drop-last' or kinds[0].startswith('rename-last'):
            ovio('catalog-cannot-take-the-alternative-of-its-controller',
                 'the catalog is accepted although it has no member for one of the selections of its controller',
                 'refused (BiogemeError)', 'accepted')
            continue
        # accepted: it must then behave like the formula written out by hand (alternatives matched by NAME)
        hand = Hand(st2, space, seed)
        try:
            for cid in ids + ids[::-1]:
                real.expr.configure_catalogs(Configuration.from_string(cid))
                real.check_state(cid, hand, rec, ovio, 2)
        except Exception as e:
            if not library_raised(e):
                raise
            if isinstance(e, RuntimeError):
                rec.retire = True
            ovio('accepted-catalog-cannot-be-configured', f'{type(e).__name__}: {e} (in {where_raised(e)})', None,
                 f'{type(e).__name__}: {e}')
    rec.count('orders_refused', n_refused)
    rec.count('orders_accepted', n_accepted)
    rec.sample(dict(part='orders', structure=st['name'], explicit=explicit, refused=n_refused, accepted=n_accepted))


def alter_names(names, alteration):
    return [mn for mn, _ in alter_members([(nm, None) for nm in names], alteration)]


# --------------------------------------------------------------------------- part 'treeops'
def real_treeop(expr, op):
    kind = op['op']
    if kind == 'none':
        return
    if kind == 'rename':
        if op['style'] == 'pos':
            expr.rename_elementary(list(op['names']), op['prefix'], op['suffix'])
        else:
            expr.rename_elementary(list(op['names']), prefix=op['prefix'], suffix=op['suffix'])
    elif kind == 'fix':
        if op['style'] == 'pos':
            expr.fix_betas(dict(op['values']), op['prefix'], op['suffix'])
        else:
            expr.fix_betas(dict(op['values']), prefix=op['prefix'], suffix=op['suffix'])
    elif kind == 'change':
        expr.change_init_values(dict(op['values']))
    else:
        raise KeyError(kind)


def within_assumptions(op, terms_now):
    """The new names of a renaming are neither listed for renaming themselves nor already in use."""
    if op['op'] not in ('rename', 'fix') or (op.get('prefix') is None and op.get('suffix') is None):
        return True
    listed = set(op['names'] if op['op'] == 'rename' else op['values'])
    present = {t[1] for tm in terms_now for t in leaves_of(tm)}
    new = {(op.get('prefix') or '') + nm + (op.get('suffix') or '') for nm in listed & present}
    return not (new & listed) and not (new & present)


def tree_observe(expr, db, names, probe, evaluate, tags=(), points=(0, 1)):
    """Every observer of the elementary expressions of a formula + text, engine values, signature."""
    from biogeme.expressions import TypeOfElementaryExpression as T
    out = {}
    out['sets'] = {t.name: sorted(expr.set_of_elementary_expression(t)) for t in T}
    out['dicts'] = {t.name: sorted((k, type(e).__name__, e.name, getattr(e, 'initValue', None), getattr(e, 'status', None))
                                   for k, e in expr.dict_of_elementary_expression(t).items()) for t in T}
    out['beta_values'] = dict(sorted(expr.get_beta_values().items()))
    got = {}
    for nm in probe:
        e = expr.get_elementary_expression(nm)
        got[nm] = None if e is None else (type(e).__name__, e.name)
    out['get'] = got
    # the remaining read-only tree operations (compared with the hand-written formula only)
    status = expr.get_status_id_manager()
    out['misc'] = dict(embed={c: bool(expr.embed_expression(c)) for c in EMBED_CLASSES}, draws=bool(expr.requires_draws()),
                       check_draws=sorted(expr.check_draws()), check_rv=sorted(expr.check_rv()),
                       panel=sorted(expr.check_panel_trajectory()), n_panel=expr.count_panel_trajectory_expressions(),
                       id_status=[sorted(set(status[0])), sorted(set(status[1]))])
    out['str'] = strip_catalog_tags(str(expr), tags)
    if evaluate:
        out.update(observe(expr, db, names, points=points))
    return out


EMBED_CLASSES = ('exp', 'log', 'Times', 'Plus', 'Minus', 'Divide', 'UnaryMinus', 'Power', 'PowerConstant', 'bioMin', 'bioMax',
                 'Elem', 'bioMultSum', 'LogLogit', '_bioLogLogit', '_bioLogLogitFullChoiceSet', 'Beta', 'Variable', 'Numeric',
                 'Greater', 'GreaterOrEqual', 'Equal', 'MonteCarlo', 'bioDraws', 'PanelLikelihoodTrajectory')
TREE_FIELDS = (('misc', 'other-observers'), ('sets', 'elementary-expressions'), ('dicts', 'elementary-expressions'), ('beta_values', 'elementary-expressions'),
               ('get', 'elementary-expressions'), ('str', 'text'), ('v0', 'value'), ('v1', 'value'), ('sig', 'signature'))


def _same(field, a, b):
    if field in ('v0', 'v1'):
        return len(a) == len(b) and all(close(x_, y_) for x_, y_ in zip(a, b))
    return a == b


def _treeops(task, st, space, rec):
    from biogeme.configuration import Configuration

    seed = task['seed']
    depth = task['depth']
    st = dict(st, ext_db=True)
    db = database(seed, ext=True)
    rows = table_rows(seed, ext=True)
    columns = set(ext_columns(seed))
    ids = space.all_ids()
    all_terms0 = [substitute(st['term'], st, ch) for ch in space.configs]
    ops, deep = treeop_alphabet(st, space, seed, task['tier'])
    sequences = [(o,) for o in ops] if depth == 1 else [hist for hist in itertools.product(deep, repeat=depth)]
    case = {k: v for k, v in task.items() if k != 'fresh'}
    ncases = 0
    import logging
    noisy = logging.getLogger('biogeme.expressions.beta_parameters')   # "Parameter .. is fixed, but its value is changed"
    level = noisy.level
    noisy.setLevel(logging.ERROR)
    try:
        _treeops_loop(task, st, space, rec, seed, depth, db, rows, columns, ids, all_terms0, sequences, case)
    finally:
        noisy.setLevel(level)


def _treeops_loop(task, st, space, rec, seed, depth, db, rows, columns, ids, all_terms0, sequences, case):
    from biogeme.configuration import Configuration

    ncases = 0
    for cid in task['cids']:
        ci = ids.index(cid)
        choice = space.parse(cid)
        pred = ids[(ci + 1) % len(ids)]
        for si, seq in enumerate(sequences):
            # ---- reference model: the operations applied to the formula written out by hand
            term, terms_now, resolved = all_terms0[ci], all_terms0, []
            for op in seq:
                op = resolve_op(op, terms_now)
                if not within_assumptions(op, terms_now):
                    resolved = None
                    break
                resolved.append(op)
                term = ref_treeop(term, op)
                terms_now = [ref_treeop(tm, op) for tm in terms_now]
            if resolved is None:
                rec.count('treeops_skipped_new_name_listed_or_in_use')
                continue
            want = ref_elementary(term)
            names = beta_names(term)
            probe = sorted(want['names'] | {t[1] for t in leaves_of(all_terms0[ci])} | {'absent'})
            evaluate = set(want['sets']['VARIABLE']) <= columns
            if not evaluate:
                rec.count('treeops_not_evaluated_no_such_column')
            want['get'] = {nm: ((want['kinds'][nm], nm) if nm in want['names'] else None) for nm in probe}
            if evaluate:
                for which in (0, 1):
                    pt = point(names, which) or {}
                    try:
                        want[f'v{which}'] = [ref_eval(term, row, pt) for row in rows]
                    except OutOfDomain:
                        want[f'v{which}'] = None
                        rec.count('treeops_value_out_of_domain')
            # finding key: the operation (depth 1) / 'history' (depth >= 2) + the group of observers; details go into the text
            kinds = op_label(resolved[0]).split(':')[0] if depth == 1 else 'history-of-tree-operations'
            text = f'in {cid!r} (selected after {pred!r}): ' + ' ; '.join(
                f'{o["op"]}({ {k: v for k, v in o.items() if k != "op"} })' for o in resolved)

            def tvio(clause, field, what, expected, observed):
                key = f'C16|{clause}|{kinds}:{field}'
                rec.violation(key, f'[{st["name"]}, seed {seed}] {text}: {what}', dict(case, key=key),
                              expected=expected, observed=observed)

            # ---- the hand-written formula on the real library, the same operations applied to it
            def run_hand():
                hb = Built(dict(st, leaves='fresh'), choice)
                for o in resolved:
                    real_treeop(hb.expr, o)
                return tree_observe(hb.expr, db, names, probe, evaluate)

            hand_obs = _grab_lib(run_hand, rec)
            changed = term != all_terms0[ci]
            for mode in task.get('modes') or TREE_MODES:
                real = Real(dict(st, leaves='fresh' if mode == 'copy' else mode), space, seed)

                def run_real():
                    real.expr.configure_catalogs(Configuration.from_string(pred))
                    real.expr.configure_catalogs(Configuration.from_string(cid))
                    target = real.expr
                    if mode == 'copy':
                        # the operations are applied to a deep copy of the configured formula (as the sampling of
                        # alternatives does before renaming the attributes); the copy is the object observed
                        import copy
                        target = copy.deepcopy(real.expr)
                    for o in resolved:
                        real_treeop(target, o)
                    # engine values: at the initial values in every mode; at the second parameter point with 'fresh'
                    got = tree_observe(target, db, names, probe, evaluate, real.catalog_tags(),
                                       points=(0, 1) if mode == 'fresh' else (0,))
                    got['current'] = target.current_configuration().get_string_id()
                    return got

                obs = _grab_lib(run_real, rec)
                ncases += 1
                bad = []
                if isinstance(obs, _Failed) or isinstance(hand_obs, _Failed):
                    if isinstance(obs, _Failed) and not isinstance(hand_obs, _Failed):
                        bad.append('raised')
                        tvio('tree-operation-result-differs-from-hand-written', 'raises',
                             f'[{mode} elementary objects] the formula with catalogs raised {obs!r}; the hand-written formula does not',
                             'no exception', repr(obs))
                    elif isinstance(hand_obs, _Failed) and not isinstance(obs, _Failed):
                        bad.append('hand-raised')
                        tvio('tree-operation-result-differs-from-hand-written', 'raises',
                             f'[{mode} elementary objects] the hand-written formula raised {hand_obs!r}; the formula with catalogs does not',
                             repr(hand_obs), 'no exception')
                    else:
                        rec.count('treeops_both_sides_raise')
                else:
                    # the selection must not have moved
                    if obs['current'] != cid:
                        bad.append('current')
                        tvio('current-configuration-differs', 'selection', f'[{mode}] current_configuration() = {obs["current"]!r}', cid,
                             obs['current'])
                    if mode != 'copy':
                        real.check_state(cid, None, rec, lambda clause, what, e=None, o=None, witness=None:
                                         tvio(clause, 'selection', what, e, o), 0)
                    for field, group in TREE_FIELDS:
                        if field not in hand_obs or field not in obs:
                            continue
                        if not _same(field, obs[field], hand_obs[field]):
                            bad.append(field)
                            tvio('tree-operation-result-differs-from-hand-written', group,
                                 f'[{mode} elementary objects] {field}: formula with catalogs {obs[field]!r}; hand-written formula after the '
                                 f'same operations {hand_obs[field]!r}', hand_obs[field], obs[field])
                        elif field in want and want[field] is not None and not _same(field, obs[field], want[field]):
                            bad.append(field + '/model')
                            tvio('tree-operation-result-differs-from-reference-model', group,
                                 f'[{mode} elementary objects] {field}: formula with catalogs and hand-written formula {obs[field]!r}; '
                                 f'reference model {want[field]!r}', want[field], obs[field])
                rec.case(('tree', st['name'], cid, mode, si, depth) if changed or si == 0 else None,
                         (cid, mode, si, None if isinstance(obs, _Failed) else (obs['sets'], obs['beta_values'], obs['str'], obs.get('v0'))),
                         outcome=('tree', op_label(resolved[0]) if depth == 1 else kinds, not bad))
    rec.sample(dict(part='treeops', structure=st['name'], configurations=task['cids'], depth=depth, histories=len(sequences),
                    cases=ncases))


def _grab_lib(fn, rec):
    """Result of fn(), or a _Failed when LIBRARY code raised (an engine error retires the worker)."""
    try:
        return fn()
    except Exception as e:
        if not library_raised(e):
            raise
        if isinstance(e, RuntimeError):
            rec.retire = True
        return _Failed(e)


# --------------------------------------------------------------------------- part 'intkinds'
# kinds of integers a step / an index is given as: an integer is an integer whatever its type (numbers drawn with a numpy
# generator, elements of numpy.arange, sizes of arrays, members of an IntEnum, booleans); the reference model sees int(value)
INT_KINDS = ('int64', 'int32', 'intp', 'int16', 'int8', 'intc', 'longlong', 'arange-element',
             'uint8', 'uint16', 'uint32', 'uint64', 'int-subclass', 'bool')


# quick tier: without the aliases of int64 / int32 on this platform (intp, longlong, intc) and without uint32
INT_KINDS_QUICK = tuple(k_ for k_ in INT_KINDS if k_ not in ('intp', 'intc', 'longlong', 'uint32'))


class _IntSub(int):
    """A subclass of int (as the members of an IntEnum are)."""
    __slots__ = ()


def int_group(kind):
    if kind in ('int-subclass', 'bool'):
        return 'python-int-subclass'
    return 'numpy-unsigned-integer' if kind.startswith('uint') else 'numpy-signed-integer'


def as_int_kind(kind, v):
    """The integer v as an object of that kind (None: v is not a value of that kind)."""
    if kind == 'int':
        return int(v)
    if kind == 'bool':
        return bool(v) if v in (0, 1) else None
    if kind == 'int-subclass':
        return _IntSub(v)
    import numpy as np
    if kind == 'arange-element':
        out = np.arange(v, v + 1)[0]
    else:
        tp = getattr(np, kind)
        info = np.iinfo(tp)
        if not info.min <= v <= info.max:
            return None
        out = tp(v)
    if int(out) != v or not isinstance(out, np.integer):
        raise RuntimeError(f'alphabet error: {v!r} as {kind} is {out!r}')
    return out


def _intkinds(task, st, space, rec):
    """Every operator (through prepare_operators and through the method behind it) x step alphabet x kind of integer the
    step is given as, from every configuration; increase-then-decrease with such steps; every selection by index
    (select_expression, CentralController.set_controller, Controller.set_index) x kind of integer, followed by operators on
    the Configuration object the library makes in that state.  The reference model sees int(step) / int(index)."""
    import operator as _operator
    import warnings
    from biogeme.configuration import Configuration

    seed = task['seed']
    real = Real(st, space, seed)
    hand = Hand(st, space, seed)
    expr = real.expr
    expr.set_central_controller()
    cc = expr.central_controller
    ops = cc.prepare_operators()
    ids = space.all_ids()
    idset = set(ids)
    kinds = tuple(task.get('kinds') or INT_KINDS)
    case = {k: v for k, v in task.items() if k != 'fresh'}
    deep_seen, text_seen = set(), set()
    napp = 0
    full = task['tier'] == 'thorough'

    def kvio(role, kind):
        def vio(clause, what, expected=None, observed=None, witness=None):
            # the handling of a kind of integer does not depend on the formula: the key names the role and the kind's family
            key = f'C16|{clause}|{role}-given-as-{int_group(kind)}'
            rec.violation(key, f'[{st["name"]}, seed {seed}; {role} given as {kind}] {what}', dict(case, key=key),
                          expected=expected, observed=observed)
        return vio

    def level_for(kind, cid):
        if (int_group(kind), cid) not in deep_seen:
            deep_seen.add((int_group(kind), cid))
            return 2
        if (kind, cid) not in text_seen:
            text_seen.add((kind, cid))
            return 1
        return 0

    def method_call(desc, conf, k):
        if desc[0] == 'inc':
            return cc.increased_controller(desc[1], conf, k)
        if desc[0] == 'dec':
            return cc.decreased_controller(controller_name=desc[1], current_config=conf, step=k)
        if desc[0] == 'pair':
            return cc.two_controllers(desc[1], desc[2], desc[3], conf, k)
        return cc.modify_random_controllers(desc[1], conf, k)

    def integral(v):
        try:
            _operator.index(v)
            return True
        except TypeError:
            return False

    with warnings.catch_warnings():
        warnings.simplefilter('ignore')      # numpy announces an overflow of a scalar with a RuntimeWarning; the RESULT is judged
        for cid in task['starts']:
            choice = space.parse(cid)
            # ---- A. the operators ---------------------------------------------------------------------------------------
            for opname in sorted(ops):
                try:
                    desc = space.op_desc(opname)
                except KeyError:
                    continue                     # the menu of operators is checked by the part 'ops'
                okind = _op_kind(desc)
                steps = space.steps_for(desc) if desc[0] != 'several' else sorted({0, 1, 2, len(space.names) + 1})
                for step in steps:
                    for kind in kinds:
                        k = as_int_kind(kind, step)
                        if k is None:
                            rec.count('intkinds_value_not_of_that_kind')
                            continue
                        vio = kvio('step', kind)
                        for entry in ('operator', 'method'):
                            if entry == 'method' and not full and step not in (1, 2, steps[-1]):
                                continue             # quick tier: the methods behind the operators with 3 steps only
                            def run():
                                arg = Configuration.from_string(cid)
                                new, nsteps = ops[opname](arg, k) if entry == 'operator' else method_call(desc, arg, k)
                                return new.get_string_id(), nsteps, arg.get_string_id(), real.cheap_state()

                            for picked, tape, res in all_answers(run):
                                rec.transition()
                                napp += 1
                                ckey = ('intstep', st['name'], cid, opname, step, kind, entry, tape)
                                if isinstance(res, Raised):
                                    rec.case(ckey, (cid, opname, step, kind, entry, tape, res.text), outcome=('intstep', 'raised'))
                                    vio('operator-raises-on-a-valid-configuration',
                                        f'{opname} ({entry}) ({cid!r}, step {k!r}, random answer {picked}) raised {res.text}; with the '
                                        f'step {step} it gives {[space.cid(c) for c in space.apply(choice, desc, step, picked)]}',
                                        'a configuration', res.text)
                                    continue
                                new_id, nsteps, arg_after, (cur, sel) = res
                                accept = [space.cid(c) for c in space.apply(choice, desc, step, picked)]
                                rec.case(ckey if new_id != cid else None, (cid, opname, step, kind, entry, tape, new_id, int(nsteps) if integral(nsteps) else repr(nsteps)),
                                         outcome=('intstep', okind, new_id in accept))
                                if new_id not in idset:
                                    vio('operator-leaves-the-product', f'{opname} ({entry}) ({cid!r}, step {k!r}, answer {picked}) = {new_id!r}',
                                        sorted(idset), new_id)
                                    continue
                                rec.state((st['name'], new_id))
                                if new_id not in accept:
                                    vio('operator-result-differs-from-model',
                                        f'{opname} ({entry}) ({cid!r}, step {k!r}, random answer {picked}) = {new_id!r}; reference model (and the '
                                        f'same call with the step {step}) {accept}', accept, new_id)
                                    continue
                                if arg_after != cid:
                                    vio('operator-alters-its-argument', f'{opname} changed its argument {cid!r} into {arg_after!r}', cid, arg_after)
                                if desc[0] == 'several' and len(picked) != max(0, min(step, len(space.names))):
                                    # the reference model (RefSpace.reach): min(step, number of controllers) controllers are drawn
                                    vio('operator-result-differs-from-model', f'{opname} ({entry}) ({cid!r}, step {k!r}) drew {len(picked)} '
                                        f'controllers {picked}; reference model (and the same call with the step {step}) '
                                        f'{max(0, min(step, len(space.names)))}', max(0, min(step, len(space.names))), len(picked))
                                if not integral(nsteps):
                                    vio('operator-result-differs-from-model', f'{opname} reports {nsteps!r} modifications', 'an integer', repr(nsteps))
                                if cur != new_id:
                                    vio('object-state-differs-from-returned-configuration', f'after {opname}({cid!r}, {k!r}): object in {cur!r}, '
                                        f'returned {new_id!r}', new_id, cur)
                                else:
                                    real.check_state(new_id, hand, rec, vio, level_for(kind, new_id))
            # ---- B. increase then decrease (and decrease then increase) by the same step of that kind -----------------------
            for c in space.names:
                s = len(space.ctrl[c])
                for step in sorted({0, 1, 2, 3, s - 1, s, s + 1, 2 * s + 1}):
                    for kind in kinds:
                        k = as_int_kind(kind, step)
                        if k is None:
                            continue
                        vio = kvio('step', kind)
                        for first, second, sign in ((f'Increase {c}', f'Decrease {c}', 1), (f'Decrease {c}', f'Increase {c}', -1)):
                            if first not in ops or second not in ops:
                                continue
                            try:
                                mid, _ = ops[first](Configuration.from_string(cid), k)
                                back, _ = ops[second](mid, k)
                            except Exception as e:
                                if not library_raised(e):
                                    raise
                                rec.case(('intinv', st['name'], cid, first, step, kind), (cid, first, step, kind, type(e).__name__),
                                         outcome=('intinv', 'raised'))
                                vio('operator-raises-on-a-valid-configuration', f'{second}({first}({cid!r}, {k!r}), {k!r}) raised '
                                    f'{type(e).__name__}: {e}', cid, type(e).__name__)
                                continue
                            rec.transition(2)
                            mid_id, back_id = mid.get_string_id(), back.get_string_id()
                            want_mid = space.cid(space.move(choice, c, sign * step))
                            rec.case(('intinv', st['name'], cid, first, step, kind) if want_mid != cid else None,
                                     (cid, first, step, kind, mid_id, back_id), outcome=('intinv', back_id == cid))
                            if mid_id != want_mid:
                                # the single application is wrong: the same root cause as (and reported like) part A
                                vio('operator-result-differs-from-model', f'{first}({cid!r}, {k!r}) = {mid_id!r}; reference model {want_mid!r}',
                                    want_mid, mid_id)
                            elif back_id != cid:
                                # mid is right: either the second application is wrong by itself (root cause as in part A) ...
                                alone = ops[second](Configuration.from_string(mid_id), k)[0].get_string_id()
                                if alone != cid:
                                    vio('operator-result-differs-from-model', f'{second}({mid_id!r}, {k!r}) = {alone!r}; reference model {cid!r}',
                                        cid, alone)
                                else:      # ... or only when it is given the object made by the first one
                                    vio('increase-then-decrease-is-not-identity', f'{second}({first}({cid!r}, {k!r}), {k!r}) = {back_id!r} '
                                        f'via {mid_id!r}', cid, back_id)
                            elif back_id in idset:
                                real.check_state(back_id, hand, rec, vio, 0)
            # ---- C. selection by index ---------------------------------------------------------------------------------------
            for c in space.names:
                ctrl_obj = cc.dict_of_controllers.get(c)
                size = len(space.ctrl[c])
                for idx in list(range(size)) + [-1, size, size + 7]:
                    valid = 0 <= idx < size
                    for kind in kinds:
                        k = as_int_kind(kind, idx)
                        if k is None:
                            continue
                        vio = kvio('index', kind)
                        for entry in ('select_expression', 'set_controller', 'set_index'):
                            if entry == 'set_index' and ctrl_obj is None:
                                continue                 # the controllers are compared with the description by the part 'static'
                            expr.configure_catalogs(Configuration.from_string(cid))
                            try:
                                if entry == 'select_expression':
                                    expr.select_expression(c, k)
                                elif entry == 'set_controller':
                                    cc.set_controller(c, k)
                                else:
                                    ctrl_obj.set_index(k)
                                raised = None
                            except Exception as e:
                                if not library_raised(e):
                                    raise
                                raised = f'{type(e).__name__}: {e}'
                            rec.transition()
                            ckey = ('intidx', st['name'], cid, c, idx, kind, entry)
                            if not valid:
                                # an invalid request: refused, the object as it was (as for Python's int in the part 'static')
                                rec.case(None, (cid, c, idx, kind, entry, raised is not None), outcome=('intidx', 'out-of-range', raised is not None))
                                if raised is None:
                                    vio('out-of-range-index-accepted', f'in {cid!r}: {entry}({c!r}, {k!r}) accepted; the controller has '
                                        f'{size} selections', 'refused', 'accepted')
                                real.check_state(cid, hand, rec, vio, 0)
                                continue
                            want = space.cid(dict(choice, **{c: idx}))
                            if raised is not None:
                                rec.case(ckey, (cid, c, idx, kind, entry, raised), outcome=('intidx', 'raised'))
                                vio('valid-index-refused', f'in {cid!r}: {entry}({c!r}, {k!r}) raised {raised}; with the index {idx} it selects '
                                    f'{want!r}', want, raised)
                                continue
                            canon = real.check_state(want, hand, rec, vio, level_for(kind, want))
                            rec.state((st['name'], want))
                            rec.case(ckey if want != cid else None, (cid, c, idx, kind, entry, canon), outcome=('intidx', st['name'], want))
                            # the history goes on: the Configuration object the library makes in that state, and operators on it
                            conf = expr.current_configuration()
                            fresh = Configuration.from_string(want)
                            if not (conf == fresh and fresh == conf and hash(conf) == hash(fresh) and conf.get_string_id() == want):
                                vio('equal-configurations-compare-or-hash-unequal', f'in {cid!r} after {entry}({c!r}, {k!r}): '
                                    f'current_configuration() = {conf.get_string_id()!r} is not the configuration {want!r}', want, conf.get_string_id())
                                continue
                            if entry != 'select_expression':
                                continue
                            for c2 in space.names:
                                for opn, sign in ((f'Increase {c2}', 1), (f'Decrease {c2}', -1)):
                                    if opn not in ops:
                                        continue
                                    for j2, k2 in enumerate((1, as_int_kind(kind, 1))):
                                        expr.configure_catalogs(Configuration.from_string(cid))
                                        expr.select_expression(c, k)          # the state the object is given from
                                        try:
                                            got = ops[opn](expr.current_configuration(), k2)[0].get_string_id()
                                        except Exception as e:
                                            if not library_raised(e):
                                                raise
                                            got = f'{type(e).__name__}: {e}'
                                        rec.transition()
                                        wnt = space.cid(space.move(space.parse(want), c2, sign))
                                        rec.case(None, (cid, c, idx, kind, opn, repr(k2), got), outcome=('intidx-op', got == wnt))
                                        if got != wnt:
                                            # a step of that kind: the root cause (and the key) of part A
                                            (vio if j2 == 0 else kvio('step', kind))(
                                                'operator-result-differs-from-model', f'in {cid!r}: select_expression({c!r}, {k!r}) ; '
                                                f'{opn}(current_configuration(), {k2!r}) = {got!r}; reference model {wnt!r}', wnt, got)
    rec.sample(dict(part='intkinds', structure=st['name'], starts=task['starts'], kinds=list(kinds), operator_applications=napp))


# --------------------------------------------------------------------------- part 'refused'
def _refused(task, st, space, rec):
    """Invalid requests (a configuration naming an unknown selection / an unknown controller / lacking a controller, an
    operator given such a configuration, an operator method given an unknown controller or direction) with the object in
    EVERY configuration x EVERY configuration the request is derived from.  The statement says nothing about what such a
    request does (refused or not, applied in part or not - both are counted): only that the object stays INSIDE the product -
    afterwards it is in one configuration of the product, every catalog on the member of its controller, the formula that
    of the hand-written one - and that the operators go on from there as the reference model says."""
    from biogeme.configuration import Configuration

    seed = task['seed']
    real = Real(st, space, seed)
    hand = Hand(st, space, seed)
    expr = real.expr
    expr.set_central_controller()
    cc = expr.central_controller
    ops = cc.prepare_operators()
    ids = space.all_ids()
    idset = set(ids)
    case = {k: v for k, v in task.items() if k != 'fresh'}
    names = space.names
    all_sel = sorted({s_ for v in space.ctrl.values() for s_ in v})
    nreq = 0

    def rvio_for(request):
        def vio(clause, what, expected=None, observed=None, witness=None):
            key = f'C16|{clause}|after-invalid-request:{request}'
            rec.violation(key, f'[{st["name"]}, seed {seed}] {what}', dict(case, key=key), expected=expected, observed=observed)
        return vio

    def bad_configurations(choice):
        """(label, identifier) of the invalid configurations derived from one configuration."""
        pairs = [(c, space.ctrl[c][choice[c]]) for c in names]
        out = []
        for i, (c, s_) in enumerate(pairs):
            foreign = [x for x in all_sel if x not in space.ctrl[c]]
            for bad in ['zzz~'] + foreign[:1]:
                out.append(('unknown-selection', pairs[:i] + [(c, bad)] + pairs[i + 1:]))
            if len(pairs) >= 2:
                out.append(('controller-missing', pairs[:i] + pairs[i + 1:]))
        for extra in ('!nope', '~nope'):
            out.append(('unknown-controller', pairs + [(extra, all_sel[0])]))
        return [(lab, SEP.join(f'{c}{SELSEP}{s_}' for c, s_ in p)) for lab, p in out]

    def requests(t_choice):
        t_id = space.cid(t_choice)
        for lab, bad_id in bad_configurations(t_choice):
            yield f'configuration-with-{lab}', f'configure_catalogs({bad_id!r})', \
                lambda b=bad_id: expr.configure_catalogs(Configuration.from_string(b))
            yield f'configuration-with-{lab}', f'set_configuration_from_id({bad_id!r})', \
                lambda b=bad_id: cc.set_configuration_from_id(b)
            for opn in (f'Increase {names[0]}', f'Decrease {names[-1]}'):
                if opn in ops:
                    yield f'operator-given-a-configuration-with-{lab}', f'{opn}({bad_id!r}, 1)', \
                        lambda b=bad_id, o=opn: ops[o](Configuration.from_string(b), 1)
        yield 'operator-on-an-unknown-controller', f'increased_controller("nope~", {t_id!r}, 1)', \
            lambda: cc.increased_controller('nope~', Configuration.from_string(t_id), 1)
        yield 'operator-on-an-unknown-controller', f'decreased_controller("nope~", {t_id!r}, 2)', \
            lambda: cc.decreased_controller('nope~', Configuration.from_string(t_id), 2)
        yield 'operator-on-an-unknown-controller', f'set_controller("nope~", 0)', lambda: cc.set_controller('nope~', 0)
        if len(names) >= 1:
            yield 'operator-on-an-unknown-controller', f'two_controllers({names[0]!r}, "nope~", "NE", {t_id!r}, 1)', \
                lambda: cc.two_controllers(names[0], 'nope~', 'NE', Configuration.from_string(t_id), 1)
            yield 'operator-on-an-unknown-controller', f'two_controllers("nope~", {names[-1]!r}, "SW", {t_id!r}, 1)', \
                lambda: cc.two_controllers('nope~', names[-1], 'SW', Configuration.from_string(t_id), 1)
        if len(names) >= 2:
            yield 'operator-with-an-unknown-direction', f'two_controllers({names[0]!r}, {names[1]!r}, "N", {t_id!r}, 1)', \
                lambda: cc.two_controllers(names[0], names[1], 'N', Configuration.from_string(t_id), 1)

    for s_id in ids:
        for t_choice in space.configs:
            for request, text, call in requests(t_choice):
                vio = rvio_for(request)
                expr.configure_catalogs(Configuration.from_string(s_id))
                try:
                    call()
                    refused = None
                except Exception as e:
                    if not library_raised(e):
                        raise
                    refused = type(e).__name__
                nreq += 1
                rec.transition()
                try:
                    cur, _ = real.cheap_state()
                except Exception as e:
                    if not library_raised(e):
                        raise
                    rec.case(('refused', st['name'], s_id, text), (s_id, text, refused, type(e).__name__), outcome=('refused', request, 'no-state'))
                    vio('invalid-request-leaves-the-product', f'object in {s_id!r}: after {text} ({"refused: " + refused if refused else "accepted"}) '
                        f'the object is in no configuration: current_configuration() / the selected members raise {type(e).__name__}: {e}',
                        sorted(idset), f'{type(e).__name__}: {e}')
                    real = Real(st, space, seed)            # a new object for the rest of the exploration
                    expr = real.expr
                    expr.set_central_controller()
                    cc = expr.central_controller
                    ops = cc.prepare_operators()
                    continue
                rec.count('invalid_request_refused' if refused else 'invalid_request_accepted')
                if cur != s_id:
                    rec.count('invalid_request_moved_the_selection')
                rec.case(('refused', st['name'], s_id, text) if cur != s_id else None, (s_id, text, refused, cur),
                         outcome=('refused', request, refused, cur == s_id))
                if cur not in idset:
                    vio('invalid-request-leaves-the-product', f'object in {s_id!r}: after {text} ({"refused: " + refused if refused else "accepted"}) '
                        f'current_configuration() = {cur!r}, not a configuration of the product', sorted(idset), cur)
                    continue
                rec.state((st['name'], cur))
                real.check_state(cur, hand, rec, lambda clause, what, e=None, o=None, witness=None:
                                 vio(clause, f'object in {s_id!r}: after {text} ({"refused: " + refused if refused else "accepted"}): {what}', e, o), 1)
                # the history goes on from there
                opn = f'Increase {names[-1]}'
                if opn in ops:
                    try:
                        got = ops[opn](expr.current_configuration(), 1)[0].get_string_id()
                    except Exception as e:
                        if not library_raised(e):
                            raise
                        got = f'{type(e).__name__}: {e}'
                    wnt = space.cid(space.move(space.parse(cur), names[-1], 1))
                    rec.transition()
                    if got != wnt:
                        vio('operator-result-differs-from-model', f'object in {s_id!r}: {text} ; {opn}(current_configuration(), 1) = {got!r}; '
                            f'reference model from {cur!r}: {wnt!r}', wnt, got)
    rec.sample(dict(part='refused', structure=st['name'], requests=nreq, counts={k: v for k, v in rec.counts.items() if k.startswith('invalid_request')}))


def on_abort(task, info):
    """The worker process died while exploring a valid structure: an observed outcome of the library/engine."""
    key = f'C16|process-aborted-on-a-valid-structure|{task.get("st")}'
    return dict(key=key, what=f'[{task.get("st")}] the process died (exit {info.get("exitcode")}) during part {task.get("part")}: '
                f'{(info.get("log_tail") or "")[-300:]}', case=dict({k: v for k, v in task.items() if k != 'fresh'}, key=key),
                expected='no abort', observed=f'exit {info.get("exitcode")}')


# =========================================================================== cross-task oracle
def finalize(agg, tier, seed):
    sts = structures(seed) + ([thorough_only(seed)] if tier == 'thorough' else [])
    sts = sts + shaped_structures(tier, seed)         # part 'names': every shaped structure runs (at least) the part 'static'
    want = sum(RefSpace(st).size() for st in sts)
    agg.counts['configurations_in_all_products'] = want
    agg.counts['structures'] = len(sts)
    agg.counts['traces_validated'] = agg.transitions
    if not agg.harness_errors and len(agg.states) != want:
        agg.violations.append(dict(
            key='C16|states-reached-differ-from-product|all-structures',
            what=f'{len(agg.states)} distinct (structure, configuration) states reached, the products hold {want}',
            case=dict(part='finalize', seed=seed, tier=tier, key='C16|states-reached-differ-from-product|all-structures'),
            expected=want, observed=len(agg.states)))


# =========================================================================== replay
def replay(case):
    if case.get('part') == 'finalize':
        out = []
        for st in structures(case['seed']):
            for part in ('static',):
                r = run_task(dict(part=part, st=st['name'], seed=case['seed'], tier=case.get('tier', 'quick')), _raw=True)
                out += r.violations
        return out
    task = {k: v for k, v in case.items() if k != 'key'}
    rec = run_task(task, _raw=True)
    same = [v for v in rec.violations if v['key'] == case.get('key')]
    return same or rec.violations
