"""C14 — what is written to disk reads back unchanged and never overwrites earlier output.

Bounded exhaustive exploration on the real code:
 (i)   pickle round trip: every results object of a family of real tiny estimations (1-3 parameters,
       fixed parameter, active bound, with / without bootstrap, adversarial parameter names) ->
       write_pickle -> bioResults(pickle_file=...) -> every field, table and report must be identical;
       plus estimate(generate_pickle) -> fresh BIOGEME.estimate(recycle=True);
 (ii)  parameter file: every parameter of the default set x every value of a per-type alphabet, one
       deviation from the defaults at a time and all pairs of deviations (quick: pairs inside a section)
       -> dump_file -> independent parse (stdlib tomllib) -> read_file in a fresh object -> BIOGEME(parameters=file);
       hand-written files with every accepted boolean spelling;
 (iii) reports: get_html / get_latex / get_f12 / __str__ / the parameter table are parsed by an independent
       reader and must list every estimated parameter exactly once with its value;
 (n)   every pre-state of the naming helpers (each of name.ext, name~00..~02 absent / file / directory /
       dangling link) against the documented rule;
 (iv)  BFS over output-generation histories in pre-populated directories against a reference model of the
       directory: after every step every earlier entry is byte-identical, the reported name did not exist,
       the set of new names is the one the reference predicts, the new file reads back, and
       estimate(recycle=True) returns the results written last;
 (w)   writer histories: every sequence (bounded length) of write_pickle / write_html / write_latex / write_f12 /
       dump_on_file on one results object / database x an alphabet of model names (blanks, dots, '~', non-ASCII,
       leading / trailing blank, long) x pre-populated directories (empty, own earlier files, files of neighbour
       models whose names are the usual sanitised forms of the model name): after every write every earlier entry
       is byte-identical, the reported name did not exist before, is the one new entry and reads back;
 (p)   histories on ONE Parameters object: every sequence (bounded length) of set_value / dump_file(new file) /
       read_file(earlier dump | pre-existing full file | hand-written partial file) against a reference dictionary:
       after every step get_value agrees with the reference, every dumped file parses (tomllib) to the current
       values and a fresh object reads them back;
 (L)   long histories for ONE output name in ONE directory: outputs number 1, 2, ..., N (N = 135 quick, 1100 thorough:
       beyond the two-digit and the three-digit range of the ~NN numbering) through every entry point that asks for a
       fresh name (get_new_file_name itself x extensions x model names, write_pickle / write_html / write_latex /
       write_f12 / dump_on_file, all five in rounds, create_backup copy / rename; estimate(html+pickle), estimate(pickle),
       validate at the boundary lengths with the naming function in between) x directory patterns (files only; files /
       directories / dangling links; the user deletes earlier outputs; a second model whose name is this one's first
       numbered name): at EVERY length the name handed out did not exist, every earlier entry is untouched, the new
       entries are the reported ones; at the boundary lengths contents are re-hashed, the pickle reads back and
       estimate(recycle=True) returns the results written last;
 parts (i) and (iii) also run for the other kinds of results objects: quick_estimate() (no derivatives, hence no
       statistics), quick_estimate() after a bootstrap run on the same object (bootstrap matrix, no derivatives) and
       estimate() after calculate_null_loglikelihood() (null-model statistics); the printed form is also checked on the
       re-read object and on the object after it has written its files (file-name fields set);
 part (i) is run for every identification threshold of a small per-seed alphabet (the threshold is the one
       configuration value that shapes the reports of a results object): direct load and estimate(recycle=True)
       by an identically configured BIOGEME object must give the same reports;
 (fig) every FIGURE of every report format over a magnitude / special-value alphabet: results objects whose estimates
       take every value of an alphabet (mantissas that print with one, three or a carried digit x 10^-7 .. 10^+7, both
       signs, exact integers, +-0, nan, +-inf) x standard errors x correlations x robust / Rao-Cramer ratios x with /
       without a bootstrap matrix (synthetic raw results handed to bioResults, K = 2 and 3), the degenerate shapes of
       the second-derivative matrix (singular, not negative definite, nan in BHHH) and real estimations whose active
       bound is an alphabet value: in get_html / get_latex (both variants), get_f12 (both variants) and the printed
       form every token printed for an estimate, a standard error, t, p, a covariance or a correlation must parse as
       a number that equals the figure of the results object to the precision of the format (independent reader
       vf/ref_reports.py); a subset is saved and loaded again and must give the same reports; the same oracle runs on
       the real results objects of part (iii) with plain names;
 (vt)  value TYPES of a parameter: every parameter of the default set x a type alphabet (Python bool / int / float / str,
       numpy integer / float / bool / str scalars, inf, nan): every value that set_value accepts must survive
       dump_file -> tomllib -> read_file in a fresh object.
 (R)   MODEL NAMES as a dimension of the recycling histories: two models A and B whose names are RELATED (the name of A
       reads as a file-name pattern - [set] [range] [!set] * ? - that matches the name of B; A's name is a prefix of B's;
       B's name is A's name followed by '~...') write into ONE directory: every sequence (bounded length) of write_pickle /
       estimate(html + pickle) (thorough: / the user deletes the model's most recent pickle) by either model; after every
       step nothing earlier is touched, the reported names are the new entries, the pickle reads back, and for BOTH models
       estimate(recycle=True) and recycled_estimation() return the results that model saved last (a model that saved
       nothing estimates its own model and never receives the other model's results), files_of_type('pickle') lists every
       file the model saved and none of the other model's; the same names in part (n) and in the long histories (L);
 (fn)  the parameter-file round trip under an alphabet of FILE NAMES (blanks, dots, non-ASCII, brackets, '~', hidden, no
       extension, sub-directory, long); names that read_file documents as invalid (< > : " / backslash | ? *) are counted as outside;
 part (iii), results objects without derivatives: a writer that produces no report must not leave a report file of the
       model behind that lists no parameter.
"""
from __future__ import annotations

import hashlib
import itertools
import json
import math
import os
import re
import struct

from vf.rec import Rec

ID = 'C14'
LEVEL = 'model_checking'
TECHNIQUE = ('explicit-state BFS over output-generation histories in pre-populated scratch directories, each step '
             'executed on the real code and compared with a reference model of the directory; bounded exhaustive '
             'enumeration of round trips (pickle, TOML parameter file, report listings) against independent readers; '
             'exhaustive bounded-length operation histories on one results object (writers x model-name alphabet x '
             'pre-populated directories) and on one Parameters object (set / dump / read) against a reference dictionary; '
             'long single-name histories (every length 1..N, N beyond the 2- and 3-digit numbering) through every entry '
             'point that asks for a fresh name, against a reference model of the directory; bounded exhaustive '
             'enumeration of results objects over a magnitude / special-value alphabet of their figures, every printed '
             'token of every report format read by an independent reader; enumeration of the value-type alphabet of '
             'every parameter through the TOML round trip; depth-first enumeration of all bounded write / estimate / delete '
             'histories of TWO models with related names (pattern characters, prefixes, tilde) in one directory, both '
             'models recycling after every step, against a reference model that records who saved what and when')
RULE = ('(i) one case per (model kind, name pool, bootstrap) results object and compared artefact; (ii) one case per '
        'set of <=2 deviations (parameter, value) from the default parameter set, non-trivial when the file differs '
        'from the default file; hand-written files: one case per (boolean parameter, spelling); (iii) one case per '
        '(results object, report writer); (n) one case per assignment absent/file/dir/link to the 4 candidate names; '
        '(iv) one case per (root directory, operation history) step, merged on the canonical state = sorted '
        '(entry name, type, content hash) + file-name fields of the results object + current start values; a step is '
        'non-trivial when it creates a file although an entry with the base name already exists, or reads a pickle back; '
        '(i) is repeated per identification threshold of the seed\'s alphabet; (w) one case per (model name, root '
        'directory, writer history) step, non-trivial when the directory is pre-populated or the same writer ran before; '
        '(p) one case per history of set_value / dump_file / read_file on one Parameters object, non-trivial from the '
        'second step on; (L) one case per (entry point, name, extension, directory pattern, number of earlier outputs), '
        'non-trivial when at least one earlier output of the name exists; (i)/(iii) results objects also vary in how they '
        'came about (estimate / quick_estimate / quick_estimate after bootstrap / estimate with null log likelihood). '
        '(fig) one case per (results object = (estimates, standard errors, correlation, robust ratio, bootstrap, shape of '
        'the second-derivative matrix) of the product of the seed\'s alphabets, report writer variant); every case is '
        'non-trivial; the first object of every estimate runs every writer variant, the others the widest variant; '
        '(vt) one case per (parameter, typed value) accepted by set_value; '
        '(R) one case per (pair of related model names, history of w / est / del steps by either model), non-trivial from '
        'the second step on, outcome = what each of the two models recycles (own latest / fresh estimation / ambiguous); '
        '(fn) one case per (file name, set of deviations). '
        'distinct = distinct (part, witness) keys.')
ASSUMPTIONS = [
    'datetime.now() as seen from biogeme.biogeme / biogeme.results / biogeme.parameters is owned (frozen instant), so '
    'file contents are deterministic and reports can be compared without masking',
    'bootstrap resamples (numpy.random.randint seam) are a fixed enumerated tape; they only serve to build results '
    'objects with a bootstrap matrix',
    'the saved-iteration file __<model>.iter is rewritten in place by design (property C15) and is outside the '
    'no-overwrite invariant; biogeme.toml is never rewritten by read_file and is inside it',
    'parts (ii), (p): parameter values are plain Python bool / int / float / str of the declared type accepted by the '
    'library\'s own check functions; part (vt) adds the type alphabet (numpy scalars, bool for numeric parameters): '
    'admissible = accepted by Parameters.set_value without error; a value that set_value refuses is outside the statement',
    'part (fig): synthetic results objects are raw results of a real estimation whose estimates / second-derivative / '
    'BHHH / bootstrap matrices are replaced and handed to the public constructor bioResults(raw), which derives every '
    'statistic itself; the expected figure is the one the results object holds (Beta.value, stdErr, ..., '
    'secondOrderTable), the estimates are the ones put in; a printed token is right when it is a number (usual '
    'notation, nan, inf) within half a unit of the last digit the format prints (3 digits: HTML, LaTeX, printed form; '
    '13 digits: F12; 1/100000: F12 correlations, compared only when the correlation is defined); rows of PAIRS of '
    'parameters are read when present, their presence is not demanded (the statement speaks of parameters); the '
    'figures of the general statistics (log likelihoods, rho squares, criteria) are not read',
    'parts (n), (iv), (w): fewer than 100 files per base name; part (L): up to 135 (quick) / 1100 (thorough) outputs of one '
    'name, where only the statement is demanded (the name is new, nothing earlier is touched), not a particular '
    'rendering of numbers beyond 99',
    'a report that the library does not produce for a results object without derivatives (get_html, get_latex, get_f12, '
    'print_general_statistics, the variance tables raise for quick_estimate() results) is not a generated report: '
    'counted as unavailable, it must be equally unavailable after a pickle round trip; every report that is produced '
    '(printed form, short summary, parameter table) is held to the full oracle',
    'part (L): earlier outputs are made older than later ones (os.utime at creation, in creation order), so that "the '
    'results written last" is well defined for estimate(recycle=True); recycling is not asked in the directory pattern '
    'with directories / dangling links under pickle names',
    'reference TOML parser: stdlib tomllib; reference naming rule: the docstring of get_new_file_name',
    'part (w) demands only what the statement says (earlier entries untouched, reported name new, it is the one new '
    'entry, it reads back), not a particular name; model names are non-empty strings without path separators',
    'part (R): a model owns the files it wrote; a file of the OTHER model that carries a documented output name of this '
    'model (name.ext or name~xx.ext with xx an integer, e.g. the model "m~00" next to the model "m") cannot be told apart by '
    'its name: nothing is demanded of the model it confuses (counted); earlier files are made older than later ones '
    '(os.utime in creation order) so that "saved last" is well defined; a step is undone on the harness side (files '
    'removed / restored, reference model reset) instead of re-executing the prefix, the two BIOGEME objects live for the '
    'whole task (the oracle does not depend on their start values); replay re-executes the history from an empty directory',
    'part (fn): admissible file name = base name not empty, at most 255 characters, none of < > : " / \\ | ? * (the rule '
    'read_file documents); dump_file accepting a name that read_file refuses is outside the statement (the quantifier is over '
    'file contents), counted',
    'part (p): dump_file always goes to a new file name (parameter files are outside the no-overwrite clause); reading a '
    'hand-written partial file changes exactly the listed entries (the behaviour part (ii) already checks for a fresh object)',
]
ANCHOR_FILES = ['src/biogeme/results.py', 'src/biogeme/parameters.py', 'src/biogeme/default_parameters.py',
                'src/biogeme/filenames.py', 'src/biogeme/biogeme.py', 'src/biogeme/tools/files.py',
                'src/biogeme/database.py']
DETERMINISM_SLICE = 3
TASK_TIMEOUT = 600.0

_SEED = int(os.environ.get('VERIF_SEED', '0') or 0)

# --------------------------------------------------------------------------- data alphabets (per seed)
# binary choice, 8-10 rows, not separable; column order differs from alphabetical order, one unused column
TABLES = [
    dict(x2=[2.0, 1.0, 1.0, 3.0, 3.0, 1.0, 2.0, 2.0, 1.5, 2.5], x1=[1.0, 2.0, 3.0, 1.0, 2.0, 4.0, 2.0, 3.0, 2.5, 1.5],
         unused=[7, 7, 7, 7, 7, 7, 7, 7, 7, 7], x3=[0.5, 1.0, 0.0, 1.5, 0.5, 1.0, 0.0, 2.0, 1.0, 0.5],
         ch=[1, 2, 2, 1, 1, 2, 2, 1, 2, 1]),
    dict(x2=[1.0, 2.0, 0.5, 2.5, 3.0, 1.0, 2.0, 1.5], x1=[2.0, 1.0, 1.5, 1.0, 2.0, 3.0, 2.5, 0.5],
         unused=[1, 2, 3, 4, 5, 6, 7, 8], x3=[1.0, 0.0, 1.0, 0.0, 2.0, 1.0, 0.5, 0.5],
         ch=[2, 1, 1, 1, 2, 2, 1, 2]),
    dict(x2=[3.0, 1.0, 2.0, 2.0, 1.0, 4.0, 2.5, 1.5, 3.5], x1=[1.0, 3.0, 2.0, 1.0, 2.0, 2.0, 3.5, 0.5, 3.0],
         unused=[0, 0, 0, 0, 0, 0, 0, 0, 0], x3=[0.0, 1.0, 2.0, 0.5, 1.5, 1.0, 0.0, 1.0, 0.5],
         ch=[1, 2, 1, 2, 2, 1, 2, 1, 1]),
    dict(x2=[2.0, 2.0, 1.0, 1.0, 3.0, 3.0, 0.5, 2.5, 1.5, 1.0], x1=[1.0, 3.0, 2.0, 0.5, 2.0, 4.0, 1.0, 2.5, 3.0, 2.0],
         unused=[3, 1, 4, 1, 5, 9, 2, 6, 5, 3], x3=[1.0, 0.5, 0.0, 1.5, 1.0, 0.5, 2.0, 0.0, 1.0, 1.5],
         ch=[1, 2, 1, 1, 1, 2, 2, 2, 2, 1]),
]
TABLE = TABLES[_SEED % len(TABLES)]
NROWS = len(TABLE['ch'])

NAME_POOLS = [
    ('ASC', 'b_x', 'b_y'),
    ('b_z', 'B2', 'b10'),                                     # appearance order != ASCII order != natural order
    ('B_TIME_CAR_1', 'B_TIME_CAR_2', 'B_TIME_' + 'x' * 60),    # same first 10 characters (F12 field), very long
    ('beta[1]', 'β_temps', 'asc car'),
    ('a=b', 'MixedCase_9', 'b.1'),
    ('b-1', 'c', 'Zz_0'),
]
KINDS = ['k1', 'k2', 'k3', 'k2f', 'k2b']
MODEL_NAMES = ['m14', 'my model', 'a.b', 'M_14-x', 'm14', 'm', 'm', 'run.1']
MODEL_NAME = MODEL_NAMES[_SEED % len(MODEL_NAMES)]
DBNAME = ['t14', 'data set', 't.14', 'T_14', 't14', 'd', 'd', 'd.1'][_SEED % 8]

_STATE = {}


def bits(v) -> str:
    return struct.pack('>d', float(v)).hex()


def sha(data: bytes) -> str:
    return hashlib.sha1(data).hexdigest()[:16]


# --------------------------------------------------------------------------- owning the environment
def _setup():
    """Frozen clock (idempotent), quiet logging.  Runs in workers / replay only."""
    if _STATE.get('setup'):
        return
    import datetime as real_dt
    import logging
    import types
    import warnings
    warnings.simplefilter('ignore')
    logging.disable(logging.CRITICAL)
    import biogeme.biogeme as bb
    import biogeme.parameters as bp
    import biogeme.results as br

    class FrozenDateTime(real_dt.datetime):
        @classmethod
        def now(cls, tz=None):
            return cls(2024, 2, 29, 12, 34, 56, 789012)

    shim = types.SimpleNamespace(datetime=FrozenDateTime, timedelta=real_dt.timedelta, date=real_dt.date)
    bb.datetime = FrozenDateTime
    bp.datetime = FrozenDateTime
    br.datetime = shim
    try:
        import tqdm as _tq  # bootstrap progress bar: keep the log small
        bb.tqdm = lambda it, *a, **k: it
    except Exception:
        pass
    _STATE['setup'] = True


class _Tape:
    """Replaces numpy.random.randint during a bootstrap: a fixed enumerated tape of resamples."""

    def __init__(self, n):
        self.n = n
        self.k = 0

    def __call__(self, low, high=None, size=None, **kw):
        v = list(range(self.n))
        v[self.k % self.n] = (self.k + 3) % self.n
        v[(2 * self.k + 1) % self.n] = (self.k + 5) % self.n
        self.k += 1
        import numpy as np
        return np.array(v, dtype=int)


def fresh_dir(tag: str) -> str:
    """A fresh empty sub-directory of the worker's private scratch directory; becomes the cwd."""
    base = _STATE.setdefault('base', os.getcwd())
    n = _STATE['n'] = _STATE.get('n', 0) + 1
    d = os.path.join(base, f'{tag}_{os.getpid()}_{n}')
    os.makedirs(d)
    os.chdir(d)
    return d


def leave_dir(d: str):
    import shutil
    os.chdir(_STATE['base'])
    shutil.rmtree(d, ignore_errors=True)


# --------------------------------------------------------------------------- models
def make_model(kind='k2', pool=0, boot=0, model_name=None, params=None, table=None, **overrides):
    # table: index into TABLES (None = the seed's table)
    """Returns (BIOGEME object, list of free parameter names in formula order, fixed names)."""
    _setup()
    import pandas as pd
    import biogeme.biogeme as bb
    import biogeme.database as db
    from biogeme import models
    from biogeme.expressions import Beta, Variable
    from biogeme.parameters import Parameters

    names = NAME_POOLS[pool]
    df = pd.DataFrame(TABLE if table is None else TABLES[table])
    d = db.Database(DBNAME, df)
    x1, x2, x3, ch = Variable('x1'), Variable('x2'), Variable('x3'), Variable('ch')
    free, fixed = [], []
    if kind == 'k1':
        b1 = Beta(names[1], 0, None, None, 0)
        v = {1: b1 * x1, 2: b1 * x2}
        free = [names[1]]
    elif kind == 'k2':
        asc, b1 = Beta(names[0], 0, None, None, 0), Beta(names[1], 0, None, None, 0)
        v = {1: asc + b1 * x1, 2: b1 * x2}
        free = [names[0], names[1]]
    elif kind == 'k3':
        asc, b1, b2 = (Beta(names[0], 0, None, None, 0), Beta(names[1], 0, None, None, 0),
                       Beta(names[2], 0, None, None, 0))
        v = {1: asc + b1 * x1 + b2 * x3, 2: b1 * x2}
        free = [names[0], names[1], names[2]]
    elif kind == 'k2f':
        asc, b1 = Beta(names[0], 0, None, None, 0), Beta(names[1], 0, None, None, 0)
        fx = Beta('A_FIXED_' + names[2], 0.25, None, None, 1)
        v = {1: asc + b1 * x1 + fx * x3, 2: b1 * x2}
        free = [names[0], names[1]]
        fixed = ['A_FIXED_' + names[2]]
    elif kind == 'k2b':
        asc, b1 = Beta(names[0], 0, -0.0009765625, 0.0009765625, 0), Beta(names[1], 0, None, None, 0)
        v = {1: asc + b1 * x1, 2: b1 * x2}
        free = [names[0], names[1]]
    else:
        raise ValueError(kind)
    ll = models.loglogit(v, None, ch)
    kw = dict(generate_html=False, generate_pickle=False, save_iterations=False, number_of_threads=1,
              bootstrap_samples=max(boot, 1))
    kw.update(overrides)
    b = bb.BIOGEME(d, ll, parameters=params if params is not None else Parameters(), **kw)
    b.modelName = model_name or MODEL_NAME
    return b, free, fixed


def estimate(b, boot=0, recycle=False):
    import numpy.random as npr
    saved = npr.randint
    if boot:
        npr.randint = _Tape(len(b.database.data))
    try:
        return b.estimate(run_bootstrap=bool(boot), recycle=recycle)
    finally:
        npr.randint = saved


# how a results object came about: the optional fields of the raw results (gradient / Hessian / BHHH and everything
# derived from them, initial and null log likelihood, bootstrap matrix) are present or absent accordingly
HOWS = ['est', 'quick', 'quickboot', 'null']
NO_DERIVATIVES = ('quick', 'quickboot')


def pristine_results(kind, pool, boot, table=None, how='est'):
    """A results object of a real estimation that produced no file; cached per worker, handed out as a deep copy.
    how: 'est' = estimate(); 'quick' = quick_estimate() (no derivatives, no statistics); 'quickboot' = quick_estimate()
    on an object that ran estimate(run_bootstrap=True) before (bootstrap matrix but no derivatives); 'null' = estimate()
    after calculate_null_loglikelihood() (null-model statistics present)."""
    import copy
    import biogeme.results as res
    key = (kind, pool, boot, table, how)
    cache = _STATE.setdefault('results', {})
    if key not in cache:
        b, free, fixed = make_model(kind, pool, boot, table=table)
        if how == 'est':
            r = estimate(b, boot)
        elif how == 'quick':
            r = b.quick_estimate()
        elif how == 'quickboot':
            estimate(b, boot)
            r = b.quick_estimate()
        elif how == 'null':
            b.calculate_null_loglikelihood({1: 1, 2: 1})
            r = estimate(b, boot)
        else:
            raise ValueError(how)
        cache[key] = (r.data, free, fixed)
    raw, free, fixed = cache[key]
    return res.bioResults(copy.deepcopy(raw)), list(free), list(fixed)


# --------------------------------------------------------------------------- deep comparison
def deep_diff(a, b, path='') -> str | None:
    """First difference between two python/numpy structures (bit-exact for floats), or None."""
    import numpy as np
    import pandas as pd
    if isinstance(a, np.ndarray) or isinstance(b, np.ndarray):
        if not (isinstance(a, np.ndarray) and isinstance(b, np.ndarray)):
            return f'{path}: {type(a).__name__} vs {type(b).__name__}'
        if a.shape != b.shape or a.dtype != b.dtype:
            return f'{path}: shape/dtype {a.shape}{a.dtype} vs {b.shape}{b.dtype}'
        if a.tobytes() != b.tobytes():
            return f'{path}: array values differ {a.tolist()!r:.120} vs {b.tolist()!r:.120}'
        return None
    if isinstance(a, pd.DataFrame) or isinstance(b, pd.DataFrame):
        if not (isinstance(a, pd.DataFrame) and isinstance(b, pd.DataFrame)):
            return f'{path}: {type(a).__name__} vs {type(b).__name__}'
        if list(a.columns) != list(b.columns) or list(a.index) != list(b.index):
            return f'{path}: table labels differ'
        return deep_diff(a.to_numpy(dtype=float), b.to_numpy(dtype=float), path + '.values')
    if type(a) is not type(b):
        if not (isinstance(a, (int, float)) and isinstance(b, (int, float)) and not isinstance(a, bool)
                and not isinstance(b, bool) and float(a) == float(b)):
            return f'{path}: type {type(a).__name__} vs {type(b).__name__} ({a!r:.60} vs {b!r:.60})'
        return None
    if isinstance(a, float):
        return None if bits(a) == bits(b) else f'{path}: {a!r} vs {b!r}'
    if isinstance(a, dict):
        if list(a.keys()) != list(b.keys()):
            return f'{path}: keys {list(a)!r:.120} vs {list(b)!r:.120}'
        for k in a:
            d = deep_diff(a[k], b[k], f'{path}[{k!r}]')
            if d:
                return d
        return None
    if isinstance(a, (list, tuple)):
        if len(a) != len(b):
            return f'{path}: length {len(a)} vs {len(b)}'
        for i, (x, y) in enumerate(zip(a, b)):
            d = deep_diff(x, y, f'{path}[{i}]')
            if d:
                return d
        return None
    if hasattr(a, '__dict__') and not isinstance(a, type):
        return deep_diff(vars(a), vars(b), path + '.')
    try:
        same = a == b
        if isinstance(same, np.bool_):
            same = bool(same)
    except Exception as e:  # pragma: no cover
        return f'{path}: not comparable ({e})'
    return None if same is True else f'{path}: {a!r:.80} vs {b!r:.80}'


REPORTS = [
    ('html_robust', lambda r: r.get_html(only_robust=True)),
    ('html_all', lambda r: r.get_html(only_robust=False)),
    ('latex', lambda r: r.get_latex()),
    ('latex_all', lambda r: r.get_latex(only_robust=False)),
    ('f12_robust', lambda r: r.get_f12(robust_std_err=True)),
    ('f12_rc', lambda r: r.get_f12(robust_std_err=False)),
    ('str', lambda r: str(r)),
    ('short_summary', lambda r: r.short_summary()),
    ('general_statistics', lambda r: r.print_general_statistics()),
]
TABLES_OF = [
    ('beta_values', lambda r: r.get_beta_values()),
    ('general_statistics_dict', lambda r: {k: tuple(v) for k, v in r.get_general_statistics().items()}),
    ('estimated_parameters_robust', lambda r: r.get_estimated_parameters(only_robust=True)),
    ('estimated_parameters_all', lambda r: r.get_estimated_parameters(only_robust=False)),
    ('correlation_results', lambda r: r.get_correlation_results()),
    ('var_covar', lambda r: r.get_var_covar()),
    ('robust_var_covar', lambda r: r.get_robust_var_covar()),
    ('bootstrap_var_covar', lambda r: r.get_bootstrap_var_covar()),
]


def _lenient_diff(f, r1, r2, name, rec, text=False):
    """Comparison for results objects without derivatives: an artefact that the library cannot produce for such an
    object (the writer raises on the original) is outside the statement - counted; it must then be just as
    unavailable after the round trip.  An artefact that is produced must be identical."""
    out = []
    for r in (r1, r2):
        try:
            out.append(('value', f(r)))
        except Exception as e:
            out.append(('raised', type(e).__name__))
    (k1, v1), (k2, v2) = out
    if k1 == 'raised' and k2 == 'raised':
        rec.count(f'unavailable_without_derivatives:{name}')
        return None if v1 == v2 else f'{name}: raises {v1} on the original, {v2} on the re-read object'
    if k1 != k2:
        return f'{name}: {k1} on the original ({v1!r:.80}), {k2} on the re-read object ({v2!r:.80})'
    if text:
        return None if v1 == v2 else _first_text_diff(v1, v2)
    return deep_diff(v1, v2, name)


def compare_results(r1, r2, what, rec, case, keytail, expect_same_files=True, lenient=False):
    """Oracle of part (i): two results objects must be indistinguishable.  Returns number of failed clauses.
    lenient (results objects without derivatives only): see _lenient_diff."""
    bad = 0
    ck = (what, keytail, case.get('pool'), case.get('table'))

    def fail(clause, detail):
        nonlocal bad
        bad += 1
        rec.violation(f'C14|{what}:{clause}|{keytail}', f'{what}: {clause} differs after the round trip: {detail}',
                      case, observed=detail)

    for name, f in TABLES_OF:
        if lenient:
            d = _lenient_diff(f, r1, r2, name, rec)
        else:
            try:
                d = deep_diff(f(r1), f(r2), name)
            except Exception as e:
                d = f'{name}: raised {type(e).__name__}: {e}'
        rec.case(ck + (name,), (name, d), outcome=(name, d is None))
        if d:
            fail('table:' + name, d)
    d1, d2 = dict(vars(r1.data)), dict(vars(r2.data))
    d = deep_diff(d1, d2, 'data')
    rec.case(ck + ('raw',), ('raw', d), outcome=('raw', d is None))
    if d:
        field = re.sub(r'[^A-Za-z_].*', '', d.split("'")[1]) if "'" in d else 'structure'
        fail('field:' + field, d)
    for name, f in REPORTS:
        if lenient:
            d = _lenient_diff(f, r1, r2, name, rec, text=True)
        else:
            try:
                t1, t2 = f(r1), f(r2)
                d = None if t1 == t2 else _first_text_diff(t1, t2)
            except Exception as e:
                d = f'raised {type(e).__name__}: {e}'
        rec.case(ck + (name,), (name, d), outcome=(name, d is None))
        if d:
            fail('report:' + name, d)
    return bad


def _first_text_diff(t1, t2):
    l1, l2 = t1.split('\n'), t2.split('\n')
    for i, (a, b) in enumerate(zip(l1, l2)):
        if a != b:
            return f'line {i}: {a!r:.160} vs {b!r:.160}'
    return f'{len(l1)} vs {len(l2)} lines'


# --------------------------------------------------------------------------- part (i): pickle round trip
def _part_i(task, rec):
    import biogeme.results as res
    kind, pool, boot = task['kind'], task['pool'], task['boot']
    keytail = f'kind={kind},boot={int(bool(boot))}'
    thr_i = int(task.get('thr') or 0)
    thr = THRESHOLDS[thr_i]
    cfg = {} if thr is None else dict(identification_threshold=thr)
    case = dict(part='i', kind=kind, pool=pool, boot=boot, table=task.get('table'))
    if thr_i:
        keytail += ',threshold=non-default'
        case['thr'] = thr_i
    how = task.get('how') or 'est'
    lenient = how in NO_DERIVATIVES
    if how != 'est':
        keytail += f',how={how}'
        case['how'] = how
    d = fresh_dir('i')
    try:
        r, free, fixed = pristine_results(kind, pool, boot, task.get('table'), how)
        if thr is not None:
            # the same raw results as seen by a user working with a non-default identification threshold
            r = res.bioResults(r.data, identification_threshold=thr)
        rec.sample(dict(case, free=free, estimates={k: float(v) for k, v in r.get_beta_values().items()},
                        loglike=float(r.data.logLike)))
        before = set(os.listdir('.'))
        try:
            fname = r.write_pickle()
        except Exception as e:
            rec.case(('i', kind, pool, boot, how, 'write'), ('write raised', type(e).__name__), outcome='write-raised')
            rec.violation(f'C14|pickle-write-raises-{type(e).__name__}|{keytail}',
                          f'write_pickle raised {type(e).__name__}: {e}', case, observed=repr(e))
            return
        if fname in before or not os.path.isfile(fname):
            rec.violation(f'C14|pickle-name-not-fresh|{keytail}', f'write_pickle reported {fname!r}', case,
                          observed=fname)
        h1 = sha(open(fname, 'rb').read())
        try:
            r2 = res.bioResults(pickle_file=fname, identification_threshold=r.identification_threshold)
        except Exception as e:
            rec.case(('i', kind, pool, boot, how, 'read'), ('read raised', type(e).__name__), outcome='read-raised')
            rec.violation(f'C14|pickle-read-raises-{type(e).__name__}|{keytail}',
                          f'bioResults(pickle_file={fname!r}) of a file just written raised {type(e).__name__}: {e}',
                          case, observed=repr(e))
            return
        compare_results(r, r2, 'pickle-roundtrip', rec, case, keytail, lenient=lenient)
        if how != 'est':
            # the re-read object is a results object of its own: its printed form lists every estimated parameter
            _check_printed(r2, free, fixed, rec, case, f'how={how},re-read', ('i', kind, pool, boot, task.get('table'), how, thr_i))
        # second generation: the re-read object is written and read again
        try:
            fname2 = r2.write_pickle()
            if fname2 == fname or sha(open(fname, 'rb').read()) != h1:
                rec.violation(f'C14|pickle-second-write-replaced-first|{keytail}',
                              f'second write_pickle reported {fname2!r}; first file {fname!r} changed', case,
                              observed=fname2)
            r3 = res.bioResults(pickle_file=fname2, identification_threshold=r.identification_threshold)
        except Exception as e:
            rec.violation(f'C14|pickle-second-generation-raises-{type(e).__name__}|{keytail}',
                          f'writing / reading the re-read object raised {type(e).__name__}: {e}', case, observed=repr(e))
            return
        # file-name fields legitimately differ between generations
        r2.data.pickleFileName = r3.data.pickleFileName
        compare_results(r2, r3, 'pickle-roundtrip-2nd', rec, case, keytail, lenient=lenient)
    finally:
        leave_dir(d)
    if how in NO_DERIVATIVES:
        return   # quick_estimate() writes no file and recycles nothing
    # estimate() with pickle generation, then a *fresh* BIOGEME recycles it
    d = fresh_dir('i')
    try:
        b, free, fixed = make_model(kind, pool, boot, table=task.get('table'), generate_pickle=True,
                                    generate_html=bool(pool % 2), **cfg)
        if how == 'null':
            b.calculate_null_loglikelihood({1: 1, 2: 1})
        ra = estimate(b, boot)
        b2, _, _ = make_model(kind, pool, boot, table=task.get('table'), generate_pickle=True, generate_html=True,
                              **cfg)
        listing = sorted(os.listdir('.'))
        try:
            rb = estimate(b2, boot, recycle=True)
        except Exception as e:
            rec.violation(f'C14|recycle-raises-{type(e).__name__}|{keytail}',
                          f'estimate(recycle=True) in a directory holding {listing} raised {type(e).__name__}: {e}', case,
                          observed=repr(e))
            return
        if sorted(os.listdir('.')) != listing:
            rec.violation(f'C14|recycle-wrote-files|{keytail}',
                          f'estimate(recycle=True) changed the directory {listing} -> {sorted(os.listdir("."))}', case,
                          observed=sorted(os.listdir('.')))
        compare_results(ra, rb, 'estimate-recycle', rec, case, keytail)
    finally:
        leave_dir(d)


# --------------------------------------------------------------------------- part (ii): parameter file
# identification thresholds (index 0 = the library default); the large one flags every tiny model as "not
# identified", so that the section of the HTML report that depends on the threshold is exercised
THRESHOLDS = [None, [1.0e4, 1.0e2, 1.0e6, 512.0][_SEED % 4], [0.0, 1.0e-12, 1.0e-3, 1.0e-300][_SEED % 4]]


ALGOS = ['automatic', 'scipy', 'LS-newton', 'TR-newton', 'LS-BFGS', 'TR-BFGS', 'simple_bounds',
         'simple_bounds_newton', 'simple_bounds_BFGS']
INT_ALPHABETS = [[0, 1, 2, 100], [0, 3, 7, 1000], [1, 5, 64, 2 ** 31], [2, 10, 99, 10 ** 12]]
FLOAT_ALPHABETS = [[1e-5, 0.5, 1.0, 1e3, 1, 0.12345678901234568], [0.1, 1.0 / 3.0, 2.5e-7, 1.0, 10], [1e-300, 0.999, 123456789.12345678, 1.0, 2],
                   [5e-324, 0.25, 1e16, 0.7, 1000, 2.0 / 3.0]]
UNSIGNED_EXTRA = [[-1.0, -0.0], [-2.5, 0.0], [-1e-7, -0.0], [-100.0, 0.0]]
VERSION_STRINGS = ['3.2.14', '', 'a "quoted" \\ back', "it's # not a comment", 'é€β', 'two\nlines', ' lead and trail ',
                   'True', '[Section]', 'x = 1']
BOOL_SPELLINGS = {True: ('True', 'true', 'Yes', 'yes'), False: ('False', 'false', 'No', 'no')}


def default_parameter_table():
    """(name, section, type name, default) of every parameter, read from the library (the explored object)."""
    from biogeme.parameters import Parameters
    p = Parameters()
    return [(k.name, k.section, t.type.__name__, t.value) for k, t in p.all_parameters_dict.items()]


def admissible(name, section, value) -> bool:
    from biogeme.parameters import Parameters
    p = Parameters()
    t = p.get_param_tuple(name, section)
    try:
        ok, _ = p.check_parameter_value(t._replace(value=value))
    except Exception:
        return False
    return bool(ok)


def deviations(seed):
    """All (name, section, value) single deviations of the seed's alphabet that the library's checks accept."""
    out = []
    s = seed % 4
    for name, section, tname, default in default_parameter_table():
        if tname == 'bool':
            vals = [True, False]
        elif name == 'optimization_algorithm':
            vals = list(ALGOS)
        elif name == 'version':
            vals = list(VERSION_STRINGS)
        elif tname == 'int':
            vals = list(INT_ALPHABETS[s])
            if name == 'missing_data':
                vals += [99999.5, -1, -99999]
                # a declared missing-data code that equals a value of the table the model reads is a refused specification
                # (property C12; since repository commit 9268215 the audit of the logit applies the declared code too), not
                # a parameter deviation of a valid model: such codes are outside this alphabet
                cells = {float(v) for col in TABLE.values() for v in col}
                vals = [v for v in vals if float(v) not in cells]
        elif tname == 'float':
            vals = list(FLOAT_ALPHABETS[s]) + list(UNSIGNED_EXTRA[s])
        else:
            vals = []
        seen = []
        for v in vals:
            if any(type(v) is type(w) and (bits(v) == bits(w) if isinstance(v, float) else v == w) for w in seen):
                continue
            seen.append(v)
            if admissible(name, section, v):
                out.append((name, section, v))
    return out


def same_value(tname, want, got) -> bool:
    import numbers
    if isinstance(want, bool):
        return type(got) is bool and got == want
    if isinstance(want, str):
        return isinstance(got, str) and str(got) == want
    if isinstance(got, bool) or not isinstance(got, numbers.Number):
        return False
    if isinstance(want, float):
        return bits(want) == bits(got)
    return got == want and float(got) == float(want)


def _params_with(devs):
    from biogeme.parameters import Parameters
    p = Parameters()
    for name, section, v in devs:
        p.set_value(name, v, section)
    return p


def _vkey(v):
    return f'{type(v).__name__}:{v!r}'


def check_toml_roundtrip(devs, rec, with_biogeme):
    """One dump -> read round trip for the default set with the given deviations."""
    import tomllib
    from biogeme.parameters import Parameters
    case = dict(part='ii', devs=[[n, s, v] for n, s, v in devs])
    wit = '+'.join(sorted(f'{n}' for n, s, v in devs)) or 'defaults'
    tkey = '+'.join(sorted({type(v).__name__ for n, s, v in devs})) or 'defaults'
    p = _params_with(devs)
    want = {(k.name, k.section): t.value for k, t in p.all_parameters_dict.items()}
    types = {(k.name, k.section): t.type.__name__ for k, t in p.all_parameters_dict.items()}
    d = fresh_dir('ii')
    try:
        try:
            p.dump_file('d.toml')
        except Exception as e:
            rec.case(('ii', case['devs'].__repr__()), ('dump raised', type(e).__name__), outcome='dump-raised')
            rec.violation(f'C14|toml-dump-raises-{type(e).__name__}|{str(e)[:60]}',
                          f'Parameters.dump_file raised {type(e).__name__}: {e} (deviations from defaults: {case["devs"]})',
                          case, observed=repr(e))
            return
        text = open('d.toml', encoding='utf-8').read()
        # independent parse of the written text
        try:
            doc = tomllib.loads(text)
        except Exception as e:
            rec.violation(f'C14|toml-dump-not-valid-toml|types={tkey}',
                          f'the dumped file is not valid TOML ({e}); deviations {case["devs"]}', case, observed=str(e))
            doc = None
        if doc is not None:
            for (name, section), w in want.items():
                got = doc.get(section, {}).get(name, '<absent>')
                if isinstance(w, bool):
                    ok = got in BOOL_SPELLINGS[w]
                else:
                    ok = same_value(types[(name, section)], w, got)
                if not ok:
                    rec.violation(f'C14|toml-dump-text-wrong-value|param-type={types[(name, section)]},value-type={type(w).__name__}',
                                  f'dumped text holds {got!r} for {section}.{name} = {w!r}; deviations {case["devs"]}',
                                  case, expected=w, observed=repr(got))
        q = Parameters()
        try:
            q.read_file('d.toml')
        except Exception as e:
            rec.case(('ii', repr(case['devs'])), ('read raised', type(e).__name__), outcome='read-raised')
            rec.violation(f'C14|toml-read-raises-{type(e).__name__}|types={tkey}',
                          f'read_file of a dumped file raised {type(e).__name__}: {e}; deviations {case["devs"]}', case,
                          observed=repr(e))
            return
        nbad = 0
        for (name, section), w in want.items():
            try:
                got = q.get_value(name, section)
            except Exception as e:
                got = f'<raised {type(e).__name__}>'
            if not same_value(types[(name, section)], w, got):
                nbad += 1
                rec.violation(f'C14|toml-roundtrip-value-differs|param-type={types[(name, section)]},value-type={type(w).__name__}',
                              f'{section}.{name} = {w!r} came back as {got!r} ({type(got).__name__}); deviations {case["devs"]}',
                              case, expected=w, observed=repr(got))
        # second generation: the object that read the file dumps again
        try:
            q.dump_file('e.toml')
            q2 = Parameters()
            q2.read_file('e.toml')
            for (name, section), w in want.items():
                got = q2.get_value(name, section)
                if not same_value(types[(name, section)], w, got):
                    nbad += 1
                    rec.violation(f'C14|toml-second-roundtrip-value-differs|param-type={types[(name, section)]}',
                                  f'{section}.{name} = {w!r} came back as {got!r} after dump/read/dump/read; deviations {case["devs"]}',
                                  case, expected=w, observed=repr(got))
        except Exception as e:
            nbad += 1
            rec.violation(f'C14|toml-second-roundtrip-raises-{type(e).__name__}|types={tkey}',
                          f'dump/read of an object that had read a file raised {type(e).__name__}: {e}; deviations {case["devs"]}',
                          case, observed=repr(e))
        if with_biogeme and any(n == 'seed' and v >= 2 ** 32 for n, sct, v in devs):
            rec.count('biogeme_from_file_skipped_seed_beyond_numpy_range')
            with_biogeme = False
        if with_biogeme:
            try:
                b, _, _ = make_model('k1', 0, 0, params='d.toml', **{})
                for (name, section), w in want.items():
                    got = b.biogeme_parameters.get_value(name, section)
                    attr = getattr(b, name, '<no attribute>') if name != 'version' else got
                    # keyword overrides of make_model
                    if name in ('generate_html', 'generate_pickle', 'save_iterations', 'number_of_threads',
                                'bootstrap_samples'):
                        continue
                    if not same_value(types[(name, section)], w, got) or not same_value(types[(name, section)], w, attr):
                        nbad += 1
                        rec.violation(f'C14|toml-file-value-not-seen-by-BIOGEME|param-type={types[(name, section)]}',
                                      f'BIOGEME(parameters=file): {section}.{name} = {w!r} seen as {got!r} / attribute {attr!r}',
                                      case, expected=w, observed=repr((got, attr)))
            except Exception as e:
                nbad += 1
                rec.violation(f'C14|toml-BIOGEME-from-file-raises-{type(e).__name__}|types={tkey}',
                              f'BIOGEME(parameters="d.toml") raised {type(e).__name__}: {e}; deviations {case["devs"]}', case,
                              observed=repr(e))
        default_like = not devs
        rec.case(None if default_like else ('ii', tuple((n, s, _vkey(v)) for n, s, v in devs)),
                 ('ii', case['devs'], sha(re.sub(r'created on .*', '', text).encode()), nbad),
                 outcome=('roundtrip', nbad == 0, tkey))
    finally:
        leave_dir(d)


def check_handwritten(item, rec):
    from biogeme.parameters import Parameters
    kind = item[0]
    d = fresh_dir('hw')
    case = dict(part='hw', item=list(item))
    try:
        if kind == 'spelling':
            _, name, section, spelling, want = item
            text = f'[{section}]\n{name} = "{spelling}"\n'
        elif kind == 'native':
            _, name, section, spelling, want = item
            text = f'[{section}]\n{name} = {spelling}\n'
        elif kind == 'all-bools':
            _, spelling, want = item
            rows = {}
            for n, s, t, dflt in default_parameter_table():
                if t == 'bool':
                    rows.setdefault(s, []).append(f'{n} = "{spelling}"')
            text = ''.join(f'[{s}]\n' + '\n'.join(v) + '\n\n' for s, v in rows.items())
        elif kind == 'value':
            _, name, section, literal, want = item
            text = f'# hand written\n[Unknown]\nfoo = 1\n[{section}]\nunknown_entry = "x"\n{name} = {literal} # comment\n'
        with open('h.toml', 'w', encoding='utf-8') as f:
            f.write(text)
        q = Parameters()
        try:
            q.read_file('h.toml')
        except Exception as e:
            if kind == 'native':
                rec.count('native_toml_boolean_refused_out_of_domain')
                rec.case(None, ('hw', item, 'refused'), outcome='native-bool-refused')
                return
            rec.case(('hw',) + tuple(map(str, item)), ('hw', item, 'raised'), outcome='hw-read-raised')
            rec.violation(f'C14|handwritten-read-raises-{type(e).__name__}|{kind}',
                          f'read_file of {text!r} raised {type(e).__name__}: {e}', case, observed=repr(e))
            return
        defaults = {(n, s): (t, v) for n, s, t, v in default_parameter_table()}
        nbad = 0
        for (n, s), (t, dv) in defaults.items():
            got = q.get_value(n, s)
            if kind == 'all-bools' and t == 'bool':
                w = want
            elif kind != 'all-bools' and (n, s) == (item[1], item[2]):
                w = want
            else:
                w = dv
            if not same_value(t, w, got):
                nbad += 1
                rec.violation(f'C14|handwritten-value-differs|{kind},param-type={t}',
                              f'file {text!r}: {s}.{n} read as {got!r}, expected {w!r}', case, expected=w, observed=repr(got))
        if kind == 'native':
            rec.count('native_toml_boolean_accepted')
        if open('h.toml', encoding='utf-8').read() != text:
            rec.violation(f'C14|handwritten-file-rewritten|{kind}', f'read_file modified the file {text!r}', case)
        rec.case(('hw',) + tuple(map(str, item)), ('hw', item, nbad), outcome=('hw', kind, nbad == 0))
    finally:
        leave_dir(d)


def handwritten_items(seed):
    items = []
    for n, s, t, dflt in default_parameter_table():
        if t == 'bool':
            for want, sp in BOOL_SPELLINGS.items():
                for x in sp:
                    items.append(('spelling', n, s, x, want))
            items.append(('native', n, s, 'true', True))
            items.append(('native', n, s, 'false', False))
    for want, sp in BOOL_SPELLINGS.items():
        for x in sp:
            items.append(('all-bools', x, want))
    sidx = seed % 4
    for n, s, t, dflt in default_parameter_table():
        if t == 'int' and n != 'missing_data':
            for v in INT_ALPHABETS[sidx]:
                if admissible(n, s, v):
                    items.append(('value', n, s, repr(v), v))
                    if v >= 1000:
                        items.append(('value', n, s, f'{v:_}', v))
        elif t == 'float':
            for lit, v in (('1e-5', 1e-5), ('0.5', 0.5), ('1', 1), ('1_000.0', 1000.0), ('+1.0', 1.0), ('5E-1', 0.5)):
                if admissible(n, s, v):
                    items.append(('value', n, s, lit, v))
        elif n == 'optimization_algorithm':
            for a in ALGOS:
                items.append(('value', n, s, f'"{a}"', a))
                items.append(('value', n, s, f"'{a}'", a))
    return items


def _part_ii(task, rec):
    if task['sub'] == 'dev':
        first = True
        for devs in task['sets']:
            devs = [tuple(x) for x in devs]
            if first:
                rec.sample(dict(part='ii', devs=[list(x) for x in devs]))
                first = False
            check_toml_roundtrip(devs, rec, task.get('biogeme', False))
    else:
        first = True
        for item in task['items']:
            if first:
                rec.sample(dict(part='hw', item=item))
                first = False
            check_handwritten(tuple(item), rec)


# --------------------------------------------------------------------------- part (vt): value types of a parameter
# "All admissible values": a value is admissible when Parameters.set_value accepts it (the library's own checks:
# numbers.Integral / numbers.Number / bool / str).  For every parameter of the default set x every value of a TYPE
# alphabet (Python bool / int / float / str and the numpy scalar types, same numeric value) the dump -> read round trip
# has to give the same value back.  Values that set_value refuses are outside the statement (counted).
def vt_values(tname, seed):
    """(label, value) pairs of the type alphabet for a parameter of the given declared type."""
    import numpy as np
    s = seed % 4
    i = [3, 7, 5, 2][s]                     # small enough for every numpy integer type, accepted by every integer check
    big = [500, 1000, 64, 99][s]
    f = [0.5, 0.25, 0.75, 0.125][s]         # exactly representable in every float type, inside (0, 1)
    ints = [('int', i), ('int', big), ('bool', True), ('bool', False), ('numpy.int64', np.int64(big)),
            ('numpy.int32', np.int32(big)), ('numpy.int16', np.int16(i)), ('numpy.int8', np.int8(i)),
            ('numpy.uint8', np.uint8(i)), ('numpy.uint64', np.uint64(big)), ('numpy.intp', np.intp(i)),
            ('numpy.bool_', np.bool_(True))]
    floats = [('float', f), ('float', float(i)), ('numpy.float64', np.float64(f)), ('numpy.float32', np.float32(f)),
              ('numpy.float16', np.float16(f)), ('numpy.longdouble', np.longdouble(f)), ('float', float('inf')),
              ('float', float('nan')), ('numpy.float64', np.float64(i))]
    strs = [('str', 'scipy'), ('str', 'True'), ('str', str(i)), ('numpy.str_', np.str_('scipy')),
            ('numpy.str_', np.str_('3.2.14'))]
    if tname == 'bool':
        return [('bool', True), ('bool', False), ('numpy.bool_', np.bool_(True)), ('numpy.bool_', np.bool_(False)),
                ('int', 1), ('int', 0), ('str', 'True'), ('numpy.int64', np.int64(1))]
    if tname == 'int':
        return ints + floats[:4]
    if tname == 'float':
        return floats + ints
    return strs          # (the version entry has no check at all: values that are not text are not admissible for it)


def vt_kind(tname, v):
    """Class of the witness for the finding key."""
    import numpy as np
    if isinstance(v, (bool, np.bool_)) and tname in ('int', 'float'):
        return 'bool-for-numeric-parameter'
    if isinstance(v, np.generic) and not isinstance(v, (int, float, str)):
        return 'numpy-scalar-not-a-python-number'
    if isinstance(v, np.generic):
        return 'numpy-scalar-subclass-of-a-python-type'
    return 'python-builtin'


def vt_same(want, got) -> bool:
    """The value read back is the value set: same text for strings, same truth value for booleans, same number
    (whatever the numeric type) otherwise."""
    import numbers
    import numpy as np
    if isinstance(want, (str, bytes)):
        return isinstance(got, str) and str(got) == (want if isinstance(want, str) else want.decode())
    if isinstance(got, str) or not isinstance(got, numbers.Number):
        return False
    if isinstance(want, (bool, np.bool_)) and not isinstance(got, (bool, np.bool_)) and got not in (0, 1):
        return False
    try:
        w, g = float(want), float(got)
    except (TypeError, ValueError, OverflowError):
        return bool(want == got)
    if math.isnan(w):
        return math.isnan(g)
    return bool(want == got) and w == g


def check_value_type(name, section, tname, label, v, rec):
    import tomllib
    from biogeme.parameters import Parameters
    case = dict(part='vt', name=name, section=section, tname=tname, label=label, value=repr(v), seed=_SEED)
    p = Parameters()
    try:
        p.set_value(name, v, section)
    except Exception as e:
        rec.count('vt_refused_by_set_value_not_admissible')
        rec.case(None, ('vt', name, section, label, repr(v), 'refused'), outcome=('vt', 'refused', type(e).__name__))
        return
    kind = vt_kind(tname, v)
    ck = ('vt', name, section, label, repr(v))

    def fail(clause, detail, observed):
        rec.case(ck, ('vt', name, section, label, repr(v), clause), outcome=('vt', clause, kind))
        rec.violation(f'C14|toml-value-type:{clause}|value-kind={kind}',
                      f'{section}.{name} (declared {tname}): set_value accepts {v!r} ({label}), {detail}', case,
                      expected=repr(v), observed=observed)

    d = fresh_dir('vt')
    try:
        try:
            p.dump_file('v.toml')
        except Exception as e:
            return fail('dump-raises', f'then dump_file raises {type(e).__name__}: {str(e)[:100]}', repr(e)[:200])
        text = open('v.toml', encoding='utf-8').read()
        try:
            doc = tomllib.loads(text)
        except Exception as e:
            return fail('dump-not-valid-toml', f'the dumped file is not valid TOML: {e}', str(e)[:200])
        q = Parameters()
        try:
            q.read_file('v.toml')
        except Exception as e:
            return fail('read-raises', f'dump_file writes {doc.get(section, {}).get(name)!r} and read_file of that file '
                                       f'raises {type(e).__name__}: {str(e)[:100]}', repr(e)[:200])
        got = q.get_value(name, section)
        if not vt_same(v, got):
            return fail('value-differs', f'and it comes back as {got!r} ({type(got).__name__})', repr(got))
        # everything else is untouched
        for n2, s2, t2, dv in default_parameter_table():
            if (n2, s2) != (name, section) and not same_value(t2, dv, q.get_value(n2, s2)):
                return fail('other-parameter-changed', f'and {s2}.{n2} comes back as {q.get_value(n2, s2)!r}', n2)
        rec.case(ck, ('vt', name, section, label, repr(v), 'ok', repr(got)), outcome=('vt', 'ok', kind))
    finally:
        leave_dir(d)


def _part_vt(task, rec):
    table = default_parameter_table()
    rec.sample(dict(part='vt', parameters=[t[0] for t in table[task['lo']:task['hi']]]))
    for name, section, tname, default in table[task['lo']:task['hi']]:
        for label, v in vt_values(tname, _SEED):
            check_value_type(name, section, tname, label, v, rec)


# --------------------------------------------------------------------------- part (iii): report listings
def fmt3(v) -> float:
    return float(f'{float(v):.3g}')


def parse_html_parameters(html):
    m = re.search(r'<h1>Estimated parameters</h1>(.*?)</table>', html, re.S)
    if not m:
        return None
    rows = []
    for row in re.findall(r'<tr class=biostyle><td>(.*?)</tr>', m.group(1), re.S):
        cells = row.split('</td><td>')
        cells[-1] = cells[-1].replace('</td>', '')
        rows.append(cells)
    head = re.findall(r'<th>(.*?)</th>', m.group(1))
    return head, rows


def parse_latex_parameters(latex):
    m = re.search(r'\\section\{Parameter estimates\}(.*?)%%Correlation', latex, re.S)
    if not m:
        return None
    rows = []
    for line in m.group(1).split('\n'):
        line = line.strip()
        if line.endswith('\\\\') and '&' in line:
            cells = [c.strip() for c in line[:-2].split('&')]
            rows.append(cells)
    return rows


def parse_f12(text):
    lines = text.split('\n')
    coef = []
    i = 3
    while i < len(lines) and lines[i].startswith('   0 '):
        ln = lines[i]
        coef.append(dict(label=ln[5:15], flag=ln[15:17], value=ln[18:38], stderr=ln[38:58], length=len(ln)))
        i += 1
    end_ok = i < len(lines) and lines[i] == '  -1'
    return lines[:3], coef, end_ok, lines[i + 1:] if end_ok else []


def _num_eq(cell, want) -> bool:
    try:
        return float(cell) == want or (math.isnan(want) and math.isnan(float(cell)))
    except (TypeError, ValueError):
        return False


def _check_printed(r, free, fixed, rec, case, keytail, casekey, state='fresh'):
    """Printed form (__str__): every estimated parameter on exactly one line 'name: value', no fixed parameter listed.
    Returns True when the listing is complete."""
    want3 = {n: fmt3(v) for n, v in r.get_beta_values().items()}
    text = str(r)
    ok = sorted(want3) == sorted(free)
    for n in free:
        lines = [ln for ln in text.split('\n') if ln.startswith(f'{n:15}: ')]
        if len(lines) != 1 or n not in want3:
            ok = False
            continue
        tok = lines[0][len(f'{n:15}: '):].split('[')[0]
        ok = ok and _num_eq(tok, want3[n])
    w = 'str' if state == 'fresh' else f'str[{state}]'
    rec.case(casekey + (w,), (w, sha(text.encode())), outcome=(w, ok))
    if not ok:
        rec.violation(f'C14|report:__str__:listing|{keytail}',
                      f'__str__: listing for a results object ({state}) with parameters {free}: {text!r:.400} vs {want3}',
                      case, observed=f'{text!r:.400} vs {want3}')
    for fx in fixed:
        if any(ln.startswith(f'{fx:15}: ') for ln in text.split('\n')):
            rec.violation(f'C14|report:__str__:fixed-parameter-listed-as-estimated|{keytail}',
                          f'__str__: fixed parameter {fx} listed as estimated ({state})', case, observed=fx)
    return ok


def _part_iii(task, rec):
    kind, pool, boot = task['kind'], task['pool'], task['boot']
    how = task.get('how') or 'est'
    lenient = how in NO_DERIVATIVES
    case = dict(part='iii', kind=kind, pool=pool, boot=boot, table=task.get('table'))
    r, free, fixed = pristine_results(kind, pool, boot, task.get('table'), how)
    K = len(free)
    keytail = f'pool={pool}' if pool >= 2 else 'plain-names'
    casekey = ('iii', kind, pool, boot, task.get('table'))
    if how != 'est':
        case['how'] = how
        keytail += f',how={how}'
        casekey += (how,)
    rec.sample(dict(case, free=free, fixed=fixed))

    def fail(writer, clause, detail):
        rec.violation(f'C14|report:{writer}:{clause}|{keytail}',
                      f'{writer}: {clause} for model {kind} ({how}) with parameters {free}: {detail}', case, observed=detail)

    def one(writer, ok, obs):
        rec.case(casekey + (writer,), (writer, obs), outcome=(writer, ok))

    class _Unavailable(Exception):
        pass

    def call(writer, thunk):
        """A report that the library does not produce for a results object without derivatives (the writer raises)
        is not a generated report: outside the statement, counted.  Every other results object: the exception is
        not caught."""
        if not lenient:
            return thunk()
        try:
            return thunk()
        except Exception as e:
            rec.count(f'report_unavailable_without_derivatives:{writer.split("(")[0]}')
            rec.case(None, (writer, 'unavailable', type(e).__name__), outcome=(writer, 'unavailable'))
            raise _Unavailable() from None

    # the estimates themselves
    values = r.get_beta_values()
    if sorted(values) != sorted(free):
        fail('get_beta_values', 'names', f'{sorted(values)} vs free parameters {sorted(free)}')
        return
    if [bits(values[n]) for n in r.data.betaNames] != [bits(v) for v in r.data.betaValues]:
        fail('get_beta_values', 'values-vs-raw', f'{values} vs {list(r.data.betaValues)}')
    want3 = {n: fmt3(values[n]) for n in free}

    for only_robust in (True, False):
        w = f'table(only_robust={only_robust})'
        t = r.get_estimated_parameters(only_robust=only_robust)
        ok = sorted(t.index) == sorted(free) and all(bits(t.loc[n, 'Value']) == bits(values[n]) for n in free)
        one(w, ok, [list(t.index), [bits(x) for x in t['Value']]])
        if not ok:
            fail('get_estimated_parameters', 'listing', f'index {list(t.index)} values {list(t["Value"])} vs {values}')

        w = f'html(only_robust={only_robust})'
        try:
            parsed = parse_html_parameters(call(w, lambda: r.get_html(only_robust=only_robust)))
            if parsed is None:
                one(w, False, 'no table')
                fail('get_html', 'no-parameter-table', '')
            else:
                head, rows = parsed
                got = sorted((c[0], c[1]) for c in rows)
                ok = (len(rows) == K and sorted(c[0] for c in rows) == sorted(free)
                      and all(_num_eq(c[1], want3[c[0]]) for c in rows) and head[:2] == ['Name', 'Value']
                      and all(len(c) == len(head) for c in rows))
                one(w, ok, got)
                if not ok:
                    fail('get_html', 'listing', f'rows {got} vs {sorted(want3.items())}')
        except _Unavailable:
            pass
        w = f'latex(only_robust={only_robust})'
        try:
            rows = parse_latex_parameters(call(w, lambda: r.get_latex(only_robust=only_robust)))
            if rows is None:
                one(w, False, 'no table')
                fail('get_latex', 'no-parameter-table', '')
            else:
                body = [c for c in rows if c[0] != '']
                got = sorted((c[0], c[1]) for c in body)
                ok = (len(body) == K and sorted(c[0] for c in body) == sorted(free)
                      and all(_num_eq(c[1], want3[c[0]]) for c in body))
                one(w, ok, got)
                if not ok:
                    fail('get_latex', 'listing', f'rows {got} vs {sorted(want3.items())}')
        except _Unavailable:
            pass
    tall = r.get_estimated_parameters(only_robust=False)
    for robust in (True, False):
        w = f'f12(robust={robust})'
        try:
            head, coef, end_ok, rest = parse_f12(call(w, lambda: r.get_f12(robust_std_err=robust)))
        except _Unavailable:
            continue
        col = 'Rob. Std err' if robust else 'Std err'
        order = list(tall.index)
        ok = end_ok and len(coef) == K
        if ok:
            for n, c in zip(order, coef):
                se = float(f'{tall.loc[n, col]:+.12e}')
                ok = ok and c['label'] == f'{n[:10]: >10}' and c['flag'] in (' F', ' T') and c['length'] == 58
                ok = ok and _num_eq(c['value'], float(f'{values[n]:+.12e}')) and len(c['value'].strip()) == 19
                ok = ok and _num_eq(c['stderr'], se)
                if 'Active bound' in tall.columns:
                    ok = ok and c['flag'] == (' T' if tall.loc[n, 'Active bound'] == 1 else ' F')
        ok = ok and head[0] == f'{r.data.modelName[:79]: >79}' and head[2] == 'END'
        one(w, ok, [sorted(c.items()) for c in coef])
        if not ok:
            fail('get_f12', 'listing', f'coefficient lines {coef} end={end_ok} vs {values}')
    # every figure of every report (part (fig) oracle) for the real results objects with plain names
    if not lenient and pool <= 1:
        check_figures(r, rec, case, f'real-estimation,kind={kind}', casekey + ('fig',))
    # printed form
    try:
        call('str', lambda: str(r))
        _check_printed(r, free, fixed, rec, case, keytail, casekey)
    except _Unavailable:
        pass
    try:
        text = call('short_summary', r.short_summary)
        ok = f'Nbr of parameters:\t\t{K}\n' in text
        one('short_summary', ok, ok)
        if not ok:
            fail('short_summary', 'number-of-parameters', text)
    except _Unavailable:
        pass
    try:
        text = call('print_general_statistics', r.print_general_statistics)
        ok = f'Number of estimated parameters:\t{K}\n' in text
        one('print_general_statistics', ok, ok)
        if not ok:
            fail('print_general_statistics', 'number-of-parameters', text)
    except _Unavailable:
        pass
    # the same object after it has generated its output files (the file-name fields are then set and the printed form
    # reports them): the listing must still be complete
    d = fresh_dir('iii')
    try:
        wrote = []
        for wname, wf in (('write_html', r.write_html), ('write_latex', r.write_latex), ('write_pickle', r.write_pickle),
                          ('write_f12', r.write_f12)):
            entries = snapshot()
            try:
                call(wname, wf)
                wrote.append(wname)
            except _Unavailable:
                # the writer produced no report for this results object (outside the statement).  What it leaves in the
                # directory is inside: a file that carries the name of a report of the model IS a generated report file
                # and has to list the estimated parameters
                left = {k: v for k, v in snapshot().items() if k not in entries}
                lacking = sorted(k for k, v in left.items()
                                 if v[0] != 'file' or any(n[:10] not in open(k, encoding='utf-8', errors='replace').read()
                                                          for n in free))
                one(f'{wname}:left-behind', not lacking, sorted(left))
                if lacking:
                    sizes = {k: os.path.getsize(k) for k in lacking if os.path.isfile(k)}
                    rec.violation('C14|report-writer-raises-and-leaves-a-report-file-without-parameters|'
                                  'results-object-without-derivatives',
                                  f'{wname}() of the results of {how} (model {kind}, parameters {free}) raises and leaves '
                                  f'the file(s) {sizes} (sizes in bytes) in the directory: a report file of the model that lists '
                                  f'no estimated parameter (the printed form of the object then names it as its output file)',
                                  case, expected='no file, or a report listing every estimated parameter',
                                  observed=sizes)
        try:
            call('str', lambda: str(r))
            _check_printed(r, free, fixed, rec, case, keytail, casekey, state='after ' + '+'.join(wrote or ['nothing']))
        except _Unavailable:
            pass
    finally:
        leave_dir(d)


# --------------------------------------------------------------------------- part (fig): every figure of every report
# The reports print figures (estimates, standard errors, t, p, covariances, correlations) in a short notation.  The
# statement asks that every report lists every estimated parameter *with its value*: whatever the magnitude of the
# value, the token printed for it has to be a number, and that number has to be the value to the precision of the
# format (vf.ref_reports.token_is).  Results objects are enumerated over a magnitude / special-value alphabet:
#   synthetic: the raw results of a real estimation (K = 2 or 3) whose estimates, second-derivative matrix, BHHH matrix
#       and bootstrap matrix are replaced so that the estimate of each parameter, its standard error, the correlation,
#       the ratio robust / Rao-Cramer standard error take every value of their alphabets (full product in the thorough
#       tier); bioResults(raw) derives all statistics itself;
#   shapes: regular / singular second-derivative matrix (zero variance, t = largest float) / not negative definite
#       (standard error = largest float) / nan in the BHHH matrix (nan robust standard error);
#   real: estimations whose bound on the constant is an alphabet value and is active (the estimate IS the bound).
FIG_MANTISSAS = [[1.0, 2.0004, 1.2345, 9.996], [3.0, 5.0002, 7.6543, 9.995], [1.0, 4.0049, 6.25, 9.996],
                 [8.0, 6.0001, 2.5, 9.9951]]
FIG_INTS = [0.0, -0.0, 1.0, -1.0, 12.0, 100.0, 1000.0, -2000.0, 123456.0, 1.0e7]
FIG_SPECIALS = [float('nan'), float('inf'), float('-inf')]
FIG_SHAPES = ['regular', 'singular', 'indefinite', 'nan-bhhh']
FIG_BOOT_PATTERN = [(-1.0, 1.0, 0.5), (0.0, -2.0, 0.5), (1.0, 1.0, -1.0)]      # rows of the bootstrap matrix (offsets)
PARAM_COLUMNS = {'Value': 'value', 'Std err': 'stdErr', 't-test': 'tTest', 'p-value': 'pValue',
                 'Rob. Std err': 'robust_stdErr', 'Rob. t-test': 'robust_tTest', 'Rob. p-value': 'robust_pValue',
                 'Bootstrap t-test': 'bootstrap_tTest', 'Bootstrap p-value': 'bootstrap_pValue'}
PAIR_COLUMNS = ['Covariance', 'Correlation', 't-test', 'p-value', 'Rob. cov.', 'Rob. corr.', 'Rob. t-test', 'Rob. p-value',
                'Boot. cov.', 'Boot. corr.', 'Boot. t-test', 'Boot. p-value']


def fig_alphabets(tier, seed=None):
    """values (estimates), S (standard errors), RHO (correlations), QB ((robust / Rao-Cramer ratio, bootstrap?))."""
    s = (_SEED if seed is None else seed) % 4
    mant = FIG_MANTISSAS[s]
    quick = tier == 'quick'
    exps = [-7, -5, -3, 0, 3, 5, 7] if quick else list(range(-7, 8))
    values = [sg * m * 10.0 ** e for e in exps for m in mant for sg in (1.0, -1.0)]
    values += FIG_INTS + FIG_SPECIALS
    if quick:
        S = [mant[0] * 1e-5, 0.5, mant[1] * 1e3]
        RHO = [mant[0] * 1e-7, -0.5]
        QB = [(1.0, 0), (1.0e3, 1)]
    else:
        S = [mant[0] * 1e-7, mant[0] * 1e-5, mant[2] * 1e-3, 0.5, mant[1] * 1e3, mant[0] * 1e5]
        RHO = [0.0, mant[0] * 1e-7, -mant[1] * 1e-5, -0.5]
        QB = [(q, b) for q in (1.0, 1.0e3, mant[1] * 1e-3) for b in (0, 1)]
    return dict(values=values, S=S, RHO=RHO, QB=QB)


def fig_bounds(seed=None):
    """(lower, upper) bounds on the constant of the real estimations of part (fig): the bound is active."""
    m = FIG_MANTISSAS[(_SEED if seed is None else seed) % 4]
    return [(-m[0] * 1e-5, m[0] * 1e-5), (None, -m[0] * 1e3), (m[1] * 1e3, None), (-m[1] * 1e-7, m[1] * 1e-7),
            (m[0] * 1e7, None)]


def _hex(x):
    return None if x is None else float(x).hex()


def _unhex(h):
    return None if h is None else float.fromhex(h)


def fig_spec(K, shape, values, ses, rho, q, boot):
    return dict(part='fig', K=K, shape=shape, values=[_hex(v) for v in values], ses=[_hex(v) for v in ses], rho=_hex(rho),
                q=_hex(q), boot=int(boot))


def fig_object(spec):
    """The results object of a spec (self-contained: all numbers are in the spec)."""
    import numpy as np
    import biogeme.results as res
    if spec.get('real') is not None:
        return fig_real_object(*[_unhex(h) for h in spec['real']])
    K, shape, boot = spec['K'], spec['shape'], spec['boot']
    r, free, fixed = pristine_results('k2' if K == 2 else 'k3', 0, 3 if boot else 0)
    raw = r.data
    vals = [_unhex(h) for h in spec['values']]
    ses = [_unhex(h) for h in spec['ses']]
    rho, q = _unhex(spec['rho']), _unhex(spec['q'])
    raw.betaValues = np.array(vals, dtype=float)
    for b, v in zip(raw.betas, raw.betaValues):
        b.value = v
    D = np.diag(ses)
    R = np.eye(K)
    R[0, 1] = R[1, 0] = rho
    if K == 3:
        R[1, 2] = R[2, 1] = rho / 2.0
    H = -np.linalg.inv(D.dot(R).dot(D))
    B = (q * q) * (-H)
    if shape == 'singular':
        H[0, :] = 0.0
        H[:, 0] = 0.0
    elif shape == 'indefinite':
        H = -H
    elif shape == 'nan-bhhh':
        B[0, 0] = float('nan')
    elif shape != 'regular':
        raise ValueError(shape)
    raw.H, raw.bhhh = H, B
    if boot:
        centre = [v if math.isfinite(v) else 0.0 for v in vals]
        raw.bootstrap = np.array([[centre[i] + 2.0 * ses[i] * row[i] for i in range(K)] for row in FIG_BOOT_PATTERN])
    return res.bioResults(raw)


def fig_real_object(lb, ub):
    """A real estimation whose constant has the bound (lb, ub); cached per worker.  None when the estimation fails
    (outside C14)."""
    import copy
    import pandas as pd
    import biogeme.biogeme as bb
    import biogeme.database as db
    import biogeme.results as res
    from biogeme import models
    from biogeme.expressions import Beta, Variable
    from biogeme.parameters import Parameters
    cache = _STATE.setdefault('fig_real', {})
    key = (lb, ub)
    if key not in cache:
        d = db.Database(DBNAME, pd.DataFrame(TABLE))
        x1, x2, ch = Variable('x1'), Variable('x2'), Variable('ch')
        start = lb if lb is not None else ub
        asc, b1 = Beta('ASC', start, lb, ub, 0), Beta('b_x', 0, None, None, 0)
        ll = models.loglogit({1: asc + b1 * x1, 2: b1 * x2}, None, ch)
        b = bb.BIOGEME(d, ll, parameters=Parameters(), generate_html=False, generate_pickle=False, save_iterations=False,
                       number_of_threads=1)
        b.modelName = MODEL_NAME
        try:
            cache[key] = b.estimate().data
        except Exception as e:
            cache[key] = ('failed', type(e).__name__)
    if isinstance(cache[key], tuple):
        return None
    return res.bioResults(copy.deepcopy(cache[key]))


def _param_attr(col):
    if col in PARAM_COLUMNS:
        return PARAM_COLUMNS[col]
    if re.fullmatch(r'Bootstrap\[\d+\] Std err', col):
        return 'bootstrap_stdErr'
    return None


def check_figures(r, rec, case, keytail, casekey, pairs_by_name=True, full=True):
    """Oracle of part (fig) for one results object: every figure printed by get_html / get_latex / get_f12 / the printed
    form for an estimated parameter (and for a pair of parameters) is a number equal to the figure of the results object
    to the precision of the format.  full=False: only the widest variant of each writer (all statistics; F12 with the
    robust standard errors).  Returns the report texts by writer variant."""
    texts = {}
    from vf import ref_reports as rr
    betas = {b.name: b for b in r.data.betas}
    names = list(r.data.betaNames)
    pairs = dict(r.data.secondOrderTable or {})
    nbad = 0

    def judge(writer, variant, figs, problems):
        """figs: (figure kind, what, x, token, significant digits)"""
        nonlocal nbad
        bad = []
        classes = set()
        for kind, what, x, tok, sig in figs:
            cls = rr.rendering_class(x, sig)
            classes.add(cls)
            if not rr.token_is(tok, x, sig):
                bad.append((kind, what, x, tok, cls))
        ok = not bad and not problems
        rec.case(casekey + (writer, variant), (writer, variant, [f[3] for f in figs], problems),
                 outcome=('fig', writer, ok, 'exponent-form' in classes, bool(classes & {'nan', 'inf'})))
        rec.count('figures_read', len(figs))
        for clause, detail in problems:
            rec.violation(f'C14|figure:{writer}:{clause}|{keytail}', f'{writer}({variant}): {clause}: {detail}', case,
                          observed=detail)
        for kind, what, x, tok, cls in bad:
            rec.violation(f'C14|figure:{writer}:token-is-not-the-number|figure={kind},rendering={cls}',
                          f'{writer}({variant}) prints {tok!r} for {what} = {float(x)!r}: not a number equal to the figure '
                          f'to the precision of the format', case, expected=repr(float(x)), observed=tok)
        if not ok:
            nbad += 1

    def table_figs(head, rows, first, problems, writer):
        """Figures of a parameter table: head = column names after the name column, rows = cells incl. the name."""
        figs = []
        if 'Value' not in head:
            problems.append(('listing', f'no Value column in {head}'))
        for n in names:
            mine = [c for c in rows if c[0] == n]
            if len(mine) != 1 or len(mine[0]) != first + len(head):
                problems.append(('listing', f'parameter {n!r} is not on exactly one complete row: {mine}'))
                continue
            for col, tok in zip(head, mine[0][first:]):
                attr = _param_attr(col)
                if attr is None:
                    if col == 'Active bound':
                        if rr.token_value(tok) not in (0.0, 1.0):
                            problems.append(('listing', f'active-bound flag of {n!r} printed as {tok!r}'))
                    else:
                        rec.count('figure_column_unknown_to_the_reference')
                    continue
                x = getattr(betas[n], attr)
                if x is None:
                    rec.count('figure_absent_in_results_object')
                    continue
                figs.append(('value' if attr == 'value' else 'statistic', f'{col} of {n}', x, tok, 3))
        return figs

    def pair_figs(head, rows, problems):
        figs = []
        for (n1, n2), v in pairs.items():
            if pairs_by_name and ('-' in n1 or '-' in n2):
                rec.count('pair_rows_not_matched_name_with_hyphen')
                continue
            mine = [c for c in rows if c[:len(c) - len(head)] in ([n1, n2], [f'{n1}-{n2}'])]
            if len(mine) != 1:
                rec.count('pair_row_not_found')      # the statement speaks of parameters, not of pairs
                continue
            for col, tok in zip(head, mine[0][len(mine[0]) - len(head):]):
                if col not in PAIR_COLUMNS or PAIR_COLUMNS.index(col) >= len(v):
                    rec.count('figure_column_unknown_to_the_reference')
                    continue
                figs.append(('statistic', f'{col} of {n1}-{n2}', v[PAIR_COLUMNS.index(col)], tok, 3))
        return figs

    for only_robust in ((False, True) if full else (False,)):
        variant = f'only_robust={only_robust}'
        # HTML
        html = texts['html', only_robust] = r.get_html(only_robust=only_robust)
        problems, figs = [], []
        parsed = rr.html_parameters(html)
        if parsed is None:
            problems.append(('listing', 'no table of estimated parameters'))
        else:
            head, rows = parsed
            figs += table_figs(head[1:], rows, 1, problems, 'get_html')
        parsed = rr.html_correlations(html)
        if parsed is not None:
            head, rows = parsed
            figs += pair_figs(head[2:], rows, problems)
        judge('get_html', variant, figs, problems)
        # LaTeX
        latex = texts['latex', only_robust] = r.get_latex(only_robust=only_robust)
        problems, figs = [], []
        ptab, ctab = rr.latex_tables(latex)
        if not ptab or ptab[0][0] != '':
            problems.append(('listing', 'no table of estimated parameters'))
        else:
            figs += table_figs(ptab[0][1:], ptab[1:], 1, problems, 'get_latex')
        if ctab and ctab[0][0] == '':
            figs += pair_figs(ctab[0][1:], ctab[1:], problems)
        judge('get_latex', variant, figs, problems)
    # F12
    for robust in ((True, False) if full else (True,)):
        variant = f'robust_std_err={robust}'
        problems, figs = [], []
        texts['f12', robust] = r.get_f12(robust_std_err=robust)
        coef, end_ok, corr = rr.f12_figures(texts['f12', robust])
        if not end_ok or len(coef) != len(names):
            problems.append(('listing', f'{len(coef)} coefficient lines for {len(names)} parameters (end marker: {end_ok})'))
        else:
            for n, (label, flag, toks) in zip(names, coef):
                if label != f'{n[:10]: >10}' or len(toks) != 2:
                    problems.append(('listing', f'coefficient line of {n!r}: label {label!r}, figures {toks}'))
                    continue
                b = betas[n]
                figs.append(('value', f'Value of {n}', b.value, toks[0], 13))
                figs.append(('statistic', f'standard error of {n}', b.robust_stdErr if robust else b.stdErr, toks[1], 13))
            k = 0
            for i, ni in enumerate(names):
                for j in range(i):
                    v = pairs.get((ni, names[j]))
                    tok = corr[k] if k < len(corr) else None
                    k += 1
                    if v is None or tok is None:
                        rec.count('pair_row_not_found')
                        continue
                    c = float(v[5 if robust else 1])
                    if not math.isfinite(c) or abs(c) > 1.0 + 1e-9:
                        rec.count('f12_correlation_undefined_not_compared')
                        continue
                    got = rr.token_value(tok)
                    rec.count('figures_read')
                    if got is None or abs(got / 100000.0 - c) > 1.0e-5 * (1 + 1e-9):
                        problems.append(('correlation-field', f'correlation of {ni}-{names[j]} = {c!r} printed as {tok!r} '
                                                              f'(unit 1/100000)'))
        judge('get_f12', variant, figs, problems)
    # printed form
    text = texts['str', None] = str(r)
    problems, figs = [], []
    for n in names:
        got = rr.printed_parameter(text, n)
        if got is None:
            problems.append(('listing', f'parameter {n!r} is not on exactly one line of the printed form'))
            continue
        tok, groups = got
        b = betas[n]
        figs.append(('value', f'Value of {n}', b.value, tok, 3))
        stats = [[getattr(b, p + a) for a in ('stdErr', 'tTest', 'pValue')] for p in ('', 'robust_', 'bootstrap_')]
        stats = [g for g in stats if g[0] is not None]
        if len(groups) != len(stats) or any(len(g) != 3 for g in groups):
            problems.append(('listing', f'statistics of {n!r} printed as {groups}'))
            continue
        for g, s, lab in zip(groups, stats, ('', 'robust ', 'bootstrap ')):
            for t, x, a in zip(g, s, ('standard error', 't-test', 'p-value')):
                figs.append(('statistic', f'{lab}{a} of {n}', x, t, 3))
    for (n1, n2), v in pairs.items():
        toks = rr.printed_pair(text, (n1, n2))
        if toks is None or len(toks) != 8:
            rec.count('pair_row_not_found')
            continue
        for t, x, col in zip(toks, v, PAIR_COLUMNS):
            figs.append(('statistic', f'{col} of {n1}-{n2}', x, t, 3))
    judge('__str__', 'printed', figs, problems)
    return texts


FIG_WRITERS = dict(html=lambda r, a: r.get_html(only_robust=a), latex=lambda r, a: r.get_latex(only_robust=a),
                   f12=lambda r, a: r.get_f12(robust_std_err=a), str=lambda r, a: str(r))


def check_fig_object(spec, rec, roundtrip=False, full=False):
    """One results object of part (fig): the estimates are the ones put in, every report figure is right; optionally
    the object is saved and loaded again and has to give the same reports."""
    import biogeme.results as res
    r = fig_object(spec)
    if r is None:
        rec.count('fig_real_estimation_failed_out_of_domain')
        rec.case(None, ('fig', 'no object'), outcome=('fig', 'no-object'))
        return
    if spec.get('real') is not None:
        keytail = 'real-estimation,active-bound'
        casekey = ('fig', 'real', tuple(spec['real']))
        lb, ub = [_unhex(h) for h in spec['real']]
        bound = lb if lb is not None else ub
        got = r.get_beta_values()
        if bits(abs(got.get('ASC', float('nan')))) != bits(abs(bound)):
            # the bound is not active: the object is an ordinary one (still checked), but the alphabet value is not reached
            rec.count('fig_real_bound_not_active')
    else:
        keytail = f'K={spec["K"]},shape={spec["shape"]}'
        casekey = ('fig', spec['K'], spec['shape'], tuple(spec['values']), tuple(spec['ses']), spec['rho'], spec['q'], spec['boot'])
        want = [_unhex(h) for h in spec['values']]
        got = r.get_beta_values()
        if [bits(got[n]) for n in r.data.betaNames] != [bits(v) for v in want]:
            rec.violation(f'C14|figure:get_beta_values:values-vs-raw|{keytail}',
                          f'get_beta_values gives {got} for raw estimates {want}', spec, expected=want, observed=repr(got))
    texts = check_figures(r, rec, spec, keytail, casekey, full=full)
    if roundtrip:
        d = fresh_dir('fig')
        try:
            fname = r.write_pickle()
            r2 = res.bioResults(pickle_file=fname, identification_threshold=r.identification_threshold)
            r2.data.pickleFileName = None      # the reports of the original were made before it was saved
            bad = None
            for (w, arg), t1 in texts.items():
                t2 = FIG_WRITERS[w](r2, arg)
                if t1 != t2:
                    bad = (w, _first_text_diff(t1, t2))
                    break
            rec.case(casekey + ('roundtrip',), ('roundtrip', bad), outcome=('fig-roundtrip', bad is None))
            if bad:
                rec.violation(f'C14|pickle-roundtrip:report:{bad[0]}|figures,{keytail}',
                              f'report {bad[0]} differs after the round trip of a results object of part (fig): {bad[1]}',
                              spec, observed=bad[1])
        finally:
            leave_dir(d)


def fig_specs(task):
    """The results objects of one task (deterministic)."""
    A = fig_alphabets(task['tier'])
    V = A['values']
    n = len(V)
    K, shape = task['K'], task['shape']
    out = []
    if task.get('real'):
        return [dict(part='fig', real=[_hex(lb), _hex(ub)]) for lb, ub in fig_bounds()]
    quick = task['tier'] == 'quick'
    for i in range(task['lo'], min(task['hi'], n)):
        vals = [V[i], V[n - 1 - i]] + ([V[(7 * i + 3) % n]] if K == 3 else [])
        if shape == 'regular' and K == 2:
            combos = [(s, rho, q, b) for s in A['S'] for rho in A['RHO'] for q, b in A['QB']]
        elif shape == 'regular':
            combos = [(s, rho, q, b) for s in A['S'][::2] for rho in A['RHO'][1:2 if quick else 3] for q, b in A['QB'][-1:]]
        else:
            combos = [(A['S'][1], A['RHO'][-1], q, b) for q, b in A['QB'][-1 if quick else -2:]]
        for k, (s, rho, q, b) in enumerate(combos):
            ses = [s, 3.0 * s] + ([0.5 * s] if K == 3 else [])
            # first object of an estimate: every variant of every writer; every second (fourth: special shapes) of
            # them is also saved and loaded again
            out.append(dict(fig_spec(K, shape, vals, ses, rho, q, b), full=int(k == 0),
                            rt=int(k == 0 and i % (2 if shape == 'regular' else 4) == 0)))
    return out


def _part_fig(task, rec):
    specs = fig_specs(task)
    if specs:
        rec.sample(dict(task, first_object=specs[0], objects=len(specs)))
    for spec in specs:
        real = spec.get('real') is not None
        check_fig_object(spec, rec, roundtrip=real or bool(spec.get('rt')), full=real or bool(spec.get('full')))


def fig_tasks(tier):
    A = fig_alphabets(tier)
    n = len(A['values'])
    t = [dict(part='fig', tier=tier, K=2, shape='regular', real=True)]
    step = 4 if tier == 'quick' else 1
    for lo in range(0, n, step):
        t.append(dict(part='fig', tier=tier, K=2, shape='regular', lo=lo, hi=lo + step))
    for shape in FIG_SHAPES[1:]:
        for lo in range(0, n, 24):
            t.append(dict(part='fig', tier=tier, K=2, shape=shape, lo=lo, hi=lo + 24))
    for lo in range(0, n, 12):
        t.append(dict(part='fig', tier=tier, K=3, shape='regular', lo=lo, hi=lo + 12))
    return t


# --------------------------------------------------------------------------- reference model of the directory
NUMS = [f'~{i:02d}' for i in range(100)]


def ref_new_name(existing, name, ext):
    """Documented rule: name.ext if that entry does not exist, else name~xx.ext with the smallest free xx."""
    cand = f'{name}.{ext}'
    if cand not in existing:
        return cand
    for sfx in NUMS:
        cand = f'{name}{sfx}.{ext}'
        if cand not in existing:
            return cand
    raise RuntimeError('beyond the bound (100 files of one name)')


def ref_backup_name(existing, filename):
    base, ext = os.path.splitext(filename)
    i = 1
    while f'{base}_{i}{ext}' in existing:
        i += 1
    return f'{base}_{i}{ext}'


def snapshot(path='.'):
    """name -> (type, content hash) of every entry of the directory (recursively for directories)."""
    out = {}
    for fn in sorted(os.listdir(path)):
        p = os.path.join(path, fn)
        if os.path.islink(p):
            out[fn] = ('link', os.readlink(p))
        elif os.path.isdir(p):
            out[fn] = ('dir', sha(repr(sorted(snapshot(p).items())).encode()))
        else:
            with open(p, 'rb') as f:
                out[fn] = ('file', sha(f.read()))
    return out


def _part_n(task, rec):
    """Every pre-state of the naming helpers."""
    _setup()
    import biogeme.filenames as bf
    from biogeme.tools.files import create_backup
    kinds = task['kinds']
    name, ext = task['name'], task['ext']
    cands = [f'{name}.{ext}'] + [f'{name}~{i:02d}.{ext}' for i in range(3)]
    first = True
    assigns = sorted(itertools.product(kinds, repeat=len(cands)),
                     key=lambda a: (sum(x != 'absent' for x in a), [kinds.index(x) for x in a]))
    for assign in assigns:
        d = fresh_dir('n')
        try:
            for c, a in zip(cands, assign):
                if a == 'file':
                    with open(c, 'w') as f:
                        f.write('old ' + c)
                elif a == 'dir':
                    os.mkdir(c)
                elif a == 'link':
                    os.symlink('nowhere_' + c, c)
            before = snapshot()
            case = dict(part='n', name=name, ext=ext, assign=list(assign))
            if first:
                rec.sample(case)
                first = False
            got = bf.get_new_file_name(name, ext)
            want = ref_new_name(set(before), name, ext)
            nontrivial = assign[0] != 'absent'
            rec.case(('n', name, ext, assign) if nontrivial else None, ('n', assign, got), outcome=(got == want, got in before))
            pat = ','.join(sorted(set(a for a in assign if a != 'absent'))) or 'empty'
            if got in before:
                rec.violation(f'C14|new-file-name-exists|entry-kind={before[got][0]}',
                              f'get_new_file_name({name!r}, {ext!r}) returned {got!r}, which exists as a '
                              f'{before[got][0]} (directory: {dict(zip(cands, assign))})', case, expected=want, observed=got)
            elif got != want:
                rec.violation(f'C14|new-file-name-not-as-documented|entry-kinds={pat}',
                              f'get_new_file_name({name!r}, {ext!r}) returned {got!r}; the documented rule gives {want!r} '
                              f'(directory: {dict(zip(cands, assign))})', case, expected=want, observed=got)
            if snapshot() != before:
                rec.violation('C14|new-file-name-changed-directory|', 'get_new_file_name modified the directory', case)
            # create_backup on the base name (copy and rename)
            if assign[0] == 'file':
                for rename in (False, True):
                    pre = snapshot()
                    wantb = ref_backup_name(set(pre), cands[0])
                    try:
                        gotb = create_backup(cands[0], rename=rename)
                    except Exception as e:
                        rec.violation(f'C14|create_backup-raises-{type(e).__name__}|rename={rename}',
                                      f'create_backup raised {e}', dict(case, rename=rename), observed=repr(e))
                        continue
                    post = snapshot()
                    okb = gotb not in pre and post.get(gotb) == pre[cands[0]] and gotb == wantb
                    for k, v in pre.items():
                        if k == cands[0] and rename:
                            okb = okb and k not in post
                        else:
                            okb = okb and post.get(k) == v
                    okb = okb and set(post) - set(pre) == {gotb}
                    rec.case(('n-backup', name, ext, assign, rename), ('b', assign, rename, gotb), outcome=('backup', okb))
                    if not okb:
                        rec.violation(f'C14|create_backup-not-fresh-or-lossy|rename={rename}',
                                      f'create_backup({cands[0]!r}, rename={rename}) -> {gotb!r}; before {pre}, after {post}',
                                      dict(case, rename=rename), expected=wantb, observed=gotb)
                    if rename:  # restore for symmetry
                        os.rename(gotb, cands[0])
        finally:
            leave_dir(d)


# --------------------------------------------------------------------------- part (iv): histories
OPS_QUICK = ['pickle', 'html', 'latex', 'f12', 'dump', 'est_hp', 'est_p', 'recycle', 'toml', 'pickle_B', 'validate']
OPS_THOROUGH = ['pickle', 'html', 'latex', 'f12', 'dump', 'est_hp', 'est_h', 'est_p', 'recycle', 'toml', 'pickle_B',
                'validate', 'backup']
OTHER_MODEL = MODEL_NAME + '_b'   # a second model writing into the same directory
ROOTS = ['empty', 'base', 'gap', 'blocked']
HKIND = 'k2'
HPOOL = 0


def ops_for(tier):
    return OPS_QUICK if tier == 'quick' else OPS_THOROUGH


def _old_pickle_bytes():
    """A valid pickle of an *older, different* estimation of the same model name (pre-population)."""
    import pickle
    if 'oldpickle' not in _STATE:
        r, _, _ = pristine_results('k1', 1, 0)
        r.data.modelName = MODEL_NAME
        r.data.userNotes = 'pre-existing results'
        _STATE['oldpickle'] = pickle.dumps(r.data)
    return _STATE['oldpickle']


MINIMAL_TOML = ('# pre-existing parameter file\n[Estimation]\nsave_iterations = "False"\nbootstrap_samples = 2\n'
                '[MultiThreading]\nnumber_of_threads = 1\n')


def populate(root):
    """Creates the pre-populated directory; returns the write order of pre-existing pickles of the model."""
    m, dn = MODEL_NAME, f'{DBNAME}_dumped'
    order = []
    if root == 'empty':
        return order
    exts = ['html', 'pickle', 'tex', 'F12']
    bases = [(m, e) for e in exts] + [(dn, 'dat'), (f'{m}_validation', 'pickle'), (f'{m}_val_est_1', 'html'),
                                       (f'{m}_val_est_1', 'pickle')]

    def put(fn, ext):
        if ext == 'pickle' and fn.startswith(m + '.') or (ext == 'pickle' and fn.startswith(m + '~')):
            with open(fn, 'wb') as f:
                f.write(_old_pickle_bytes())
            order.append(fn)
        else:
            with open(fn, 'w') as f:
                f.write(f'pre-existing {fn}\n')

    if root == 'base':
        for b, e in bases:
            put(f'{b}.{e}', e)
        with open('biogeme.toml', 'w') as f:
            f.write(MINIMAL_TOML)
        with open(f'{m}_1.html', 'w') as f:
            f.write('pre-existing backup\n')
    elif root == 'gap':
        for b, e in bases:
            put(f'{b}.{e}', e)
            put(f'{b}~01.{e}', e)
        with open('biogeme.toml', 'w') as f:
            f.write(MINIMAL_TOML)
    elif root == 'blocked':
        # a directory (or a dangling link) sits where the first name would go
        for i, (b, e) in enumerate(bases):
            if i % 3 == 2:
                os.symlink(f'nowhere_{i}', f'{b}.{e}')
            else:
                os.mkdir(f'{b}.{e}')
                with open(os.path.join(f'{b}.{e}', 'inside.txt'), 'w') as f:
                    f.write('keep me\n')
    # pre-existing entries are old: one hour, in the order of creation
    for i, fn in enumerate(sorted(os.listdir('.'), key=lambda x: (order.index(x) if x in order else -1, x))):
        if not os.path.islink(fn):
            os.utime(fn, (1.7e9 + i, 1.7e9 + i))
    return order


class History:
    """Executes an operation history on the real code, stepping the reference model alongside."""

    def __init__(self, root):
        _setup()
        self.root = root
        self.dir = fresh_dir('h')
        self.pickle_order = populate(root)          # reference: write order of the model's pickles
        self.written = {}                           # reference: pickle name -> beta values written by this history
        self.r, self.free, _ = pristine_results(HKIND, HPOOL, 0)
        self.b, _, _ = make_model(HKIND, HPOOL, 0)
        self.rB, _, _ = pristine_results('k1', 1, 0)
        self.rB.data.modelName = OTHER_MODEL
        self.last_est = None
        self.skipped = None
        self.b_ops = []

    def close(self):
        leave_dir(self.dir)

    # -- reference predictions ------------------------------------------------
    def predict(self, op, before):
        """Names the step must create (reference model), given the entries present before."""
        ex = set(before)
        m = MODEL_NAME
        new = []

        def nn(name, ext):
            x = ref_new_name(ex, name, ext)
            ex.add(x)
            new.append(x)
            return x

        if op == 'pickle':
            nn(m, 'pickle')
        elif op == 'pickle_B':
            nn(OTHER_MODEL, 'pickle')
        elif op == 'html':
            nn(m, 'html')
        elif op == 'latex':
            nn(m, 'tex')
        elif op == 'f12':
            nn(m, 'F12')
        elif op == 'dump':
            nn(f'{DBNAME}_dumped', 'dat')
        elif op == 'est_hp':
            nn(m, 'html')
            nn(m, 'pickle')
        elif op == 'est_h':
            nn(m, 'html')
        elif op == 'est_p':
            nn(m, 'pickle')
        elif op == 'recycle':
            if not [p for p in self.pickle_order]:
                # nothing to recycle: a real estimation with the current output switches (none)
                pass
        elif op == 'toml':
            if 'biogeme.toml' not in ex:
                new.append('biogeme.toml')
        elif op == 'validate':
            if 'biogeme.toml' not in ex:
                new.append('biogeme.toml')
                ex.add('biogeme.toml')
            for k in (1,):
                nn(f'{m}_val_est_{k}', 'html')
                nn(f'{m}_val_est_{k}', 'pickle')
            nn(f'{m}_validation', 'pickle')
        elif op == 'backup':
            if before.get(f'{m}.html', ('', ''))[0] == 'file':
                new.append(ref_backup_name(ex, f'{m}.html'))
        return new

    # -- one real step --------------------------------------------------------
    def apply(self, op):
        """Returns (reported names or None, result object or None)."""
        import biogeme.database as db
        b, r = self.b, self.r
        if op == 'pickle':
            return [r.write_pickle()], None
        if op == 'pickle_B':
            return [self.rB.write_pickle()], self.rB
        if op == 'html':
            r.write_html()
            return [r.data.htmlFileName], None
        if op == 'latex':
            r.write_latex()
            return [r.data.latexFileName], None
        if op == 'f12':
            r.write_f12()
            return [r.data.F12FileName], None
        if op == 'dump':
            return [b.database.dump_on_file()], None
        if op in ('est_hp', 'est_h', 'est_p'):
            b.generate_html = 'h' in op[4:]
            b.generate_pickle = 'p' in op[4:]
            try:
                res = estimate(b)
            finally:
                b.generate_html = False
                b.generate_pickle = False
            names = []
            if 'h' in op[4:]:
                names.append(res.data.htmlFileName)
            if 'p' in op[4:]:
                names.append(res.data.pickleFileName)
            return names, res
        if op == 'recycle':
            return [], estimate(b, recycle=True)
        if op == 'toml':
            from biogeme.parameters import Parameters
            p = Parameters()
            p.read_file('biogeme.toml')
            return None, p
        if op == 'validate':
            import pandas as pd
            df = b.database.data
            cut = 3
            a, c = df.iloc[:cut], df.iloc[cut:]
            vd = [db.EstimationValidation(estimation=c, validation=a)]
            b.generate_pickle = True
            try:
                out = b.validate(self.r, vd)
            finally:
                b.generate_pickle = False
            return None, out
        if op == 'backup':
            from biogeme.tools.files import create_backup
            if not os.path.isfile(f'{MODEL_NAME}.html') or os.path.islink(f'{MODEL_NAME}.html'):
                return [], None
            nm = create_backup(f'{MODEL_NAME}.html', rename=False)
            return ([nm] if nm else []), None
        raise ValueError(op)

    def step(self, op, hist_so_far):
        """Applies op; returns None or (clause, witness, detail)."""
        import pickle
        import biogeme.results as res
        import biogeme.filenames as bf
        before = snapshot()
        if op == 'recycle' and self.root == 'blocked' and not self.written:
            # a directory / dangling link carries the name of the model's pickle: recycling from it is outside the statement
            self.skipped = 'recycle_on_blocked_pickle_name_out_of_domain'
            return None
        want_new = self.predict(op, before)
        had_pickles = list(self.pickle_order)
        handed = []
        real_new_name = bf.get_new_file_name

        def spy(name, ext):
            out = real_new_name(name, ext)
            handed.append(out)
            return out

        bf.get_new_file_name = spy
        try:
            try:
                reported, obj = self.apply(op)
            finally:
                bf.get_new_file_name = real_new_name
        except Exception as e:
            msg = str(e).split('\n')[0][:60]
            for nm in handed:
                if nm in before:
                    return ('new-file-name-exists', f'history,entry-kind={before[nm][0]}',
                            f'{op}: get_new_file_name handed out {nm!r}, which exists as a {before[nm][0]}; '
                            f'the step then raised {type(e).__name__}: {msg}')
            if type(e).__name__ == 'ValueError' and 'Comment cannot contain line breaks' in str(e):
                return ('toml-dump-raises-ValueError', 'Comment cannot contain line breaks',
                        f'{op} raised {type(e).__name__}: {e}')
            return (f'history-step-raises-{type(e).__name__}', f'op={op}',
                    f'{op} raised {type(e).__name__}: {msg}')
        after = snapshot()
        for nm in handed:
            if nm in before:
                return ('new-file-name-exists', f'history,entry-kind={before[nm][0]}',
                        f'{op}: get_new_file_name handed out {nm!r}, which exists as a {before[nm][0]}')
        transient = {k for k in set(before) | set(after) if k.startswith('__') and k.endswith('.iter')}
        # 1. nothing that existed is touched
        for k, v in before.items():
            if k in transient:
                continue
            if after.get(k) != v:
                return ('existing-entry-changed', f'op={op},entry={_ext(k)}:{v[0]}',
                        f'{k!r} was {v}, is {after.get(k)} after {op}')
        created = sorted(k for k in after if k not in before and k not in transient)
        # 2. reported names are new regular files
        for nm in reported or []:
            if nm in before:
                return ('reported-name-existed', f'op={op},entry={_ext(nm)}:{before[nm][0]}',
                        f'{op} reported {nm!r}, which existed before as {before[nm]}')
            if after.get(nm, ('', ''))[0] != 'file':
                return ('reported-name-not-written', f'op={op}', f'{op} reported {nm!r}; directory {sorted(after)}')
        # 3. the directory is the one the reference predicts
        if created != sorted(want_new):
            return ('directory-differs-from-reference', f'op={op}',
                    f'{op} created {created}, reference model predicts {sorted(want_new)} (before: {sorted(before)})')
        if reported is not None and sorted(reported) != created and op != 'validate':
            return ('reported-names-differ-from-created', f'op={op}', f'{reported} vs {created}')
        # 4. what was written reads back
        m = MODEL_NAME
        for nm in created:
            if nm.endswith('.pickle') and (nm == f'{m}.pickle' or nm.startswith(f'{m}~')):
                src = obj if obj is not None else self.r
                try:
                    back = res.bioResults(pickle_file=nm, identification_threshold=src.identification_threshold)
                except Exception as e:
                    return ('history-pickle-unreadable', f'op={op}', f'{nm}: {type(e).__name__}: {e}')
                d = deep_diff({k: v for k, v in vars(src.data).items()}, dict(vars(back.data)), 'data')
                if d:
                    return ('history-pickle-differs', f'op={op}', f'{nm}: {d}')
                self.pickle_order.append(nm)
                self.written[nm] = [bits(v) for v in src.data.betaValues]
            elif op == 'pickle_B':
                try:
                    back = res.bioResults(pickle_file=nm, identification_threshold=self.rB.identification_threshold)
                except Exception as e:
                    return ('history-pickle-unreadable', f'op={op}', f'{nm}: {type(e).__name__}: {e}')
                d = deep_diff(dict(vars(self.rB.data)), dict(vars(back.data)), 'data')
                if d:
                    return ('history-pickle-differs', f'op={op}', f'{nm}: {d}')
            elif nm.endswith('.html') and nm.startswith(m) and '_val_' not in nm and op != 'backup':
                text = open(nm, encoding='utf-8').read()
                src = obj if obj is not None else self.r
                if text != src.get_html(self.b.only_robust_stats if obj is not None else True):
                    return ('history-html-differs', f'op={op}', f'{nm} is not the report of the object that wrote it')
            elif nm.endswith('.dat'):
                import pandas as pd
                back = pd.read_csv(nm, sep='\t', index_col='__rowId')
                d = deep_diff(self.b.database.data.astype(float), back.astype(float), 'dump')
                if d:
                    return ('data-dump-differs', f'op={op}', f'{nm}: {d}')
        # 5. recycling returns what was written last
        if op == 'recycle':
            if had_pickles:
                latest = had_pickles[-1]
                with open(latest, 'rb') as f:
                    want = pickle.load(f)
                got_vals = [bits(v) for v in obj.data.betaValues]
                if got_vals != [bits(v) for v in want.betaValues] or obj.data.userNotes != want.userNotes:
                    chosen = [p for p in had_pickles if _same_pickle(p, obj)]
                    fresh_written = latest in self.written
                    return ('recycle-not-the-latest-results',
                            f'latest-is-last-by-name={latest == sorted(had_pickles)[-1]},'
                            f'latest-written-by-history={fresh_written}',
                            f'estimate(recycle=True) returned the results of {chosen} instead of the most recent '
                            f'{latest!r} (pickles in write order: {had_pickles})')
            else:
                if obj is None or len(obj.data.betaValues) != len(self.free):
                    return ('recycle-without-pickle-no-results', f'root={self.root}', 'no results')
        if op in ('est_hp', 'est_h', 'est_p', 'validate') or (op == 'recycle' and not had_pickles):
            self.b_ops.append(op[:3])
        return None

    def canon(self):
        snap = snapshot()
        fields = (self.r.data.htmlFileName, self.r.data.pickleFileName, self.r.data.latexFileName, self.r.data.F12FileName,
                  self.rB.data.pickleFileName)
        # the model object's start values are a function of the sequence of estimating operations
        return repr((sorted(snap.items()), fields, tuple(self.b_ops), tuple(self.pickle_order)))


def _ext(fn):
    return fn.rsplit('.', 1)[-1]


def _same_pickle(path, obj):
    import pickle
    try:
        with open(path, 'rb') as f:
            w = pickle.load(f)
        return [bits(v) for v in w.betaValues] == [bits(v) for v in obj.data.betaValues] and w.userNotes == obj.data.userNotes
    except Exception:
        return False


def run_history(root, ops):
    """Replays ops from the root; returns (History, index of failing step or None, failure)."""
    h = History(root)
    for i, op in enumerate(ops):
        bad = h.step(op, ops[:i])
        if bad:
            return h, i, bad
    return h, None, None


def _nontrivial_step(root, hist):
    op = hist[-1]
    if op in ('recycle', 'validate'):
        return True
    if root != 'empty':
        return True
    fam = {'pickle': 'p', 'pickle_B': 'p', 'est_p': 'p', 'html': 'h', 'est_h': 'h', 'est_hp': 'hp', 'latex': 'l', 'f12': 'f',
           'dump': 'd', 'toml': 't', 'backup': 'h'}
    mine = fam.get(op, '')
    return any(set(fam.get(o, '')) & set(mine) for o in hist[:-1])


def _violation_from(rec, root, hist, bad):
    clause, witness, detail = bad
    key = f'C14|{clause}|{witness}'
    rec.violation(key, f'{clause} after history {hist} from the "{root}" directory: {detail}',
                  dict(part='iv', root=root, history=list(hist)), observed=detail)


def bfs_depth(tier):
    return 3 if tier == 'quick' else 4


HEAVY = ('validate',)


def heavy_rule(tier, hist):
    """(may the heavy operation be appended?, may a state containing it be expanded?) - a bound on where
    validate() (two nested BIOGEME objects, ~0.25 s) may occur, stated in the evidence counters."""
    last = 1 if tier == 'quick' else 2
    return len(hist) <= last, len(hist) + 1 <= last


def bfs_roots(tier, seed):
    return [dict(root=r, tier=tier) for r in ROOTS]


def bfs_expand(task):
    rec = Rec()
    root = task['root']['root']
    ops = ops_for(task['root']['tier'])
    hist = list(task['history'])
    succ = []
    tier = task['root']['tier']
    may_append, may_expand = heavy_rule(tier, hist)
    for op in ops:
        if op in HEAVY and not may_append:
            rec.count('heavy_op_not_appended_beyond_its_bound')
            continue
        hh = hist + [op]
        h, i, bad = run_history(root, hh)
        try:
            rec.transition()
            nt = _nontrivial_step(root, hh)
            if bad and i < len(hist):
                # cannot happen for an expanded state (prefixes passed); replay diverged
                raise RuntimeError(f'replay of {hh} from {root} diverged at step {i}: {bad}')
            created = None
            rec.case(('iv', root, tuple(hh)) if nt else None, None, outcome=(op, bad[0] if bad else 'ok'))
            rec.count('traces_validated')
            if bad:
                _violation_from(rec, root, hh, bad)
                continue
            if h.skipped:
                rec.count(h.skipped)
            c = h.canon()
            expand = not any(o in HEAVY for o in hh) or may_expand
            if not expand:
                rec.count('states_with_heavy_op_not_expanded_beyond_its_bound')
            succ.append(dict(event=op, canon=c, expand=expand))
        finally:
            h.close()
    if not hist:
        rec.sample(dict(part='iv', root=root, ops=ops, model=MODEL_NAME))
    out = rec.result()
    out['succ'] = succ
    return out


# --------------------------------------------------------------------------- part (w): writer histories x model names
W_NAMES = ['m14', 'my model', 'a.b', 'M_14-x', 'run.1', 'two  blanks x', 'é β', 'm~00', ' lead', 'trail ',
           'Mixed Case.v2', 'B_' + 'x' * 70]
W_OPS = ['pickle', 'html', 'latex', 'f12', 'dump']
W_ROOTS = ['empty', 'own', 'neighbour']
W_EXT = dict(pickle='pickle', html='html', latex='tex', f12='F12', dump='dat')


def w_depth(tier):
    return 3 if tier == 'quick' else 4


def name_class(n):
    cls = []
    if ' ' in n:
        cls.append('blank')
    if '.' in n:
        cls.append('dot')
    if '~' in n:
        cls.append('tilde')
    if any(ord(ch) > 127 for ch in n):
        cls.append('non-ascii')
    if len(n) > 60:
        cls.append('long')
    return '+'.join(cls) or 'plain'


def neighbour_names(n):
    """The usual sanitised forms of a model name: names another model in the same directory may well carry."""
    out = []
    for v in (n.replace(' ', '_'), n.replace(' ', ''), n.replace('.', '_'), n.replace('-', '_'), n.replace('~', '_'),
              n.strip(), n.lower(), n.upper(), re.sub(r'[^A-Za-z0-9]+', '_', n), n + '_'):
        if v and v != n and v not in out:
            out.append(v)
    return out


def w_populate(name, root):
    stems = {'pickle': name, 'html': name, 'tex': name, 'F12': name, 'dat': f'{name}_dumped'}
    if root == 'own':
        for ext, stem in stems.items():
            for fn in (f'{stem}.{ext}', f'{stem}~01.{ext}'):
                with open(fn, 'w', encoding='utf-8') as f:
                    f.write(f'earlier output {fn}\n')
    elif root == 'neighbour':
        for v in neighbour_names(name):
            for ext, stem in stems.items():
                fn = f'{v}.{ext}' if ext != 'dat' else f'{v}_dumped.dat'
                with open(fn, 'w', encoding='utf-8') as f:
                    f.write(f'output of the neighbour model {fn}\n')


class WriterHistory:
    """Repeated output generation of one results object / database whose name comes from the name alphabet."""

    def __init__(self, name, root):
        _setup()
        import pandas as pd
        import biogeme.database as db
        self.name, self.root = name, root
        self.dir = fresh_dir('w')
        w_populate(name, root)
        self.r, self.free, _ = pristine_results(HKIND, HPOOL, 0)
        self.r.data.modelName = name
        self.db = db.Database(name, pd.DataFrame(TABLE))
        self.snap = snapshot()

    def close(self):
        leave_dir(self.dir)

    def apply(self, op):
        r = self.r
        if op == 'pickle':
            return r.write_pickle()
        if op == 'html':
            r.write_html()
            return r.data.htmlFileName
        if op == 'latex':
            r.write_latex()
            return r.data.latexFileName
        if op == 'f12':
            r.write_f12()
            return r.data.F12FileName
        if op == 'dump':
            return self.db.dump_on_file()
        raise ValueError(op)

    def step(self, op, content=True):
        """None or (clause, detail).  Oracle = the statement only: nothing earlier is touched, the reported name is
        new, it is the one new entry, and it holds what the writer had to write (content=False: the step is a
        re-execution of a prefix whose content was compared already)."""
        import biogeme.results as res
        before = self.snap
        try:
            reported = self.apply(op)
        except Exception as e:
            return (f'raises-{type(e).__name__}', f'{op} raised {type(e).__name__}: {str(e).splitlines()[0][:80] if str(e) else ""}')
        after = self.snap = snapshot()
        for k, v in before.items():
            if after.get(k) != v:
                return ('existing-entry-changed', f'{k!r} was {v}, is {after.get(k)} after {op} (reported name {reported!r})')
        if reported in before:
            return ('reported-name-existed', f'{op} reported {reported!r}, which existed before as {before[reported]}')
        if after.get(reported, ('', ''))[0] != 'file':
            return ('reported-name-not-written', f'{op} reported {reported!r}; directory {sorted(after)}')
        created = sorted(k for k in after if k not in before)
        if created != [reported]:
            return ('reported-name-differs-from-created', f'{op} reported {reported!r}, created {created}')
        if not content:
            return None
        r = self.r
        if op == 'pickle':
            try:
                back = res.bioResults(pickle_file=reported, identification_threshold=r.identification_threshold)
            except Exception as e:
                return ('pickle-unreadable', f'{reported}: {type(e).__name__}: {e}')
            d = deep_diff(dict(vars(r.data)), dict(vars(back.data)), 'data')
            if d:
                return ('pickle-differs', f'{reported}: {d}')
        elif op == 'dump':
            import pandas as pd
            back = pd.read_csv(reported, sep='\t', index_col='__rowId')
            d = deep_diff(self.db.data.astype(float), back.astype(float), 'dump')
            if d:
                return ('data-dump-differs', f'{reported}: {d}')
        else:
            with open(reported, encoding='utf-8') as f:
                text = f.read()
            want = dict(html=r.get_html, latex=r.get_latex, f12=r.get_f12)[op]()
            if text != want:
                return ('report-file-differs', f'{reported} is not the report of the object that wrote it: '
                                               f'{_first_text_diff(want, text)}')
            missing = [n for n in self.free if n[:10] not in text.replace('\\_', '_')]
            if missing:
                return ('report-file-lacks-parameter', f'{reported}: {missing}')
        return None


def _simplest_first(hists):
    """Histories with fewer distinct operations first, so that the prefix recorded first for a finding is a simple one."""
    return sorted(hists, key=lambda h: len(set(h)))


def _w_histories(depth, first=None):
    return _simplest_first(h for h in itertools.product(W_OPS, repeat=depth) if first is None or h[0] == first)


def _w_violation(rec, name, root, hist, bad):
    clause, detail = bad
    rec.violation(f'C14|writer-history:{clause}|op={hist[-1]},name-class={name_class(name)}',
                  f'{clause} after writer history {list(hist)} for the model name {name!r} in the "{root}" directory: {detail}',
                  dict(part='w', name=name, root=root, history=list(hist)), observed=detail)


def run_writer_history(name, root, hist, seen=None, rec=None):
    """Executes hist step by step (every prefix is a history of its own); returns (failing index, failure)."""
    h = WriterHistory(name, root)
    try:
        for i, op in enumerate(hist):
            pre = tuple(hist[:i + 1])
            bad = h.step(op, content=rec is None or pre not in seen)
            if rec is not None and pre not in seen:
                seen.add(pre)
                ext = W_EXT[op]
                nt = root != 'empty' or any(W_EXT[o] == ext for o in hist[:i])
                rec.case(('w', name, root, pre) if nt else None, ('w', name, root, pre, bad[0] if bad else None),
                         outcome=('w', op, bad[0] if bad else 'ok'))
                rec.count('writer_history_steps')
                if bad:
                    _w_violation(rec, name, root, pre, bad)
            if bad:
                return i, bad
        return None, None
    finally:
        h.close()


def _part_w(task, rec):
    name, root = task['name'], task['root']
    seen = set()
    failed = set()
    rec.sample(dict(part='w', name=name, root=root, depth=task['depth'], first=task.get('first'),
                    neighbours=neighbour_names(name) if root == 'neighbour' else None))
    for hist in _w_histories(task['depth'], task.get('first')):
        if any(hist[:k] in failed for k in range(1, len(hist) + 1)):
            continue   # a prefix already violated: its extensions are not histories of a correct run
        i, bad = run_writer_history(name, root, hist, seen, rec)
        if bad:
            failed.add(tuple(hist[:i + 1]))


# --------------------------------------------------------------------------- part (L): long histories for one name
# One directory, one output name, N successive outputs: the n-th output is generated while n-1 earlier outputs of
# the same name (and extension) are present, for EVERY n = 1..N (N goes beyond the two-digit - and, thorough tier,
# the three-digit - range of the ~NN numbering).  Oracle = the statement only: every name handed out / reported did
# not exist before, every earlier entry is untouched (type, size, inode, modification time at every step; content
# hash at the boundary lengths and at the end), the new entries are exactly the reported ones; at the boundary
# lengths the new file reads back and estimate(recycle=True) returns the results written last.
L_CHEAP = ['name', 'pickle', 'html', 'latex', 'f12', 'dump', 'all', 'backup_copy', 'backup_rename']
L_COSTLY = ['est_hp', 'est_p', 'validate']      # real call at the boundary lengths, the naming function in between
L_PATTERNS = ['files', 'kinds', 'holes', 'two-models']
L_OLD = 1.6e9                                   # earlier outputs are old, in the order of their creation


def l_bound(tier):
    return 135 if tier == 'quick' else 1100


def l_boundaries(n, thin=False):
    """History lengths (number of earlier outputs) at which the costly entry points run / contents are re-hashed."""
    out = set()
    centres = (1, 10, 100, 101, 110, 128, 200, 256, 1000, 1001, 1010, 1024) if not thin else (1, 100, 101, 1000, 1001)
    for c in centres:
        out.update((c - 1, c, c + 1))
    out.add(n - 1)
    return sorted(k for k in out if 0 <= k < n)


def len_class(k):
    return '<100' if k < 100 else ('100..999' if k < 1000 else '>=1000')


class LongHistory:
    def __init__(self, entry, name, ext, pattern):
        _setup()
        import pandas as pd
        import biogeme.database as db
        self.entry, self.name, self.ext, self.pattern = entry, name, ext, pattern
        self.dir = fresh_dir('L')
        self.known = {}     # reference model of the directory: entry name -> [kind, content hash / link target, lstat signature]
        self.order = []     # creation order
        self.clock = 0
        self.r = self.b = self.db = None
        if entry in ('pickle', 'html', 'latex', 'f12', 'all', 'est_hp', 'est_p', 'validate'):
            self.r, self.free, _ = pristine_results(HKIND, HPOOL, 0)
            self.r.data.modelName = name
        if entry in ('dump', 'all'):
            self.db = db.Database(name, pd.DataFrame(TABLE))
        if entry in L_COSTLY:
            self.b, _, _ = make_model(HKIND, HPOOL, 0, model_name=name)
        if entry == 'validate':
            with open('biogeme.toml', 'w') as f:
                f.write(MINIMAL_TOML)
            self._register('biogeme.toml')
        if entry.startswith('backup'):
            with open(f'{name}.{ext}', 'w') as f:
                f.write('current output 0\n')
            self._register(f'{name}.{ext}')

    def close(self):
        leave_dir(self.dir)

    # -- reference model ----------------------------------------------------------
    @staticmethod
    def _sig(fn):
        st = os.lstat(fn)
        return (st.st_mode, st.st_size if not os.path.isdir(fn) or os.path.islink(fn) else 0, st.st_ino, st.st_mtime_ns)

    def _register(self, fn):
        """A new entry joins the reference model; it is made older than everything that follows."""
        self.clock += 1
        if os.path.islink(fn):
            kind, content = 'link', os.readlink(fn)
        elif os.path.isdir(fn):
            kind, content = 'dir', sha(repr(sorted(snapshot(fn).items())).encode())
            os.utime(fn, (L_OLD + self.clock, L_OLD + self.clock))
        else:
            with open(fn, 'rb') as f:
                kind, content = 'file', sha(f.read())
            os.utime(fn, (L_OLD + self.clock, L_OLD + self.clock))
        self.known[fn] = [kind, content, self._sig(fn)]
        self.order.append(fn)

    def _forget(self, fn):
        import shutil
        if os.path.isdir(fn) and not os.path.islink(fn):
            shutil.rmtree(fn)
        else:
            os.remove(fn)
        del self.known[fn]

    def verify(self, full):
        """None or (clause, detail): the directory against the reference model."""
        names = set(os.listdir('.'))
        gone = sorted(set(self.known) - names)
        if gone:
            return ('existing-entry-changed', f'{gone[:3]} vanished')
        extra = sorted(n for n in names - set(self.known) if not (n.startswith('__') and n.endswith('.iter')))
        if extra:
            return ('unreported-entry-created', f'{extra[:3]} appeared')
        for fn, (kind, content, sig) in self.known.items():
            if self._sig(fn) != sig:
                return ('existing-entry-changed', f'{fn!r} ({kind}) was {sig}, is {self._sig(fn)}')
        if full:
            snap = snapshot()
            for fn, (kind, content, sig) in self.known.items():
                if snap.get(fn) != (kind, content):
                    return ('existing-entry-changed', f'{fn!r} was {(kind, content)}, is {snap.get(fn)}')
        return None

    # -- steps --------------------------------------------------------------------
    def families(self):
        n = self.name
        return dict(name=[(n, self.ext)], pickle=[(n, 'pickle')], html=[(n, 'html')], latex=[(n, 'tex')], f12=[(n, 'F12')],
                    dump=[(f'{n}_dumped', 'dat')],
                    all=[(n, 'pickle'), (n, 'html'), (n, 'tex'), (n, 'F12'), (f'{n}_dumped', 'dat')],
                    est_hp=[(n, 'html'), (n, 'pickle')], est_p=[(n, 'pickle')],
                    validate=[(f'{n}_val_est_1', 'html'), (f'{n}_val_est_1', 'pickle'), (f'{n}_validation', 'pickle')]
                    ).get(self.entry, [])

    def touch(self, k, stem, ext):
        """One output through the naming function alone: the name the library chooses, the entry created here."""
        import biogeme.filenames as bf
        nm = bf.get_new_file_name(stem, ext)
        if nm in self.known or os.path.lexists(nm):
            kind = self.known.get(nm, ['entry'])[0]
            return ('new-file-name-exists', f'get_new_file_name({stem!r}, {ext!r}) returned {nm!r}, which exists as a {kind} '
                                            f'({k} earlier outputs of that name)')
        kind = 'file'
        if self.pattern == 'kinds':
            kind = 'dir' if k % 7 == 3 else ('link' if k % 11 == 5 else 'file')
        if kind == 'file':
            with open(nm, 'w') as f:
                f.write(f'earlier output {k} of {stem}.{ext}\n')
        elif kind == 'dir':
            os.mkdir(nm)
            with open(os.path.join(nm, 'inside.txt'), 'w') as f:
                f.write(f'keep me {k}\n')
        else:
            os.symlink(f'nowhere_{k}', nm)
        self._register(nm)
        return None

    def real(self, k, entry):
        """One output through a real entry point.  None or (clause, detail)."""
        import biogeme.filenames as bf
        import biogeme.database as db
        from biogeme.tools.files import create_backup
        before = set(self.known)
        handed = []
        real_new_name = bf.get_new_file_name

        def spy(name, ext):
            out = real_new_name(name, ext)
            handed.append(out)
            return out

        r, reported, res_obj, removed = self.r, None, None, set()
        bf.get_new_file_name = spy
        try:
            if entry == 'pickle':
                import copy
                r.data.userNotes = f'written as output {k}'
                reported = [r.write_pickle()]
                self.pickled = copy.deepcopy(dict(vars(r.data)))    # what the file has to hold
            elif entry == 'html':
                r.write_html()
                reported = [r.data.htmlFileName]
            elif entry == 'latex':
                r.write_latex()
                reported = [r.data.latexFileName]
            elif entry == 'f12':
                r.write_f12()
                reported = [r.data.F12FileName]
            elif entry == 'dump':
                reported = [self.db.dump_on_file()]
            elif entry in ('est_hp', 'est_p'):
                b = self.b
                b.generate_html, b.generate_pickle = entry == 'est_hp', True
                b.user_notes = f'estimated as output {k}'
                try:
                    res_obj = estimate(b)
                finally:
                    b.generate_html = b.generate_pickle = False
                reported = ([res_obj.data.htmlFileName] if entry == 'est_hp' else []) + [res_obj.data.pickleFileName]
            elif entry == 'validate':
                b = self.b
                df = b.database.data
                vd = [db.EstimationValidation(estimation=df.iloc[3:], validation=df.iloc[:3])]
                b.generate_pickle = True
                try:
                    b.validate(self.r, vd)
                finally:
                    b.generate_pickle = False
            elif entry in ('backup_copy', 'backup_rename'):
                reported = [create_backup(f'{self.name}.{self.ext}', rename=entry == 'backup_rename')]
                if entry == 'backup_rename':
                    removed = {f'{self.name}.{self.ext}'}
            else:
                raise ValueError(entry)
        except Exception as e:
            if isinstance(e, ValueError) and str(e) == entry:
                raise
            for nm in handed:
                if nm in before:
                    return ('new-file-name-exists', f'{entry}: get_new_file_name handed out {nm!r}, which exists; the step '
                                                    f'then raised {type(e).__name__}')
            return (f'raises-{type(e).__name__}', f'{entry} raised {type(e).__name__}: {str(e).splitlines()[0][:80] if str(e) else ""}')
        finally:
            bf.get_new_file_name = real_new_name
        for nm in handed:
            if nm in before:
                return ('new-file-name-exists', f'{entry}: get_new_file_name handed out {nm!r}, which exists as a '
                                                f'{self.known[nm][0]} ({k} earlier outputs)')
        for nm in reported or []:
            if nm in before:
                return ('reported-name-existed', f'{entry} reported {nm!r}, which existed before as a {self.known[nm][0]} '
                                                 f'({k} earlier outputs)')
        original = None
        if removed:
            (orig,) = removed
            original = self.known[orig][:2]
            if os.path.lexists(orig):
                return ('backup-rename-left-the-original', f'{orig!r} still exists')
            del self.known[orig]
        names = set(os.listdir('.'))
        created = sorted(n for n in names - set(self.known) if not (n.startswith('__') and n.endswith('.iter')))
        want = sorted(reported if reported is not None else handed)
        if created != want:
            return ('reported-names-differ-from-created', f'{entry} reported {want}, created {created} ({k} earlier outputs)')
        for nm in created:
            if os.path.islink(nm) or not os.path.isfile(nm):
                return ('reported-name-not-written', f'{nm!r} is not a regular file')
            self._register(nm)
        if entry.startswith('backup'):
            src = original if original is not None else self.known[f'{self.name}.{self.ext}'][:2]
            if self.known[reported[0]][:2] != src:
                return ('backup-differs-from-original', f'{reported[0]!r} holds {self.known[reported[0]][:2]}, the original {src}')
            if removed:
                with open(f'{self.name}.{self.ext}', 'w') as f:
                    f.write(f'current output {k + 1}\n')
                self._register(f'{self.name}.{self.ext}')
        self.last_obj = res_obj
        return None

    def read_back(self, k, entry):
        """Boundary lengths: the pickle written last reads back and is the one estimate(recycle=True) returns."""
        import biogeme.results as res
        if entry not in ('pickle', 'est_hp', 'est_p', 'all'):
            return None
        src = self.r if entry in ('pickle', 'all') else self.last_obj
        fn = src.data.pickleFileName
        try:
            back = res.bioResults(pickle_file=fn, identification_threshold=src.identification_threshold)
        except Exception as e:
            return ('pickle-unreadable', f'{fn}: {type(e).__name__}: {e}')
        d = deep_diff(self.pickled if entry in ('pickle', 'all') else dict(vars(src.data)), dict(vars(back.data)), 'data')
        if d:
            return ('pickle-differs', f'{fn}: {d}')
        if self.pattern == 'kinds':
            # directories / dangling links carry names of the model's pickles: recycling is outside the statement there
            # (same exclusion as in part (iv)); elsewhere every earlier entry is older than the file written last
            return None
        if self.b is None:
            self.b, _, _ = make_model(HKIND, HPOOL, 0, model_name=self.name)
        before = self.verify(full=False)
        if before:
            return before
        try:
            got = estimate(self.b, recycle=True)
        except Exception as e:
            return (f'recycle-raises-{type(e).__name__}', f'estimate(recycle=True) with {k + 1} pickles: {str(e)[:80]}')
        if got.data.userNotes != src.data.userNotes or [bits(v) for v in got.data.betaValues] != [bits(v) for v in src.data.betaValues]:
            return ('recycle-not-the-latest-results', f'estimate(recycle=True) returned the results noted '
                                                      f'{got.data.userNotes!r} instead of the most recent {fn!r} '
                                                      f'({src.data.userNotes!r}); {k + 1} pickles of the model present')
        return self.verify(full=False)

    def step(self, k, boundary):
        """The (k+1)-th output of the name.  None or (clause, detail)."""
        entry = self.entry
        if self.pattern == 'holes' and k % 10 == 9:
            # the user deletes an earlier output; the names of the others stay taken
            victim = self.order[(k // 2) % len(self.order)]
            if victim in self.known and victim not in ('biogeme.toml', f'{self.name}.{self.ext}'):
                self._forget(victim)
        if entry == 'name':
            bad = self.touch(k, self.name, self.ext)
            if not bad and self.pattern == 'two-models':
                # a second model whose name is the first numbered name of this one writes into the same directory
                bad = self.touch(k, f'{self.name}~00', self.ext)
        elif entry == 'all':
            bad = None
            for e in W_OPS:
                bad = bad or self.real(k, e)
        elif entry in L_COSTLY and not boundary:
            bad = None
            for stem, ext in self.families():
                bad = bad or self.touch(k, stem, ext)
        else:
            bad = self.real(k, entry)
        if bad:
            return bad
        bad = self.verify(full=boundary)
        if not bad and boundary:
            bad = self.read_back(k, entry)
        return bad


def _l_violation(rec, task, k, bad):
    clause, detail = bad
    rec.violation(f'C14|long-history:{clause}|entry={task["entry"]},earlier-outputs={len_class(k)}',
                  f'{clause} at output number {k + 1} of the name {task["name"]!r} in one directory (entry point '
                  f'{task["entry"]}, pattern {task["pattern"]}): {detail}',
                  dict(part='L', entry=task['entry'], name=task['name'], ext=task['ext'], pattern=task['pattern'],
                       n=task['n'], upto=k + 1, thin=bool(task.get('thin'))), observed=detail)


def run_long_history(task, rec=None):
    """Outputs 1..n of one name in one directory (replay: 1..upto, same boundary lengths); returns (index of the
    failing output, failure) or (None, None)."""
    n = task['n']
    bset = set(l_boundaries(n, thin=bool(task.get('thin'))))
    h = LongHistory(task['entry'], task['name'], task['ext'], task['pattern'])
    try:
        for k in range(task.get('upto') or n):
            boundary = k in bset
            bad = h.step(k, boundary)
            if rec is not None:
                real = task['entry'] not in L_COSTLY or boundary
                rec.case(('L', task['entry'], task['name'], task['ext'], task['pattern'], k) if k else None,
                         ('L', k, h.order[-1] if h.order else None, bad[0] if bad else None),
                         outcome=('L', task['entry'] if real else 'name', len_class(k), bad[0] if bad else 'ok'))
                rec.count('long_history_outputs')
                if bad:
                    _l_violation(rec, task, k, bad)
            if bad:
                return k, bad
        return None, None
    finally:
        h.close()


def _part_l(task, rec):
    rec.sample(dict(part='L', entry=task['entry'], name=task['name'], ext=task['ext'], pattern=task['pattern'], n=task['n'],
                    boundaries=l_boundaries(task['n'], thin=bool(task.get('thin')))))
    run_long_history(task, rec)


def l_tasks(tier):
    """Every entry point reaches the full bound N with at least two names and the plain pattern; the remaining
    (name, extension, pattern) combinations of the thorough tier run to the quick bound (the length of the history
    and the spelling of the name do not interact beyond the first numbered names)."""
    n, nq = l_bound(tier), l_bound('quick')
    quick = tier == 'quick'
    names = list(dict.fromkeys([MODEL_NAME, 'm~00', 'my model', 'a.b', 'run.1'] if quick else [MODEL_NAME, 'm~00'] + W_NAMES))
    if quick:
        names = names[:4]
    t = []

    def add(entry, name, ext, pattern, bound, **kw):
        t.append(dict(part='L', entry=entry, name=name, ext=ext, pattern=pattern, n=bound, **kw))

    for entry in (['all'] + L_CHEAP[1:6] + L_CHEAP[7:]):
        for pattern in ('files', 'holes'):
            for i, name in enumerate(names[:2]):
                full = pattern == 'files' and (entry != 'all' or i == 0) or (pattern == 'holes' and i == 0 and entry != 'all')
                add(entry, name, 'html', pattern, n if full else nq)
    for entry in L_COSTLY:
        for pattern in (('files',) if quick else ('files', 'kinds')):
            add(entry, MODEL_NAME, 'pickle', pattern, n, thin=quick and entry == 'validate')
    # model names that read as file-name patterns: the saved results are found and recycled at every boundary length
    add('pickle', f'{MODEL_NAME}[1]', 'html', 'files', nq)
    add('est_p', f'{MODEL_NAME}*', 'pickle', 'files', nq, thin=True)
    if not quick:
        add('pickle', f'[{MODEL_NAME[0]}]{MODEL_NAME[1:]}?', 'html', 'holes', nq)
        add('est_hp', f'{MODEL_NAME}[!x]', 'pickle', 'files', nq)
    for ext in ('html', 'pickle', 'tex', 'F12', 'dat'):
        main = ext in ('html', 'pickle')
        for pattern in L_PATTERNS:
            for i, name in enumerate(names if pattern == 'files' else names[:2]):
                if pattern == 'files':
                    full = i < (4 if main else 2)
                else:
                    full = main and i == 0
                if not full and not main and i >= 4:
                    continue
                add('name', name, ext, pattern, n if full else nq)
    return t


# --------------------------------------------------------------------------- part (p): histories on one Parameters object
P_READS = ['read:first', 'read:last', 'read:partial']
PARTIAL_TOML = '# hand written, partial\n[Unknown]\nfoo = 1\n[{s1}]\n{n1} = {v1}\n[{s2}]\n{n2} = "{v2}"\n'


def p_alphabet(seed):
    """(D0 = deviations of the pre-existing full file, SETS = the set_value alphabet, PARTIAL = entries of the
    hand-written file).  Chosen from the seed's deviation alphabet: one value per type, distinct parameters, plus a
    second value for a parameter of D0 (a value read from a file is then overwritten)."""
    devs = deviations(seed)
    dflt = {(n, s): v for n, s, t, v in default_parameter_table()}
    by_type = {}
    for n, s, v in devs:
        if n in ('version',) or same_value('', dflt[(n, s)], v):
            continue
        by_type.setdefault(type(v).__name__, []).append((n, s, v))

    def pick(tn, k, skip=()):
        c = [d for d in by_type.get(tn, []) if (d[0], d[1]) not in skip]
        return c[k % len(c)]

    i0 = pick('int', 1 + seed)
    b0 = pick('bool', seed)
    d0 = [i0, b0]
    i1 = next(d for d in by_type['int'] if (d[0], d[1]) == (i0[0], i0[1]) and d[2] != i0[2])
    used = {(i0[0], i0[1]), (b0[0], b0[1])}
    b1 = pick('bool', seed + 3, used)
    f1 = pick('float', seed + 2, used)
    s1 = pick('str', seed + 1, used)
    sets = [i1, b1, f1, s1]
    used |= {(x[0], x[1]) for x in sets}
    pi = pick('int', seed + 5, used)
    pb = pick('bool', seed + 7, used)
    partial = [pi, pb]
    return d0, sets, partial


class ParamHistory:
    """set_value / dump_file / read_file on ONE Parameters object, with a reference dictionary alongside."""

    def __init__(self, seed):
        _setup()
        from biogeme.parameters import Parameters
        self.dir = fresh_dir('p')
        self.d0, self.sets, self.partial = p_alphabet(seed)
        self.table = default_parameter_table()
        self.types = {(n, s): t for n, s, t, v in self.table}
        self.ref = {(n, s): v for n, s, t, v in self.table}
        first = dict(self.ref)
        for n, s, v in self.d0:
            first[(n, s)] = v
        _params_with(self.d0).dump_file('first.toml')
        (n1, s1, v1), (n2, s2, v2) = self.partial
        with open('partial.toml', 'w', encoding='utf-8') as f:
            f.write(PARTIAL_TOML.format(s1=s1, n1=n1, v1=repr(v1), s2=s2, n2=n2, v2='True' if v2 else 'False'))
        self.files = {'first.toml': first}       # reference: full content of every full file
        self.last = None
        self.p = Parameters()
        self.cached_by = 'none'                  # witness pattern: what filled the object's document last ...
        self.set_since = False                   # ... and whether a value changed afterwards
        self.ndump = 0

    def close(self):
        leave_dir(self.dir)

    def pattern(self):
        return f'document-from={self.cached_by},set-since={self.set_since}'

    def _agree(self, obj, want, what):
        for (n, s), w in want.items():
            try:
                got = obj.get_value(n, s)
            except Exception as e:
                got = f'<raised {type(e).__name__}>'
            if not same_value(self.types[(n, s)], w, got):
                return f'{what}: {s}.{n} is {got!r} ({type(got).__name__}), expected {w!r}'
        return None

    def step(self, op):
        """None, 'skip' or (clause, witness, detail)."""
        import tomllib
        from biogeme.parameters import Parameters
        kind, _, arg = op.partition(':')
        pat = self.pattern()
        try:
            if kind == 'set':
                n, s, v = self.sets[int(arg)]
                self.p.set_value(n, v, s)
                self.ref[(n, s)] = v
                self.set_since = True
            elif kind == 'read':
                if arg == 'last':
                    if self.last is None:
                        return 'skip'
                    fn = self.last
                else:
                    fn = f'{arg}.toml'
                before = open(fn, encoding='utf-8').read()
                self.p.read_file(fn)
                if open(fn, encoding='utf-8').read() != before:
                    return ('read-rewrote-the-file', pat, f'read_file({fn!r}) modified the file')
                if fn in self.files:
                    self.ref = dict(self.files[fn])
                else:
                    for n, s, v in self.partial:
                        self.ref[(n, s)] = v
                self.cached_by, self.set_since = 'read', False
            elif kind == 'dump':
                fn = f'd{self.ndump}.toml'
                self.ndump += 1
                self.p.dump_file(fn)
                text = open(fn, encoding='utf-8').read()
                try:
                    doc = tomllib.loads(text)
                except Exception as e:
                    return ('dump-not-valid-toml', pat, f'{fn}: {e}')
                for (n, s), w in self.ref.items():
                    got = doc.get(s, {}).get(n, '<absent>')
                    ok = got in BOOL_SPELLINGS[w] if isinstance(w, bool) else same_value(self.types[(n, s)], w, got)
                    if not ok:
                        return ('dump-differs-from-current-values', pat,
                                f'{fn} holds {got!r} for {s}.{n}, whose current value is {w!r}')
                q = Parameters()
                q.read_file(fn)
                d = self._agree(q, self.ref, f'fresh object after read_file({fn!r})')
                if d:
                    return ('dump-read-back-differs', pat, d)
                self.files[fn] = dict(self.ref)
                self.last = fn
                self.cached_by, self.set_since = 'dump', False
            else:
                raise ValueError(op)
        except Exception as e:
            if isinstance(e, ValueError) and str(e) == op:
                raise
            return (f'raises-{type(e).__name__}', f'op={kind},{pat}', f'{op} raised {type(e).__name__}: {str(e)[:120]}')
        d = self._agree(self.p, self.ref, f'the object after {op}')
        if d:
            return ('object-differs-from-reference', f'op={kind},{pat}', d)
        return None


def p_ops():
    return [f'set:{i}' for i in range(4)] + ['dump'] + P_READS


def p_depth(tier):
    return 3 if tier == 'quick' else 4


def _p_violation(rec, hist, bad):
    clause, witness, detail = bad
    rec.violation(f'C14|param-history:{clause}|{witness}',
                  f'{clause} after the history {list(hist)} on one Parameters object: {detail}',
                  dict(part='p', history=list(hist)), observed=detail)


def run_param_history(hist, seen=None, rec=None):
    h = ParamHistory(_SEED)
    try:
        for i, op in enumerate(hist):
            bad = h.step(op)
            pre = tuple(hist[:i + 1])
            if bad == 'skip':
                if rec is not None and pre not in seen:
                    seen.add(pre)
                    rec.count('read_last_without_earlier_dump_skipped')
                return i, 'skip'
            if rec is not None and pre not in seen:
                seen.add(pre)
                nt = i > 0
                rec.case(('p', pre) if nt else None, ('p', pre, bad[0] if bad else None),
                         outcome=('p', op.split(':')[0], bad[0] if bad else 'ok'))
                rec.count('param_history_steps')
                if bad:
                    _p_violation(rec, pre, bad)
            if bad:
                return i, bad
        return None, None
    finally:
        h.close()


def _part_p(task, rec):
    seen, dead = set(), set()
    prefix = tuple(task['prefix'])
    d0, sets, partial = p_alphabet(_SEED)
    rec.sample(dict(part='p', prefix=list(prefix), depth=task['depth'], first_file=[list(x) for x in d0],
                    sets=[list(x) for x in sets], partial_file=[list(x) for x in partial]))
    for hist in _simplest_first(prefix + tail for tail in itertools.product(p_ops(), repeat=task['depth'] - len(prefix))):
        if any(hist[:k] in dead for k in range(1, len(hist) + 1)):
            continue
        i, bad = run_param_history(hist, seen, rec)
        if bad:
            dead.add(tuple(hist[:i + 1]))


# --------------------------------------------------------------------------- part (R): two models of related names
# Two models A and B write into ONE directory; their names come from an alphabet of RELATED pairs: the name of A reads
# as a file-name pattern that matches the name of B ([ ] * ? !), is a prefix of the name of B, or B's name is A's name
# followed by '~...' (the separator of the numbered names).  Histories: every sequence (bounded length) of
# X:w (write_pickle of X's results object), X:est (estimate() with HTML + pickle generation), thorough tier also
# X:del (the user deletes X's most recent pickle), X in {A, B}.  After every step, for both models:
#   - nothing that existed is touched, the reported names are new and are the new entries, the new pickle reads back;
#   - files_of_type('pickle' | 'html') of X lists every file X wrote and no file the other model wrote;
#   - estimate(recycle=True) and recycled_estimation() of X return the results X saved last; when X saved nothing, they
#     estimate X's own model (they never hand out the results of the other model).
# Out of the domain (counted): a file of the other model that carries a DOCUMENTED name of this model (name.ext or
# name~NN.ext, e.g. the model 'm~00' next to the model 'm'): the file name alone cannot tell whose it is.
R_OPS = ['A:w', 'B:w', 'A:est', 'B:est']
R_OPS_DEL = ['A:del', 'B:del']
R_OLD = 1.65e9
R_GLOB_CHARS = '*?['
R_MODELS = dict(A=('k2', 0), B=('k1', 1))       # different parameters: the results of A and of B cannot be confused


def r_pairs(seed=None):
    """(name of A, name of B, relation) for the seed's stem."""
    sd = _SEED if seed is None else seed
    s = MODEL_NAMES[sd % len(MODEL_NAMES)]
    c = ['1', 'x', '7', 'b'][sd % 4]            # the character that tells the two names apart
    d = ['2', 'y', '8', 'c'][sd % 4]
    rng = {'1': '0-3', 'x': 'w-z', '7': '5-9', 'b': 'a-c'}[c]
    pairs = [
        (f'{s}[{c}]', f'{s}{c}', 'pattern:set'),            # 'm[1]' matches 'm1', not itself
        (f'{s}{c}', f'{s}[{c}]', 'plain-next-to-pattern'),
        (f'{s}[{rng}]', f'{s}{c}', 'pattern:range'),
        (f'{s}[!{d}]', f'{s}{c}', 'pattern:negated-set'),
        (f'{s}*', f'{s}{c}{d}', 'pattern:star'),              # 'm*' matches every name that starts with m
        (f'{s}?', f'{s}{c}', 'pattern:question-mark'),
        (f'[{s[0]}]{s[1:]}', s, 'pattern:leading-set'),
        (f'{s}[{c}', f'{s}{c}', 'pattern:unclosed-bracket'),  # no pattern at all: taken literally by every reading
        (f'{s}]{c}', f'{s}{c}', 'pattern:closing-bracket-only'),
        (f'{s}[[]', f'{s}[', 'pattern:set-of-bracket'),
        ('*', s, 'pattern:star-alone'),
        (f'{s}[{c}]*', f'{s}{c}.{d}', 'pattern:set+star'),
        (s, f'{s}{c}', 'prefix'),
        (s, f'{s}.{c}', 'prefix:dot'),
        (s, f'{s}_{c}', 'prefix:underscore'),
        (s, f'{s} {c}', 'prefix:blank'),
        (s, f'{s}.pickle', 'prefix:extension-in-name'),
        (s, f'{s}~{c if not c.isdigit() else "v" + c}', 'tilde:suffix-not-a-number'),
        (s, f'{s}~', 'tilde:bare'),
        (f'{s}~', f'{s}~~{c}', 'tilde:both'),
        (f'{s}~{d if not d.isdigit() else "w" + d}', f'{s}~{c if not c.isdigit() else "v" + c}', 'tilde:siblings'),
        (s, f'{s}~00', 'tilde:first-numbered-name'),        # inherently ambiguous for A (counted), B is held to everything
        (s, f'{s}~7', 'tilde:one-digit'),                   # 'xx is an integer': ambiguous as well
    ]
    return pairs


# relations explored in the thorough tier only (each has a close relative in the quick tier)
R_THOROUGH_ONLY = ('pattern:range', 'pattern:closing-bracket-only', 'pattern:unclosed-bracket', 'pattern:set+star',
                   'prefix:underscore', 'prefix:blank', 'tilde:siblings', 'tilde:one-digit')


def r_witness(x_name, y_name):
    """Class of the (this model, other model) names for the finding key."""
    if any(ch in x_name for ch in R_GLOB_CHARS):
        return 'model-name-with-pattern-characters'
    if y_name.startswith(x_name + '~'):
        return 'other-model-name-is-this-name-plus-tilde-suffix'
    if y_name.startswith(x_name):
        return 'other-model-name-extends-this-name'
    if '~' in x_name:
        return 'model-name-with-tilde'
    return 'plain-model-name'


def r_documented_name_of(x_name, fn, ext):
    """Is fn a name the documented rule gives to outputs of the model x_name (name.ext, name~xx.ext, xx an integer)?"""
    return fn == f'{x_name}.{ext}' or re.fullmatch(re.escape(x_name) + r'~\d+\.' + re.escape(ext), fn) is not None


class PairHistory:
    """Two models of related names in one directory; a reference model records who wrote what, in which order."""

    def __init__(self, names, models):
        _setup()
        self.names = dict(A=names[0], B=names[1])
        self.dir = fresh_dir('R')
        self.bio = models                      # {'A': BIOGEME, 'B': BIOGEME} (owned by the task, names set here)
        self.free = {}
        self.res = {}
        for x, (kind, pool) in R_MODELS.items():
            self.res[x], self.free[x], _ = pristine_results(kind, pool, 0)
            self.res[x].data.modelName = self.names[x]
            self.bio[x].modelName = self.names[x]
        self.own = dict(A=[], B=[])            # reference: (file name, ext, notes, beta bits) in write order
        self.clock = 0
        self.snap = snapshot()
        self.nout = 0
        self.trash = []                        # deleted files (for undo)

    def close(self):
        leave_dir(self.dir)

    # -- depth-first exploration: a step is undone on the harness side (the directory and the reference model are put
    # back; the library keeps no state about the directory)
    def mark(self):
        return (dict(A=list(self.own['A']), B=list(self.own['B'])), self.clock, self.nout, self.snap, len(self.trash))

    def undo(self, mark):
        own, clock, nout, snap, ntrash = mark
        while len(self.trash) > ntrash:
            fn, data, times = self.trash.pop()
            with open(fn, 'wb') as f:
                f.write(data)
            os.utime(fn, ns=times)
        for fn in os.listdir('.'):
            if fn not in snap:
                os.remove(fn)
        self.own, self.clock, self.nout, self.snap = own, clock, nout, snap

    def _age(self, fn):
        self.clock += 1
        os.utime(fn, (R_OLD + self.clock, R_OLD + self.clock))

    # -- one write step -----------------------------------------------------------
    def step(self, op):
        """None, 'skip' or (clause, witness, detail)."""
        import biogeme.results as res
        x, _, what = op.partition(':')
        y = 'B' if x == 'A' else 'A'
        name = self.names[x]
        wit = r_witness(name, self.names[y])
        before = self.snap
        if what == 'del':
            mine = [o for o in self.own[x] if o[1] == 'pickle']
            if not mine:
                return 'skip'
            st = os.stat(mine[-1][0])
            with open(mine[-1][0], 'rb') as f:
                self.trash.append((mine[-1][0], f.read(), (st.st_atime_ns, st.st_mtime_ns)))
            os.remove(mine[-1][0])
            self.own[x].remove(mine[-1])
            self.snap = snapshot()
            return None
        self.nout += 1
        try:
            if what == 'w':
                r = self.res[x]
                r.data.userNotes = f'{x}: written as output {self.nout}'
                reported = [(r.write_pickle(), 'pickle')]
                src = r
            elif what == 'est':
                b = self.bio[x]
                b.generate_html = b.generate_pickle = True
                b.user_notes = f'{x}: estimated as output {self.nout}'
                try:
                    src = estimate(b)
                finally:
                    b.generate_html = b.generate_pickle = False
                reported = [(src.data.htmlFileName, 'html'), (src.data.pickleFileName, 'pickle')]
            else:
                raise ValueError(op)
        except Exception as e:
            if isinstance(e, ValueError) and str(e) == op:
                raise
            return (f'raises-{type(e).__name__}', f'op={what},{wit}',
                    f'{op} raised {type(e).__name__}: {str(e).splitlines()[0][:80] if str(e) else ""}')
        after = snapshot()
        for k, v in before.items():
            if after.get(k) != v:
                return ('existing-entry-changed', f'op={what},{wit}', f'{k!r} was {v}, is {after.get(k)} after {op}')
        for fn, ext in reported:
            if fn in before:
                return ('reported-name-existed', f'op={what},{wit}', f'{op} reported {fn!r}, which existed before as {before[fn]}')
            if after.get(fn, ('', ''))[0] != 'file':
                return ('reported-name-not-written', f'op={what},{wit}', f'{op} reported {fn!r}; directory {sorted(after)}')
        created = sorted(k for k in after if k not in before and not (k.startswith('__') and k.endswith('.iter')))
        if created != sorted(fn for fn, _ in reported):
            return ('reported-names-differ-from-created', f'op={what},{wit}', f'{op} reported {reported}, created {created}')
        for fn, ext in reported:
            if ext == 'pickle':
                try:
                    back = res.bioResults(pickle_file=fn, identification_threshold=src.identification_threshold)
                except Exception as e:
                    return ('pickle-unreadable', f'op={what},{wit}', f'{fn}: {type(e).__name__}: {e}')
                d = deep_diff(dict(vars(src.data)), dict(vars(back.data)), 'data')
                if d:
                    return ('pickle-differs', f'op={what},{wit}', f'{fn}: {d}')
            self._age(fn)
            self.own[x].append((fn, ext, src.data.userNotes, tuple(bits(v) for v in src.data.betaValues)))
        self.snap = snapshot()
        return None

    # -- what both models see afterwards --------------------------------------------
    def observe(self, rec=None):
        """After a step: the saved results each model finds and recycles.  Returns (labels, failure or None)."""
        labels = []
        for x in ('A', 'B'):
            y = 'B' if x == 'A' else 'A'
            name, b = self.names[x], self.bio[x]
            wit = r_witness(name, self.names[y])
            mine = [o for o in self.own[x] if o[1] == 'pickle']
            theirs = [o[0] for o in self.own[y] if o[1] == 'pickle']
            ambiguous = [fn for fn in theirs if r_documented_name_of(name, fn, 'pickle')]
            if ambiguous:
                # the file name alone cannot tell whose results these are: nothing is demanded of this model here
                if rec is not None:
                    rec.count('file_of_the_other_model_carries_a_documented_name_of_this_model_out_of_domain')
                labels.append('ambiguous')
                continue
            for entry in ('estimate(recycle=True)', 'recycled_estimation()'):
                b.user_notes = f'{x}: fresh estimation'
                before = self.snap
                try:
                    got = estimate(b, recycle=True) if entry.startswith('estimate') else b.recycled_estimation()
                except Exception as e:
                    return labels, (f'recycle-raises-{type(e).__name__}', wit,
                                    f'{entry} of the model {name!r} raised {type(e).__name__}: {str(e)[:80]} '
                                    f'(directory: {sorted(self.snap)})')
                gv = tuple(bits(v) for v in got.data.betaValues)
                notes = got.data.userNotes
                other = [o for o in self.own[y] if o[1] == 'pickle' and (o[2], o[3]) == (notes, gv)]
                if other or list(got.data.betaNames) != list(self.free[x]):
                    return labels, ('saved-results-of-another-model-taken-for-own', wit,
                                    f'{entry} of the model {name!r} (parameters {self.free[x]}) returned results with the '
                                    f'parameters {list(got.data.betaNames)} noted {notes!r}: the file '
                                    f'{[o[0] for o in other]} of the model {self.names[y]!r} (own pickles: {[o[0] for o in mine]})')
                if mine:
                    if (notes, gv) != (mine[-1][2], mine[-1][3]):
                        if notes == f'{x}: fresh estimation':
                            return labels, ('own-saved-results-not-found', wit,
                                            f'{entry} of the model {name!r} estimated again although the model saved '
                                            f'{[o[0] for o in mine]}')
                        return labels, ('recycle-not-the-latest-results', f'pair,{wit}',
                                        f'{entry} of the model {name!r} returned the results noted {notes!r} instead of '
                                        f'the most recent {mine[-1][0]!r} ({mine[-1][2]!r})')
                elif notes != f'{x}: fresh estimation':
                    return labels, ('recycle-without-saved-results-returns-something-else', wit,
                                    f'{entry} of the model {name!r}, which saved nothing, returned results noted {notes!r}')
                if snapshot() != before:
                    return labels, ('recycle-wrote-files', wit, f'{entry} of the model {name!r} changed the directory')
            # the list of saved results the model goes by (the mechanism of recycling): every file the model saved, no
            # file the other model saved - otherwise some continuation of the history recycles the wrong results
            try:
                found = set(b.files_of_type('pickle'))
            except Exception as e:
                return labels, (f'files_of_type-raises-{type(e).__name__}', wit, f'{name!r}.files_of_type("pickle"): {e}')
            missing = sorted({o[0] for o in mine} - found)
            if missing:
                return labels, ('own-saved-results-not-found', wit,
                                f'the model {name!r} saved {[o[0] for o in mine]}; files_of_type("pickle") gives '
                                f'{sorted(found)} (directory: {sorted(self.snap)})')
            taken = sorted(found & set(theirs))
            if taken:
                return labels, ('saved-results-of-another-model-taken-for-own', wit,
                                f'files_of_type("pickle") of the model {name!r} lists {taken}, saved by the model '
                                f'{self.names[y]!r} (own files: {[o[0] for o in mine]})')
            labels.append('own-latest' if mine else 'fresh-estimation')
        return labels, None


def r_models():
    out = {}
    for x, (kind, pool) in R_MODELS.items():
        out[x], _, _ = make_model(kind, pool, 0, model_name=x)
    return out


def _r_violation(rec, names, rel, hist, bad):
    clause, witness, detail = bad
    rec.violation(f'C14|{clause}|{witness}',
                  f'{clause} after the history {list(hist)} of the models A = {names[0]!r} and B = {names[1]!r} ({rel}) in one '
                  f'directory: {detail}', dict(part='R', a=names[0], b=names[1], rel=rel, history=list(hist)), observed=detail)


def run_pair_history(names, rel, hist, models=None, seen=None, rec=None):
    """Executes hist; every prefix is a history of its own (observed once).  Returns (failing index, failure)."""
    h = PairHistory(names, models or r_models())
    try:
        for i, op in enumerate(hist):
            pre = tuple(hist[:i + 1])
            bad = h.step(op)
            if bad == 'skip':
                if rec is not None and pre not in seen:
                    seen.add(pre)
                    rec.count('delete_without_an_own_pickle_skipped')
                return i, 'skip'
            labels = []
            if not bad and (rec is None or pre not in seen):
                labels, bad = h.observe(rec)
            if rec is not None and pre not in seen:
                seen.add(pre)
                rec.case(('R', names[0], names[1], pre) if i > 0 else None, ('R', names, pre, labels, bad[0] if bad else None),
                         outcome=('R', op.split(':')[1], tuple(labels), bad[0] if bad else 'ok'))
                rec.count('pair_history_steps')
                if bad:
                    _r_violation(rec, names, rel, pre, bad)
            if bad:
                return i, bad
        return None, None
    finally:
        h.close()


def _part_r(task, rec):
    names, rel = (task['a'], task['b']), task['rel']
    ops = list(R_OPS) + (R_OPS_DEL if task.get('dels') else [])
    rec.sample(dict(part='R', a=names[0], b=names[1], rel=rel, ops=ops, depth=task['depth']))
    h = PairHistory(names, r_models())
    dead = set()

    def dfs(hist, target):
        for op in ops:
            pre = hist + (op,)
            if (not hist and task.get('first') and op != task['first']) or pre in dead:
                continue
            mark = h.mark()
            bad = h.step(op)
            if len(pre) < target:
                if bad:   # cannot happen: the prefix passed when it was the target
                    raise RuntimeError(f're-execution of {pre} for {names} diverged: {bad}')
                dfs(pre, target)
            elif bad == 'skip':
                rec.count('delete_without_an_own_pickle_skipped')
                dead.add(pre)
            else:
                labels = []
                if not bad:
                    labels, bad = h.observe(rec)
                rec.case(('R', names[0], names[1], pre) if len(pre) > 1 else None,
                         ('R', names, pre, labels, bad[0] if bad else None),
                         outcome=('R', op.split(':')[1], tuple(labels), bad[0] if bad else 'ok'))
                rec.count('pair_history_steps')
                if bad:
                    _r_violation(rec, names, rel, pre, bad)
                    dead.add(pre)    # its extensions are not histories of a correct run
            h.undo(mark)

    try:
        for target in range(1, task['depth'] + 1):     # shortest histories first
            dfs((), target)
    finally:
        h.close()


def r_tasks(tier):
    t = []
    for a, b, rel in r_pairs():
        if tier == 'quick':
            if rel in R_THOROUGH_ONLY:
                continue
            t.append(dict(part='R', a=a, b=b, rel=rel, depth=3))
        else:
            for first in R_OPS:
                t.append(dict(part='R', a=a, b=b, rel=rel, depth=4, first=first))
            t.append(dict(part='R', a=a, b=b, rel=rel, depth=3, dels=True))
    return t


# --------------------------------------------------------------------------- part (fn): names of the parameter file
# The round trip of part (ii) under an alphabet of FILE NAMES.  Reference rule of an admissible name (the one the
# library documents for read_file: the base name is not empty, holds none of < > : " / \ | ? * and is at most 255
# characters long): a parameter set dumped under an admissible name reads back under that name.  A name that the rule
# excludes is outside the statement (counted): read_file documents that it ignores such a file.
FN_INVALID = '<>:"/\\|?*'
FN_NAMES = ['p.toml', 'my params.toml', 'a.b.c.toml', 'noextension', 'é β.toml', 'm[1].toml', 'm~00.toml', '.hidden.toml',
            'sub dir/p.toml', 'UPPER.TOML', ' lead.toml', 'trail .toml', "it's.toml", 'a#b.toml', 'a=b.toml', 'x' * 200 + '.toml',
            'a:b.toml', 'a?b.toml', 'a*b.toml', 'a|b.toml', 'a<b>.toml', 'a"b.toml', 'a\\b.toml']


def fn_admissible(fname) -> bool:
    base = os.path.basename(fname)
    return bool(base) and not any(ch in FN_INVALID for ch in base) and len(base) <= 255


def fn_class(fname):
    base = os.path.basename(fname)
    cls = [lab for lab, ok in (('blank', ' ' in base), ('non-ascii', any(ord(ch) > 127 for ch in base)),
                               ('bracket', '[' in base), ('tilde', '~' in base), ('sub-directory', '/' in fname),
                               ('no-extension', '.' not in base), ('hidden', base.startswith('.')),
                               ('long', len(base) > 100)) if ok]
    return '+'.join(cls) or 'plain'


def check_file_name(fname, devs, rec):
    import tomllib
    from biogeme.parameters import Parameters
    case = dict(part='fn', fname=fname, devs=[list(x) for x in devs])
    ck = ('fn', fname, tuple((n, s, _vkey(v)) for n, s, v in devs))
    if not fn_admissible(fname):
        rec.count('parameter_file_name_not_admissible_out_of_domain')
        rec.case(None, ('fn', fname, 'out of domain'), outcome=('fn', 'name-not-admissible'))
        return
    p = _params_with(devs)
    want = {(k.name, k.section): t.value for k, t in p.all_parameters_dict.items()}
    types = {(k.name, k.section): t.type.__name__ for k, t in p.all_parameters_dict.items()}
    d = fresh_dir('fn')

    def fail(clause, detail, observed):
        rec.case(ck, ('fn', fname, clause), outcome=('fn', clause))
        rec.violation(f'C14|toml-file-name:{clause}|name-class={fn_class(fname)}',
                      f'parameter file named {fname!r} (deviations from the defaults {case["devs"]}): {detail}', case,
                      observed=observed)

    try:
        if os.path.dirname(fname):
            os.makedirs(os.path.dirname(fname))
        before = snapshot()
        try:
            p.dump_file(fname)
        except Exception as e:
            return fail(f'dump-raises-{type(e).__name__}', f'dump_file raised {type(e).__name__}: {str(e)[:100]}', repr(e)[:200])
        if not os.path.isfile(fname):
            return fail('dump-wrote-no-such-file', f'no file of that name after dump_file; directory {sorted(snapshot())}', None)
        try:
            doc = tomllib.loads(open(fname, encoding='utf-8').read())
        except Exception as e:
            return fail('dump-not-valid-toml', f'the dumped file is not valid TOML: {e}', str(e)[:200])
        text = open(fname, 'rb').read()
        q = Parameters()
        try:
            q.read_file(fname)
        except Exception as e:
            return fail(f'read-raises-{type(e).__name__}', f'read_file raised {type(e).__name__}: {str(e)[:100]}', repr(e)[:200])
        if open(fname, 'rb').read() != text:
            return fail('read-rewrote-the-file', 'read_file modified the file', None)
        for (name, section), w in want.items():
            got = q.get_value(name, section)
            if not same_value(types[(name, section)], w, got):
                return fail('value-differs', f'{section}.{name} = {w!r} came back as {got!r}', repr(got))
        extra = sorted(set(snapshot()) - set(before) - {fname.split('/')[0]})
        if extra:
            return fail('other-files-created', f'dump_file / read_file also created {extra}', extra)
        rec.case(ck, ('fn', fname, 'ok'), outcome=('fn', 'ok', fn_class(fname)))
    finally:
        leave_dir(d)


def _part_fn(task, rec):
    devs_all = deviations(_SEED)
    # one deviation per value type (the first of each), together and alone
    per_type = {}
    for n, s, v in devs_all:
        if n != 'version':
            per_type.setdefault(type(v).__name__, (n, s, v))
    sets = [[]] + [[d] for d in per_type.values()] + [list(per_type.values())]
    rec.sample(dict(part='fn', names=task['names'], deviation_sets=[[list(x) for x in s] for s in sets]))
    for fname in task['names']:
        for devs in sets:
            check_file_name(fname, devs, rec)


# --------------------------------------------------------------------------- tasks
def _result_specs(tier):
    specs = []
    pools = range(len(NAME_POOLS))
    for kind in KINDS:
        for pool in pools:
            for boot in (0, 3):
                if kind == 'k1' and boot:
                    continue  # K = 1 with bootstrap: np.cov gives a 0-d array and bioResults raises (outside C14)
                if tier == 'quick' and boot and not (pool in (0, 2) or kind == 'k3'):
                    continue
                for table in ([None] if tier == 'quick' else [None] + [i for i in range(len(TABLES))
                                                                         if i != _SEED % len(TABLES)]):
                    specs.append(dict(kind=kind, pool=pool, boot=boot, table=table))
    specs.sort(key=lambda s: (s['table'] is not None, s['boot'], KINDS.index(s['kind']), s['pool'], s['table'] or 0))
    return specs


def tasks(tier, seed):
    t = []
    # (n) naming helpers
    for name, ext in ((MODEL_NAME, 'html'), (f'{DBNAME}_dumped', 'dat'), (MODEL_NAME, 'pickle'),
                      (f'{MODEL_NAME}[1]*?', 'pickle')):
        t.append(dict(part='n', name=name, ext=ext, kinds=['absent', 'file', 'dir', 'link']))
    # (ii) parameter file
    devs = deviations(seed)
    singles = [[list(d)] for d in devs]
    t.append(dict(part='ii', sub='dev', sets=[[]], biogeme=True))
    for i in range(0, len(singles), 12):
        t.append(dict(part='ii', sub='dev', sets=singles[i:i + 12], biogeme=True))
    pairs = []
    for a, b in itertools.combinations(devs, 2):
        if (a[0], a[1]) == (b[0], b[1]):
            continue
        if tier == 'quick' and a[1] != b[1]:
            continue
        pairs.append([list(a), list(b)])
    for i in range(0, len(pairs), 40):
        t.append(dict(part='ii', sub='dev', sets=pairs[i:i + 40], biogeme=False))
    items = handwritten_items(seed)
    for i in range(0, len(items), 60):
        t.append(dict(part='ii', sub='hw', items=[list(x) for x in items[i:i + 60]]))
    # (i) and (iii) per results object
    for s in _result_specs(tier):
        t.append(dict(part='iii', **s))
        t.append(dict(part='i', **s))
    # (i) under a non-default identification threshold (quick: the large one, results without bootstrap)
    for s in _result_specs(tier):
        for thr in ((1,) if tier == 'quick' else (1, 2)):
            if tier == 'quick' and s['boot']:
                continue
            t.append(dict(part='i', thr=thr, **s))
    # (i) and (iii) for the other kinds of results objects: without derivatives (quick_estimate, also with a
    # bootstrap matrix left by an earlier estimate) and with the null-model statistics
    for s in _result_specs(tier):
        for how in HOWS[1:]:
            if (how == 'quickboot') != bool(s['boot']):
                continue
            if how == 'null' and tier == 'quick' and (s['boot'] or s['pool'] % 2):
                continue
            t.append(dict(part='iii', how=how, **s))
            t.append(dict(part='i', how=how, **s))
    # (fig) every figure of every report over the magnitude / special-value alphabet
    t.extend(fig_tasks(tier))
    # (vt) value types of every parameter
    npar = len(default_parameter_table())
    for lo in range(0, npar, 6):
        t.append(dict(part='vt', lo=lo, hi=lo + 6))
    # (L) long histories of one name in one directory
    t.extend(l_tasks(tier))
    # (R) two models of related names (pattern characters, prefixes, '~') writing into one directory
    t.extend(r_tasks(tier))
    # (fn) names of the parameter file
    for i in range(0, len(FN_NAMES), 6):
        t.append(dict(part='fn', names=FN_NAMES[i:i + 6]))
    # (p) histories on one Parameters object
    ops = p_ops()
    for pre in itertools.product(ops, repeat=1 if tier == 'quick' else 2):
        t.append(dict(part='p', prefix=list(pre), depth=p_depth(tier)))
    # (w) writer histories x model names x pre-populated directories
    names = list(W_NAMES) + ([MODEL_NAME] if MODEL_NAME not in W_NAMES else [])
    for root in W_ROOTS:
        for name in names:
            if tier == 'quick':
                t.append(dict(part='w', name=name, root=root, depth=w_depth(tier)))
            else:
                for first in W_OPS:
                    t.append(dict(part='w', name=name, root=root, depth=w_depth(tier), first=first))
    return t


def run_task(task):
    rec = Rec()
    _setup()
    part = task['part']
    if part == 'i':
        _part_i(task, rec)
    elif part == 'ii':
        _part_ii(task, rec)
    elif part == 'iii':
        _part_iii(task, rec)
    elif part == 'n':
        _part_n(task, rec)
    elif part == 'w':
        _part_w(task, rec)
    elif part == 'p':
        _part_p(task, rec)
    elif part == 'L':
        _part_l(task, rec)
    elif part == 'fig':
        _part_fig(task, rec)
    elif part == 'vt':
        _part_vt(task, rec)
    elif part == 'R':
        _part_r(task, rec)
    elif part == 'fn':
        _part_fn(task, rec)
    else:
        raise ValueError(part)
    return rec.result()


# --------------------------------------------------------------------------- replay
def replay(case):
    rec = Rec()
    _setup()
    _STATE.pop('base', None)
    part = case['part']
    if part == 'i':
        _part_i(case, rec)
    elif part == 'iii':
        _part_iii(case, rec)
    elif part == 'ii':
        check_toml_roundtrip([tuple(x) for x in case['devs']], rec, True)
    elif part == 'hw':
        check_handwritten(tuple(case['item']), rec)
    elif part == 'n':
        _part_n(dict(part='n', name=case['name'], ext=case['ext'], kinds=['absent', 'file', 'dir', 'link']), rec)
        rec.violations = [v for v in rec.violations if v['case'].get('assign') == case.get('assign')] or rec.violations
    elif part == 'w':
        i, bad = run_writer_history(case['name'], case['root'], case['history'])
        if bad:
            _w_violation(rec, case['name'], case['root'], case['history'][: i + 1], bad)
    elif part == 'p':
        i, bad = run_param_history(case['history'])
        if bad and bad != 'skip':
            _p_violation(rec, case['history'][: i + 1], bad)
    elif part == 'L':
        k, bad = run_long_history(case)
        if bad:
            _l_violation(rec, case, k, bad)
    elif part == 'fig':
        check_fig_object(case, rec, roundtrip=True, full=True)
    elif part == 'vt':
        for label, v in vt_values(case['tname'], case.get('seed', _SEED)):
            if label == case['label'] and repr(v) == case['value']:
                check_value_type(case['name'], case['section'], case['tname'], label, v, rec)
                break
    elif part == 'R':
        i, bad = run_pair_history((case['a'], case['b']), case.get('rel'), case['history'])
        if bad and bad != 'skip':
            _r_violation(rec, (case['a'], case['b']), case.get('rel'), case['history'][: i + 1], bad)
    elif part == 'fn':
        check_file_name(case['fname'], [tuple(x) for x in case['devs']], rec)
    elif part == 'iv':
        h, i, bad = run_history(case['root'], case['history'])
        try:
            if bad:
                _violation_from(rec, case['root'], case['history'][: i + 1], bad)
        finally:
            h.close()
    return rec.violations
