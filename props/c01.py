"""C01 — every expression evaluates to its mathematical value on both evaluation paths.

Exhaustive enumeration, on the real library + engine, of
 (1) every (parent kind, operand slot, child kind) triple of the expression language, two filler
     rotations, two parameter points (defaults; a dictionary naming only some parameters), all rows;
 (2) [thorough] all trees to depth 2 over 8 unary / 12 binary kinds and a 5-leaf alphabet, and all
     depth-3 chains P(Q(R(.))) over every kind;
 (3) sharing: P(s, s) with one Python object versus two equal copies, and one node under two parents;
 (4) side by side: BIOGEME.simulate on dictionaries of 2-3 pool formulas versus each formula alone;
 (5) the pure-Python evaluator get_value() and the no-database engine path on the variable-free
     variant of every triple.
Oracle: vf.refsem (plain Python), rel 1e-10.
"""
from __future__ import annotations

import itertools
import math

from vf import refsem as R
from vf import termgen as G
from vf.rec import Rec

ID = 'C01'
LEVEL = 'exploration'
TECHNIQUE = 'bounded exhaustive enumeration of expression trees (operator-position closure, all small trees, sharing, side-by-side) on the real engine vs a plain-Python reference semantics'
RULE = ('one case = one (formula, parameter point, evaluation path) evaluated on all in-domain rows; formulas: every '
        '(parent kind, slot, child kind) triple x 2 filler rotations, sharing variants, side-by-side dictionaries, '
        '[thorough] all depth<=2 trees and depth-3 chains. Non-trivial = at least one row compared against the reference '
        '(rows out of domain / on a fragile branch / ill-conditioned are excluded and counted); distinct = distinct '
        '(formula, point, path).')
ASSUMPTIONS = [
    'values only at the alphabet grid points (5-row tables, 2-3 parameter points per seed)',
    'regular domain only: log/power arguments > 1e-9, |values| < 1e8, keys present, chosen alternative available',
    'comparison tolerance rel 1e-10 + abs 1e-12; fragile branches (ties closer than 1e-9 between inexact operands) excluded',
]
ANCHOR_FILES = ['src/biogeme/expressions/base_expressions.py', 'src/biogeme/expressions/calculator.py',
                'src/biogeme/expressions/idmanager.py', 'src/biogeme/expressions/binary_expressions.py',
                'src/biogeme/expressions/unary_expressions.py', 'src/biogeme/expressions/nary_expressions.py',
                'src/biogeme/expressions/logit_expressions.py', 'src/biogeme/expressions/comparison_expressions.py',
                'src/biogeme/expressions/elementary_expressions.py', 'src/biogeme/expressions/beta_parameters.py',
                'src/biogeme/expressions/numeric_expressions.py', 'src/biogeme/expressions/convert.py',
                'src/biogeme/biogeme.py']


class StopTask(Exception):
    pass


def valid_rows(term, full, rec):
    rows, refs = [], []
    for i, row in enumerate(G.ROWS):
        try:
            v = R.evaluate(term, row, full)
        except R.OutOfDomain:
            rec.count('rows_skipped_out_of_domain')
            continue
        except R.Fragile:
            rec.count('rows_skipped_fragile_branch')
            continue
        if R.ill_conditioned(term, row, full, base=v):
            rec.count('rows_skipped_ill_conditioned')
            continue
        rows.append((i, row))
        refs.append(v)
    return rows, refs


def _tail_ncdf(term, row, full):
    """True when some bioNormalCdf argument is >= 6 (engine's upper tail, see known findings)."""
    found = [False]

    def rec_(t):
        if t[0] == 'ncdf':
            try:
                if R.evaluate(t[1], row, full, strict=False) >= 6.0:
                    found[0] = True
            except (R.OutOfDomain, R.Fragile):
                pass
        for c in R.children(t):
            rec_(c)

    rec_(term)
    return found[0]


def check_engine(term, rec, tag, keyname, case, share=False, av_order='same'):
    """Engine path on all in-domain rows, both parameter points."""
    from vf.engine import make_db, engine_values, is_engine_error

    for label, betas_arg, full in G.param_points():
        rows, refs = valid_rows(term, full, rec)
        if not rows:
            rec.case(None, (tag, label, 'no-row'), outcome='no-valid-row')
            rec.count('formula_points_without_valid_row')
            continue
        try:
            expr = R.Builder(G.betas_spec(), share=share, av_order=av_order).build(term)
            db = make_db([r for _, r in rows], G.COLUMNS)
            vals = engine_values(expr, db, betas_arg)
        except Exception as e:
            rec.case((tag, label, 'engine'), (tag, label, type(e).__name__), outcome='raised')
            rec.violation(f'C01|engine-path-raised-{type(e).__name__}|{keyname}',
                          f'in-domain formula {R.show(term)} raised {type(e).__name__}: {str(e)[:300]}',
                          dict(case, point=label), observed=repr(e)[:500])
            if is_engine_error(e):
                rec.retire = True
                raise StopTask()
            continue
        rec.case((tag, label, 'engine'), (tag, label, [round(v, 9) for v in vals]), outcome=('ok', len(rows)))
        rec.count('rows_compared', len(rows))
        if len(vals) != len(refs):
            rec.violation(f'C01|engine-value-count|{keyname}', f'{len(vals)} values for {len(refs)} rows: {R.show(term)}',
                          dict(case, point=label))
            continue
        for (i, row), got, want in zip(rows, vals, refs):
            if not R.close(got, want):
                k = keyname
                if _tail_ncdf(term, row, full):
                    k = 'ncdf:upper-tail(x>=6)'
                rec.violation(f'C01|engine-value|{k}',
                              f'engine value {got!r} != mathematical value {want!r} for {R.show(term)} on row {i} ({label})',
                              dict(case, point=label, row=i), expected=want, observed=got)
                break


def check_python(term, rec, tag, keyname, case):
    """Variable-free variant (row 0 substituted as constants): get_value() and the engine without database."""
    row = G.ROWS[0]
    full = dict(G.PARAMS)
    mapping = {('var', c): ('num', row[c]) for c in G.COLUMNS}
    t2 = R.subst(term, mapping)
    try:
        want = R.evaluate(t2, {}, full)
    except (R.OutOfDomain, R.Fragile):
        rec.count('python_path_skipped_out_of_domain_or_fragile')
        return
    if R.ill_conditioned(t2, {}, full, base=want):
        rec.count('python_path_skipped_ill_conditioned')
        return
    from vf.engine import is_engine_error
    try:
        expr = R.Builder(G.betas_spec()).build(t2)
    except Exception as e:
        rec.violation(f'C01|builder-raised-{type(e).__name__}|{keyname}', f'{R.show(t2)}: {e}', dict(case, path='python'))
        return
    # pure-Python evaluator
    try:
        got = float(expr.get_value())
        rec.case((tag, 'python'), (tag, 'py', round(got, 9)), outcome='py-ok')
        if not R.close(got, want):
            rec.violation(f'C01|python-value|{keyname}',
                          f'get_value() = {got!r} != mathematical value {want!r} for {R.show(t2)}',
                          dict(case, path='python'), expected=want, observed=got)
    except Exception as e:
        if type(e).__name__ == 'NotImplementedError':  # builtin or biogeme.exceptions.NotImplementedError
            # "where the pure-Python evaluator accepts the same formula": this one is not accepted
            rec.case(None, (tag, 'py', 'not-accepted'), outcome='py-not-accepted')
            rec.count('python_evaluator_not_accepted')
        else:
            rec.case((tag, 'python'), (tag, 'py', type(e).__name__), outcome='py-raised')
            rec.violation(f'C01|python-evaluator-raised-{type(e).__name__}|{keyname}',
                          f'get_value() raised {type(e).__name__}: {str(e)[:200]} on in-domain {R.show(t2)}',
                          dict(case, path='python'), observed=repr(e)[:300])
    # engine without a database
    try:
        got = float(expr.get_value_c(prepare_ids=True))
        rec.case((tag, 'nodb'), (tag, 'nodb', round(got, 9)), outcome='nodb-ok')
        if not R.close(got, want):
            rec.violation(f'C01|engine-value-no-database|{keyname}',
                          f'get_value_c() without database = {got!r} != {want!r} for {R.show(t2)}',
                          dict(case, path='nodb'), expected=want, observed=got)
    except Exception as e:
        rec.case((tag, 'nodb'), (tag, 'nodb', type(e).__name__), outcome='nodb-raised')
        rec.violation(f'C01|engine-path-raised-{type(e).__name__}|nodb:{keyname}',
                      f'get_value_c() without database raised {type(e).__name__}: {str(e)[:200]} on {R.show(t2)}',
                      dict(case, path='nodb'), observed=repr(e)[:300])
        if is_engine_error(e):
            rec.retire = True
            raise StopTask()


# ------------------------------------------------------------------ formula families
def triple_list():
    return list(G.triples())


SHARE_PARENTS = ['+', '-', '*', 'min', 'max', '<=', '>', 'multsum', 'multsumd', 'condsum', 'elem', 'loglogit_full', '/', '**']


def share_terms():
    """(tag, builder-shared term, unshared-equal term)"""
    out = []
    for p in SHARE_PARENTS:
        types, ctor = G.KINDS[p]
        slots = [i for i, t in enumerate(types) if t in ('any', 'pos')]
        if len(slots) < 2:
            continue
        for q in G.all_child_kinds():
            rot = G.Rot(0)
            s = G.instance(q, G.Rot(1))
            vals = []
            for i, t in enumerate(types):
                vals.append(s if i in slots[:2] else rot.take(t))
            out.append((f'share:{p}:{q}', ctor(vals), p, q))
    for q in G.all_child_kinds():
        s = G.instance(q, G.Rot(2))
        out.append((f'share2:{q}', ('+', ('exp', ('*', ('num', 0.25), s)), ('*', s, ('-', s, ('num', 1.0)))), 'two-parents', q))
    # one condition shared by two (three) terms of a conditional sum, and by a conditional sum and another parent
    types, ctor = G.KINDS['condsum']
    for ci, cond in enumerate(G.FILL['cond']):
        if cond[0] == 'bool':
            continue
        for shared_slots in ((0, 2), (2, 4), (0, 2, 4)):
            rot = G.Rot(ci)
            vals = [cond if i in shared_slots else rot.take(t) for i, t in enumerate(types)]
            out.append((f'share-condition:{R.show(cond)[:24]}:{shared_slots}', ctor(vals), 'condsum-conditions', 'cond'))
    return out


LINREP_PARAMS = ('b_z', 'B2', 'a_fix', 'Z_fix')
LINREP_VARS = ('x1', 'x2')


def linrep_terms():
    """Every linear utility of 2 or 3 terms over 4 parameters (two free, two fixed) x 2 variables - 576 lists, parameters and
    variables repeating in every possible way (one parameter multiplying two variables, one variable carrying two parameters,
    a term written twice) - bare, and as a summand of a product so that another operator reads its value."""
    opts = [(b, v) for b in LINREP_PARAMS for v in LINREP_VARS]
    out = []
    for n in (2, 3):
        for lst in itertools.product(opts, repeat=n):
            lin = ('linutil', tuple(lst))
            rep = len({b for b, _ in lst}) < n
            out.append((lin, rep))
            if rep:
                out.append((('*', ('+', lin, ('num', 0.5)), ('beta', 'b10')), rep))
    return out


def _deepcopy_term(t):
    """Equal term made of fresh tuple objects (so that nothing is shared by identity)."""
    if not isinstance(t, tuple):
        return t
    return tuple(_deepcopy_term(x) for x in t) if t else t


def pool_formulas():
    """A pool of formulas with overlapping and disjoint parameter sets for side-by-side evaluation."""
    P = [
        ('+', ('*', ('beta', 'b_z'), ('var', 'x1')), ('beta', 'B2')),
        ('exp', ('*', ('beta', 'b10'), ('var', 'x2'))),
        ('linutil', (('b_a', 'x1'), ('a_fix', 'x2'))),
        ('loglogit', ('var', 'choice'), ((1, ('*', ('beta', 'b_z'), ('var', 'x1')), None),
                                         (2, ('beta', 'b_a'), ('var', 'av2')),
                                         (3, ('*', ('beta', 'B2'), ('var', 'x2')), None))),
        ('elem', ('var', 'z'), ((0, ('beta', 'b10')), (1, ('*', ('beta', 'a_fix'), ('var', 'x1'))), (2, ('num', 3.0)))),
        ('*', ('var', 'x1'), ('num', 2.0)),
        ('-', ('*', ('beta', 'a_fix'), ('beta', 'b_a')), ('/', ('beta', 'Z_fix'), ('var', 'x1'))),
        ('ncdf', ('-', ('var', 'x2'), ('beta', 'B2'))),
    ]
    return P


def side_dicts(tier):
    P = pool_formulas()
    idx = range(len(P))
    combos = list(itertools.combinations(idx, 2)) + list(itertools.combinations(idx, 3))
    # both orders of insertion matter for the joint numbering: also reversed dictionaries
    combos = combos + [tuple(reversed(c)) for c in combos]
    if tier == 'quick':
        combos = combos[::5]
    return combos


# ------------------------------------------------------------------ numbering histories
SUBS = [
    ('*', ('beta', 'b_z'), ('var', 'x1')),                                         # one parameter: local index 0, joint index > 0
    ('+', ('beta', 'b_a'), ('*', ('beta', 'Z_fix'), ('var', 'x2'))),               # a free and a fixed one
    ('exp', ('*', ('beta', 'b10'), ('var', 'x2'))),
    ('>', ('var', 'x2'), ('beta', 'a_fix')),                                       # a condition with a fixed parameter
    ('linutil', (('b_z', 'x1'), ('a_fix', 'x2'))),
]
PARENTS = ['+', '*', 'max', 'elem', 'condsum', 'loglogit_av', 'multsum']


def renumber_cases():
    out = []
    for si in range(len(SUBS)):
        for p in PARENTS:
            types = G.KINDS[p][0]
            slots = [i for i, t in enumerate(types) if t in ('any', 'cond')]
            for sl in (slots[0], slots[-1]):
                for alone in ('get_value_c', 'get_value_and_derivatives', 'values_from_database',
                              'refused:hessian-without-gradient', 'refused:variables-without-database',
                              'second-model', 'second-model-on-the-sub-formula', 'null-loglikelihood', 'other-parent'):
                    for then in ('simulate', 'prepared'):
                        out.append((si, p, sl, alone, then))
    return out


def _renumber(idx, rec):
    """History: [a formula is numbered together with others (BIOGEME dictionary, or Expression.prepare)] ->
    [one of its sub-formulas is evaluated alone, which numbers it on its own and must put the joint numbering
    back] -> [the enclosing formula is evaluated again].  The values must still be the mathematical ones."""
    import numpy as np
    from vf.engine import make_db, make_biogeme, is_engine_error
    si, p, sl, alone, then = renumber_cases()[idx]
    sub_t = SUBS[si]
    if G.KINDS[p][0][sl] == 'cond' and sub_t[0] != '>':
        sub_t = ('>', sub_t, ('num', 0.25)) if sub_t[0] != 'linutil' else ('>', ('+', sub_t, ('num', 0.0)), ('num', 0.25))
    parent_t = G.plant(p, sl, sub_t, G.Rot(1))
    other_t = ('+', ('*', ('beta', 'B2'), ('var', 'x1')), ('beta', 'b_z'))
    full = dict(G.PARAMS)
    rows, refs = valid_rows(parent_t, full, rec)
    rows_o = valid_rows(other_t, full, rec)[0]
    keep = [i for i, _ in rows if i in {j for j, _ in rows_o}]
    case = dict(part='renumber', idx=idx)
    tag = f'renumber:{R.show(sub_t)[:40]} in {p}[{sl}] alone={alone} then={then}'
    if not keep:
        rec.case(None, (tag, 'no-row'), outcome='no-valid-row')
        return
    data = [G.ROWS[i] for i in keep]
    want = [R.evaluate(parent_t, r, full) for r in data]
    try:
        builder = R.Builder(G.betas_spec(), share=True)
        sub_e = builder.build(sub_t)
        builder.memo[id(sub_t)] = (sub_t, sub_e)
        parent_e = builder.build(parent_t)          # contains sub_e itself (same object), through the memo
        other_e = R.Builder(G.betas_spec()).build(other_t)
        db = make_db(data, G.COLUMNS)
        if then == 'simulate':
            b = make_biogeme(db, {'other': other_e, 'parent': parent_e})
        else:
            parent_e.prepare(db, 10)
            b = None
        # the sub-formula evaluated alone
        if alone == 'get_value_c':
            sub_e.get_value_c(database=db, prepare_ids=True)
        elif alone == 'get_value_and_derivatives':
            sub_e.get_value_and_derivatives(database=db, gradient=False, hessian=False, bhhh=False, aggregation=False,
                                            prepare_ids=True)
        elif alone == 'other-parent':
            # ANOTHER formula that contains the same sub-formula object is evaluated on its own (it has no numbering of its
            # own to go back to): the numbering of the first parent must survive
            import biogeme.expressions as ex
            other_parent = ex.exp(sub_e * 0.125) + 1.0
            other_parent.get_value_c(database=db, prepare_ids=True)
        elif alone == 'second-model-on-the-sub-formula':
            # a second model is built on the sub-formula only (fewer parameters, columns in another order): the enclosing
            # formula itself is not handed to it, only some of its nodes are numbered again
            if then != 'simulate':
                rec.case(None, (tag, 'n/a'), outcome='not-applicable')
                return
            extra_e = R.Builder(G.betas_spec()).build(('+', ('*', ('beta', 'b10'), ('var', 'x2')), ('beta', 'b_a')))
            db2 = make_db(data, list(reversed(G.COLUMNS)))
            b2 = make_biogeme(db2, {'sub': sub_e, 'extra': extra_e})
            b2.simulate({n: full[n] for n in b2.free_beta_names})
        elif alone == 'second-model':
            # the same formula objects become part of a second model, on a table with the columns in another order and with
            # one more formula (other parameters): the first model must keep giving the same values
            if then != 'simulate':
                rec.case(None, (tag, 'n/a'), outcome='not-applicable')
                return
            extra_e = R.Builder(G.betas_spec()).build(('+', ('*', ('beta', 'b10'), ('var', 'x2')), ('beta', 'b_a')))
            db2 = make_db(data, list(reversed(G.COLUMNS)))
            b2 = make_biogeme(db2, {'extra': extra_e, 'parent': parent_e, 'sub': sub_e})
            got2 = [float(v) for v in b2.simulate({n: full[n] for n in b2.free_beta_names})['parent']]
            if not (len(got2) == len(want) and all(R.close(a, b_) for a, b_ in zip(got2, want))):
                rec.violation(f'C01|value-in-a-second-model-built-on-the-same-formula-objects|then={then}',
                              f'{tag}: second model gives {got2} expected {want}', case, expected=want, observed=got2)
        elif alone == 'null-loglikelihood':
            # the library's own helper that evaluates another formula on the model's database between two uses
            if then != 'simulate':
                rec.case(None, (tag, 'n/a'), outcome='not-applicable')
                return
            from biogeme.expressions.elementary_types import TypeOfElementaryExpression as T
            shared = list(parent_e.dict_of_elementary_expression(T.VARIABLE).values())     # the model's own Variable objects
            if not shared:
                rec.case(None, (tag, 'n/a'), outcome='not-applicable')
                return
            try:
                b.calculate_null_loglikelihood({i + 1: v for i, v in enumerate(shared)})
            except Exception as e:
                if is_engine_error(e):
                    raise
        elif alone.startswith('refused:'):
            # a request the library refuses with its own error: nothing is evaluated, and nothing may be left behind
            from biogeme.exceptions import BiogemeError
            try:
                if alone == 'refused:hessian-without-gradient':
                    sub_e.get_value_and_derivatives(database=db, gradient=False, hessian=True, bhhh=False, aggregation=False,
                                                    prepare_ids=True)
                else:
                    sub_e.get_value_and_derivatives(database=None, gradient=False, hessian=False, bhhh=False, aggregation=False,
                                                    prepare_ids=True)
                rec.count('renumber_request_expected_to_be_refused_was_accepted')
            except BiogemeError:
                rec.count('renumber_refused_requests')
        else:
            db.values_from_database(sub_e)
        if then == 'simulate':
            got = [float(v) for v in b.simulate({n: full[n] for n in b.free_beta_names})['parent']]
        else:
            got = [float(v) for v in parent_e.get_value_c(database=db, prepare_ids=False)]
    except Exception as e:
        rec.case((tag,), (tag, type(e).__name__), outcome='raised')
        rec.violation(f'C01|numbering-history-raised-{type(e).__name__}|alone={alone}:then={then}',
                      f'{tag}: {type(e).__name__}: {str(e)[:200]}', case, observed=repr(e)[:300])
        if is_engine_error(e):
            rec.retire = True
        return
    ok = len(got) == len(want) and all(R.close(a, b_) for a, b_ in zip(got, want))
    rec.case((tag,), (tag, [round(v, 9) for v in got]), outcome=('renumber', ok))
    if not ok:
        rec.violation(f'C01|value-after-a-sub-formula-was-evaluated-alone|alone={alone}:then={then}',
                      f'{tag}: {got} expected {want}', case, expected=want, observed=got)


# ------------------------------------------------------------------ parameters and literals holding whole numbers as ints
def _belongs_values(rec):
    """Set membership over a value alphabet that is not confined to small whole numbers: every subset of size 1-2 of 8 values
    (fractions that single precision cannot hold, a whole number above 2**24, a tiny one, ordinary ones) against a column
    holding each of these values once; reference: equality of doubles."""
    import biogeme.expressions as ex
    from vf.engine import make_db
    vals = [0.1, 16777217.0, 1e-07, 0.3, 0.5, 3.0, -2.0, 1.5]
    db = make_db([dict(z=v) for v in vals], ['z'])
    for k in (1, 2):
        for members in itertools.combinations(vals, k):
            want = [1.0 if v in members else 0.0 for v in vals]
            tag = f'belongs:{members}'
            try:
                got = [float(v) for v in ex.BelongsTo(ex.Variable('z'), set(members)).get_value_c(database=db, prepare_ids=True)]
            except Exception as e:
                rec.violation(f'C01|engine-path-raised-{type(e).__name__}|belongs-values', f'{tag}: {str(e)[:160]}', dict(part='belongs_values'))
                return
            rec.case((tag,), (tag, got), outcome='belongs')
            if got != want:
                exact32 = all(float(__import__('numpy').float32(m)) == m for m in members)
                key = 'C01|engine-value|belongs:every-member-representable-in-single-precision' if exact32 else \
                    'C01|engine-value|belongs:set-member-not-representable-in-single-precision'
                rec.violation(key, f'BelongsTo(z, {set(members)}) on z = {vals}: {got}, expected {want}', dict(part='belongs_values'),
                              expected=want, observed=got)


def _belongs_member_types(rec):
    """The members of the set written under every number type a user meets (Python bool / int / float, numpy bool, integers
    and floats of several widths): a member equal to 1 (or 0, 2) is the same member whatever its type."""
    import numpy as np
    import biogeme.expressions as ex
    from vf.engine import make_db
    vals = [0.0, 1.0, 2.0, 3.0, 0.5]
    db = make_db([dict(z=v) for v in vals], ['z'])
    forms = {
        'python-bool': lambda v: bool(v) if v in (0.0, 1.0) else None,
        'numpy-bool': lambda v: np.bool_(bool(v)) if v in (0.0, 1.0) else None,
        'python-int': lambda v: int(v) if float(v).is_integer() else None,
        'numpy-int64': lambda v: np.int64(v) if float(v).is_integer() else None,
        'numpy-int8': lambda v: np.int8(v) if float(v).is_integer() else None,
        'numpy-uint16': lambda v: np.uint16(v) if float(v).is_integer() else None,
        'numpy-float32': lambda v: np.float32(v),
        'numpy-float64': lambda v: np.float64(v),
        'python-float': lambda v: float(v),
    }
    for fname, conv in forms.items():
        for k in (1, 2):
            for members in itertools.combinations(vals, k):
                typed = [conv(m) for m in members]
                if any(t is None for t in typed):
                    continue
                # (a Python set merges True with 1 and 1.0: the member that stays is of the type under test)
                the_set = set(typed)
                want = [1.0 if v in members else 0.0 for v in vals]
                tag = f'belongs:{fname}:{members}'
                try:
                    e = ex.BelongsTo(ex.Variable('z'), the_set)
                    got = [float(v) for v in e.get_value_c(database=db, prepare_ids=True)]
                except Exception as exc:
                    rec.case((tag,), (tag, type(exc).__name__), outcome='belongs-type-raised')
                    rec.violation(f'C01|engine-path-raised-{type(exc).__name__}|belongs:members-of-type-{fname}', f'{tag}: {str(exc)[:160]}',
                                  dict(part='belongs_member_types'))
                    from vf.engine import is_engine_error
                    if is_engine_error(exc):
                        rec.retire = True
                        return
                    continue
                rec.case((tag,), (tag, got), outcome='belongs-type')
                if got != want:
                    rec.violation(f'C01|engine-value|belongs:members-of-type-{fname}',
                                  f'BelongsTo(z, {the_set!r}) on z = {vals}: {got}, expected {want}', dict(part='belongs_member_types'),
                                  expected=want, observed=got)


def _int_typed(rec):
    """Parameters declared with Python ints (Beta('a', 10, ...) keeps the int) and integer literals: every binary
    operator kind over all ordered pairs of 8 whole-number values (incl. negative ones and results beyond 2**63), and over
    0/1 results of comparisons, through the Python evaluator and the engine; reference: ordinary float arithmetic."""
    import math
    import biogeme.expressions as ex
    vals = [2, -1, 10, 19, 3, 41, 7, -2]
    ops = {
        '+': (lambda a, b: a + b, lambda x, y: x + y), '-': (lambda a, b: a - b, lambda x, y: x - y),
        '*': (lambda a, b: a * b, lambda x, y: x * y), '/': (lambda a, b: a / b, lambda x, y: x / y),
        '**': (lambda a, b: a ** b, lambda x, y: math.pow(x, y)),
        'min': (lambda a, b: ex.bioMin(a, b), min), 'max': (lambda a, b: ex.bioMax(a, b), max),
        '>': (lambda a, b: a > b, lambda x, y: float(x > y)), '<=': (lambda a, b: a <= b, lambda x, y: float(x <= y)),
        '==': (lambda a, b: a == b, lambda x, y: float(x == y)),
    }
    for op, (mk, ref) in ops.items():
        for i, a in enumerate(vals):
            for j, b in enumerate(vals):
                for form in ('betas', 'beta-literal', 'comparison-base'):
                    if form == 'comparison-base' and op not in ('**', '*', '+'):
                        continue
                    try:
                        want = ref(float(a), float(b)) if form != 'comparison-base' else ref(float(a > 0), float(b))
                    except (ValueError, ZeroDivisionError, OverflowError):
                        continue                    # outside the domain of the operator (negative base, fractional result ...)
                    if not math.isfinite(want) or abs(want) > 1e300:
                        continue
                    st = (i + j) % 2
                    ea = ex.Beta(f'ia{i}', a, None, None, st)
                    eb = ex.Beta(f'ib{j}', b, None, None, 1 - st)
                    if form == 'beta-literal':
                        if op in ('**',):
                            continue                # a literal exponent makes another node kind (covered by the triples)
                        expr = mk(ea, b)
                    elif form == 'comparison-base':
                        expr = mk(ea > 0, eb)
                    else:
                        expr = mk(ea, eb)
                    tag = f'int-typed:{form}:{a}{op}{b}'
                    case = dict(part='int_typed')
                    for path in ('python', 'engine'):
                        try:
                            got = float(expr.get_value()) if path == 'python' else float(expr.get_value_c(prepare_ids=True))
                        except Exception as e:
                            if type(e).__name__ == 'NotImplementedError':
                                continue
                            rec.case((tag, path), (tag, path, type(e).__name__), outcome='raised')
                            rec.violation(f'C01|{path}-evaluator-raised-{type(e).__name__}|int-typed:{op}',
                                          f'{tag} ({path}): {type(e).__name__}: {str(e)[:160]}', case)
                            continue
                        rec.case((tag, path), (tag, path, got), outcome=('int-typed', path))
                        if not R.close(got, want):
                            rec.violation(f'C01|{path}-value|int-typed:{op}', f'{tag} ({path}) = {got!r}, mathematical value {want!r}', case,
                                          expected=want, observed=got)


FIXH_TERMS = [
    ('+', ('*', ('beta', 'a_fix'), ('var', 'x1')), ('*', ('beta', 'b_z'), ('beta', 'Z_fix'))),
    ('exp', ('*', ('beta', 'Z_fix'), ('*', ('beta', 'b_a'), ('var', 'x2')))),
    ('linutil', (('a_fix', 'x1'), ('b_z', 'x2'))),
    ('loglogit', ('var', 'choice'), ((1, ('*', ('beta', 'a_fix'), ('var', 'x1')), None), (2, ('beta', 'b_z'), None),
                                     (3, ('*', ('beta', 'Z_fix'), ('var', 'x2')), None))),
]
FIXH_OPS = ['eval-with-dictionary', 'eval', 'eval-kept-numbering', 'set-a_fix', 'set-Z_fix', 'set-b_z', 'fix-b_z']


def _fixed_history(task, rec):
    """Histories on ONE formula object that contains fixed parameters: every sequence of three operations over {evaluate with a
    dictionary of values, evaluate without, evaluate with the numbering kept, change the value of a fixed parameter (two of
    them), change the value of a free one, fix a free one}; every evaluation must give the mathematical value under the values
    the parameters have at that moment (a dictionary names free parameters only)."""
    from vf.engine import make_db, is_engine_error
    term = FIXH_TERMS[task['term']]
    rows = G.ROWS
    db_cols = G.COLUMNS
    for hist in itertools.product(FIXH_OPS, repeat=3):
        if not hist[-1].startswith('eval') or all(o.startswith('eval') for o in hist[:2]) and hist[0] == hist[1] == hist[2]:
            continue
        cur = dict(G.PARAMS)
        fixed_now = set(G.FIXED)
        expr = R.Builder(G.betas_spec()).build(term)
        db = make_db(rows, db_cols)
        prepared = False
        case = dict(part='fixed_history', term=task['term'], history=list(hist))
        key = ('fixed_history', task['term'], hist)
        ok = True
        try:
            for step, op in enumerate(hist):
                if op.startswith('set-'):
                    nm = op[4:]
                    newv = {'a_fix': 3.25, 'Z_fix': -0.5, 'b_z': 1.75}[nm] + 0.25 * step
                    expr.change_init_values({nm: newv})
                    cur[nm] = newv
                    continue
                if op == 'fix-b_z':
                    expr.fix_betas({'b_z': -0.375})
                    cur['b_z'] = -0.375
                    fixed_now.add('b_z')
                    prepared = False          # the status of a parameter changed: the numbering must be made again
                    continue
                at = dict(cur)
                if op == 'eval-with-dictionary':
                    given = {nm: cur[nm] + 0.5 for nm in ('b_z', 'b_a') if nm in R.leaves(term, 'beta') and nm not in fixed_now}
                    at.update(given)
                    got = expr.get_value_c(database=db, betas=dict(given), prepare_ids=True)
                    prepared = False
                elif op == 'eval':
                    got = expr.get_value_c(database=db, prepare_ids=True)
                    prepared = False
                else:
                    if not prepared:
                        expr.prepare(db, 10)
                        prepared = True
                    got = expr.get_value_c(database=db, prepare_ids=False)
                    # with the numbering kept the values are those stored when the formula was numbered; a later change of
                    # value is picked up or not depending on the kind of parameter: not judged unless nothing was changed since
                    changed_since = any(o.startswith('set-') or o == 'fix-b_z' for o in hist[:step])
                    if changed_since:
                        rec.count('fixed_history_kept_numbering_after_a_change_not_judged')
                        continue
                got = [float(v) for v in got]
                want = []
                for r in rows:
                    try:
                        want.append(R.evaluate(term, r, at))
                    except (R.OutOfDomain, R.Fragile):
                        want.append(None)
                bad = [(g, w) for g, w in zip(got, want) if w is not None and not R.close(g, w)]
                if bad:
                    ok = False
                    rec.violation(f'C01|engine-value|history-on-one-formula-with-fixed-parameters:{op}',
                                  f'{R.show(term)[:80]} history {hist[:step + 1]}: {got} expected {want} (values {at})', dict(case, step=step),
                                  expected=want, observed=got)
                    break
        except Exception as e:
            ok = False
            rec.violation(f'C01|history-raised-{type(e).__name__}|history-on-one-formula-with-fixed-parameters',
                          f'{R.show(term)[:80]} history {hist}: {type(e).__name__}: {str(e)[:160]}', case)
            if is_engine_error(e):
                rec.retire = True
                return
        rec.case(key, (task['term'], hist, ok), outcome=('fixed-history', ok))


# ------------------------------------------------------------------ tasks
def tasks(tier, seed):
    t = []
    tri = triple_list()
    chunk = 60
    for rot in (0, 3):
        for i in range(0, len(tri), chunk):
            t.append(dict(part='triple', lo=i, hi=min(i + chunk, len(tri)), rot=rot))
    t.append(dict(part='ncdf_tail'))
    t.append(dict(part='int_typed'))
    t.append(dict(part='belongs_values'))
    t.append(dict(part='belongs_member_types'))
    nl = len(linrep_terms())
    for i in range(0, nl, 120):
        t.append(dict(part='linrep', lo=i, hi=min(i + 120, nl)))
    for ti in range(len(FIXH_TERMS)):
        t.append(dict(part='fixed_history', term=ti))
    for i in range(len(renumber_cases())):
        t.append(dict(part='renumber', idx=i))
    sh = share_terms()
    for i in range(0, len(sh), 60):
        t.append(dict(part='share', lo=i, hi=min(i + 60, len(sh))))
    sd = side_dicts(tier)
    for i in range(0, len(sd), 12):
        t.append(dict(part='side', lo=i, hi=min(i + 12, len(sd)), tier=tier))
    if tier == 'thorough':
        n1 = len(list(G.trees(1)))
        for a in range(n1):
            t.append(dict(part='trees', first=a))
        ch = 36 * 36 * 36 * 2
        for i in range(0, ch, 1500):
            t.append(dict(part='chains', lo=i, hi=min(i + 1500, ch)))
    return t


def run_task(task):
    rec = Rec()
    try:
        part = task['part']
        if part == 'triple':
            tri = triple_list()
            for idx in range(task['lo'], task['hi']):
                p, s, q = tri[idx]
                term = G.triple_term(p, s, q, task['rot'])
                tag = f'{p}[{G.slot_name(p, s)}]<-{q}/r{task["rot"]}'
                case = dict(part='triple', p=p, s=s, q=q, rot=task['rot'])
                if idx == task['lo']:
                    rec.sample(dict(triple=tag, formula=R.show(term)))
                check_engine(term, rec, tag, f'{p}[{G.slot_name(p, s)}]', case,
                             av_order='same' if task['rot'] == 0 else ('reversed' if idx % 2 else 'rotated'))
                if task['rot'] == 0:
                    check_python(term, rec, tag, f'{p}[{G.slot_name(p, s)}]', case)
        elif part == 'share':
            sh = share_terms()
            for idx in range(task['lo'], task['hi']):
                tag, term, p, q = sh[idx]
                case = dict(part='share', idx=idx)
                if idx == task['lo']:
                    rec.sample(dict(shared=tag, formula=R.show(term)))
                check_engine(term, rec, tag + ':shared', f'shared:{p}', dict(case, shared=True), share=True)
                check_engine(_deepcopy_term(term), rec, tag + ':copies', f'copies:{p}', dict(case, shared=False), share=False)
        elif part == 'linrep':
            lt = linrep_terms()
            for idx in range(task['lo'], task['hi']):
                term, rep = lt[idx]
                kn = 'linutil:' + ('repeated-parameter' if rep else 'distinct-parameters') + ('' if term[0] == 'linutil' else ':inside-a-product')
                case = dict(part='linrep', idx=idx)
                if idx == task['lo']:
                    rec.sample(dict(linrep=kn, formula=R.show(term)))
                check_engine(term, rec, f'linrep:{idx}', kn, case)
        elif part == 'renumber':
            _renumber(task['idx'], rec)
        elif part == 'int_typed':
            _int_typed(rec)
        elif part == 'belongs_values':
            _belongs_values(rec)
        elif part == 'belongs_member_types':
            _belongs_member_types(rec)
        elif part == 'fixed_history':
            _fixed_history(task, rec)
        elif part == 'ncdf_tail':
            # the normal CDF on a grid reaching into both tails (the engine's upper tail is a recorded finding)
            for x in (-8.0, -6.0, -3.0, 0.0, 3.0, 5.5, 6.0, 6.5, 7.0, 8.0):
                term = ('ncdf', ('*', ('num', x), ('var', 'x1')))
                check_engine(term, rec, f'ncdf-grid:{x}', 'ncdf-grid', dict(part='ncdf_tail'))
        elif part == 'side':
            _side(task, rec)
        elif part == 'trees':
            _trees(task, rec)
        elif part == 'chains':
            for (key, term) in itertools.islice(G.chains3(), task['lo'], task['hi']):
                p, q, r, which = key
                tag = f'chain:{p}({q}({r}))/{which}'
                check_engine(term, rec, tag, f'chain-root:{p}', dict(part='chain', key=list(key)))
    except StopTask:
        rec.count('task_stopped_after_engine_error')
    return rec.result()


def _trees(task, rec):
    sub = list(G.trees(1))
    a = sub[task['first']]
    n = 0
    for u in G.UNARY:
        term = G.KINDS[u][1]([a])
        if task['first'] >= 5 or True:
            check_engine(term, rec, f'tree:{R.show(term)}', f'tree-root:{u}', dict(part='tree', term=term))
            n += 1
    for b in G.BINARY:
        for c in sub:
            term = G.KINDS[b][1]([a, c])
            check_engine(term, rec, f'tree:{R.show(term)}', f'tree-root:{b}', dict(part='tree', term=term))
            n += 1
    rec.sample(dict(trees_first_operand=R.show(a), trees=n))


def _side(task, rec):
    from vf.engine import make_db, make_biogeme, is_engine_error

    P = pool_formulas()
    combos = side_dicts(task['tier'])
    for idx in range(task['lo'], task['hi']):
        combo = combos[idx]
        terms = [P[i] for i in combo]
        # parameter point: explicit full dictionary of the free parameters of the dictionary of formulas
        for label, betas_arg, full in G.param_points():
            rowsets = [set(i for i, _ in valid_rows(t, full, rec)[0]) for t in terms]
            common = sorted(set.intersection(*rowsets))
            if not common:
                continue
            rows = [G.ROWS[i] for i in common]
            try:
                spec = G.betas_spec()
                exprs = {f'f{j}': R.Builder(spec).build(t) for j, t in enumerate(terms)}
                db = make_db(rows, G.COLUMNS)
                b = make_biogeme(db, exprs)
                free = list(b.free_beta_names)
                out = b.simulate({n: full[n] for n in free})
            except Exception as e:
                rec.violation(f'C01|side-by-side-raised-{type(e).__name__}|n={len(terms)}',
                              f'simulate of {[R.show(t) for t in terms]} raised {type(e).__name__}: {str(e)[:300]}',
                              dict(part='side', idx=idx, tier=task['tier']), observed=repr(e)[:300])
                if is_engine_error(e):
                    rec.retire = True
                    raise StopTask()
                continue
            if idx == task['lo'] and label == 'defaults':
                rec.sample(dict(side_by_side=[R.show(t) for t in terms], free=free))
            for j, t in enumerate(terms):
                col = [float(v) for v in out[f'f{j}']]
                want = [R.evaluate(t, r, full) for r in rows]
                okk = all(R.close(g, w) for g, w in zip(col, want)) and len(col) == len(want)
                rec.case(('side', combo, label, j), (combo, label, j, [round(v, 9) for v in col]), outcome=okk)
                if not okk:
                    rec.violation(f'C01|side-by-side-value|formulas={len(terms)}',
                                  f'simulate column {j} of {[R.show(x) for x in terms]} = {col} != {want} ({label})',
                                  dict(part='side', idx=idx, tier=task['tier']), expected=want, observed=col)


def replay(case):
    rec = Rec()
    try:
        part = case['part']
        if part == 'renumber':
            _renumber(case['idx'], rec)
            return rec.violations
        if part == 'triple':
            term = G.triple_term(case['p'], case['s'], case['q'], case['rot'])
            kn = f'{case["p"]}[{G.slot_name(case["p"], case["s"])}]'
            if case.get('path') in ('python', 'nodb'):
                check_python(term, rec, 'replay', kn, case)
            else:
                check_engine(term, rec, 'replay', kn, case)
            check_engine(term, rec, 'replay', kn, case, av_order='reversed')
            check_engine(term, rec, 'replay', kn, case, av_order='rotated')
        elif part == 'share':
            tag, term, p, q = share_terms()[case['idx']]
            if case.get('shared'):
                check_engine(term, rec, tag, f'shared:{p}', case, share=True)
            else:
                check_engine(_deepcopy_term(term), rec, tag, f'copies:{p}', case)
        elif part == 'linrep':
            term, rep = linrep_terms()[case['idx']]
            check_engine(term, rec, 'replay', 'linutil:' + ('repeated-parameter' if rep else 'distinct-parameters')
                         + ('' if term[0] == 'linutil' else ':inside-a-product'), case)
        elif part == 'ncdf_tail':
            return run_task(dict(part='ncdf_tail'))['violations']
        elif part == 'int_typed':
            return run_task(dict(part='int_typed'))['violations']
        elif part == 'belongs_values':
            return run_task(dict(part='belongs_values'))['violations']
        elif part == 'belongs_member_types':
            return run_task(dict(part='belongs_member_types'))['violations']
        elif part == 'fixed_history':
            return [v for v in run_task(dict(part='fixed_history', term=case['term']))['violations']
                    if v['case'].get('history') == case.get('history')]
        elif part == 'side':
            _side(dict(lo=case['idx'], hi=case['idx'] + 1, tier=case['tier']), rec)
        elif part == 'tree':
            term = _tuplify(case['term'])
            check_engine(term, rec, 'replay', f'tree-root:{term[0]}', case)
        elif part == 'chain':
            for key, term in G.chains3():
                if list(key) == case['key']:
                    check_engine(term, rec, 'replay', f'chain-root:{key[0]}', case)
                    break
    except StopTask:
        pass
    return rec.violations


def _tuplify(x):
    if isinstance(x, list):
        return tuple(_tuplify(y) for y in x)
    return x
