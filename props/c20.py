"""C20 — every deprecated name behaves exactly like the function it points users to.

Bounded exhaustive exploration on the real package.  The aliases are DISCOVERED (every module
of the package, every class through its MRO, static / class methods), never listed by hand.

 L0  decorator level: the real ``deprecated`` decorator applied to a toy family in every
     declaration form (function, nested function, method, classmethod, staticmethod) x every
     receiver (base, subclass with / without a redefinition, two levels, through the class)
     x every argument shape.
 L0H hierarchy exploration at decorator level: every class hierarchy over a small alphabet of per-class choices
     {inherit, redefine the replacement, re-declare old AND new (as the package does for getValue), re-declare the old
     name as an alias of the inherited replacement, define the old name as a plain method} - chains of depth <= 3 (4)
     and diamonds - x {method, classmethod} x EVERY ACCESS PATH to an alias on the bottom class's receiver (ordinary
     call, ``K.old(obj)`` for every K of the MRO, ``super(K, obj).old()`` for every K) x shapes x pools.  Reference
     model (plain Python, on the abstract hierarchy): a path whose alias is the one the receiver itself resolves is
     an ordinary call (it cannot be told apart from ``obj.old()``): the receiver's replacement; a path that reaches
     an alias SHADOWED by a re-declaration further down is an explicit call of an ancestor's alias and must behave
     like the same explicit call of the new name (``A.new(obj)`` / ``super(K, obj).new()``) - demanded only when all
     explicit paths that reach that same alias agree on that function (otherwise: counted as undecidable).
 L1  dispatch probe, recipe-free, ALL (receiver class, alias) pairs: a throw-away subclass
     redefines the replacement as a recording sentinel, an ``object.__new__`` instance receives
     ``alias(*tokens, **kwtokens)``; plus the 'own' variant (the receiver class's *own*
     replacement - the one its MRO resolves - is turned into the sentinel by swapping its code
     object); module-level aliases are probed with the code swap.  Oracle: the sentinel is reached
     exactly once with exactly the tokens (identity), its token / exception comes back, exactly one
     DeprecationWarning that names the replacement, no log record, no output, receiver untouched.
 L1X explicit calls of an ancestor's alias, ALL (receiver class, alias) pairs x receiver construction {throw-away
     subclass that only redefines the replacement, throw-away subclass that RE-DECLARES old and new (with the real
     decorator, as a class body), one that re-defines the old name as a plain method, the class as it is} x every explicit access path (``K.old(obj)``, ``super(K, obj).old()``, K over the
     MRO) x shapes x pools; plus L1S: every alias of the package that is shadowed by a re-declaration in a real
     subclass (Expression.getValue under the 31 classes that re-declare getValue) x every explicit path on the real
     class.  Same reference model as L0H; the expected function is turned into the sentinel.
 RK  WHAT THE REPLACEMENT IS on the receiver.  The new name is redefined as every kind of thing ``receiver.new(...)`` can
     call - plain method, classmethod, staticmethod, functools.partialmethod, functools.partial, a callable object stored as
     class attribute, a custom descriptor, a property that returns a function, a staticmethod wrapping a callable object,
     functools.singledispatchmethod; on the instance: a function, a bound method of another object, a callable object - at
     every position {the receiver's own class, a parent, a mixin left of the declaring class, patched onto the declaring
     class itself (a mock patch), the instance} x receiver flavours {plain, falsy, truth value raises, == raises,
     __getattribute__ hook, immutable; class-method aliases: metaclass whose truth value raises} x paths x shapes x pools.
     RK0: toy classes declared with the real decorator ({method, classmethod} aliases); RK1: ALL (receiver class, alias)
     pairs of the package.  Oracle (Python's own attribute resolution is the reference): the call of the old name hands
     the sentinel exactly what the call of the new name on the same receiver hands it (implementation, bound objects,
     arguments by identity), returns / raises the same object, plus one DeprecationWarning; a table of the expected
     arguments per kind cross-checks the reference side (disagreement = harness error).  Out of the domain (counted): the
     new name is not callable on the receiver.
 TS  target sanity: the old name, snake-cased (documented suffixes removed), must identify the
     wrapper's target among the callables of the same scope.
 DP  ``deprecated_parameters``: every decorated callable x every subset (<= bound) of its obsolete
     keywords x positional shapes; the undecorated function is the sentinel; reference model of the
     renaming in plain Python.
 DPV values handed to obsolete keywords: every decorated callable (plus a toy one declared with the real decorator) x
     every obsolete keyword x the HOSTILE VALUE alphabet {generator, list iterator, map / zip object, dict view, range,
     iterable without __len__, objects that record every special method, objects whose __len__ / __iter__ / __bool__ /
     __eq__ / __hash__ / attribute probe / copy / __repr__ / __str__ / __format__ raises, 0-d / 1-d / empty numpy array,
     DataFrame, Series, strings with format characters / a lone surrogate, bytes} x positional count x companion keyword.
     Oracle: the new keyword takes the value untouched (control, else out of the domain), so the old keyword must hand the
     function the SAME object under the new name, unconsumed, with no special method called (a text rendering for the
     warning is tolerated and counted), and must not refuse it.  The same 'hostile' values are a third token pool of
     L0, L1F, RK0 and RK1 (positional / keyword / return values of the aliases).
 L2  paired behavioural calls old(*args) vs new(*args) on identically built real receivers from a
     recipe table (functions of models / draws / tools / version / results / segmentation, Expression,
     Database, IdManager, BIOGEME and bioResults methods); aliases without a recipe are *counted*
     (layer2_uncovered_aliases).  Same for obsolete keywords: f(old=v) vs f(new=v).  For aliases shadowed by a
     re-declaration in the receiver's class: every explicit path, old vs new called the SAME way on real receivers
     (``Expression.getValue(Numeric(2))`` vs ``Expression.get_value(Numeric(2))``, ``super(Numeric, e).getValue()`` ...).
 ENV the CALLER'S AMBIENT CONFIGURATION and what the call leaves behind (all other layers observe inside one recording context
     that shows every warning).  Every alias (toy declarations ENV0; ENV1: every module-level binding, every obsolete keyword,
     every (receiver class, alias) pair) x ambient configuration = base filter list {inherited, reset} x stack of warning
     filters (action {ignore, error, always, default, module, once} x category {DeprecationWarning, Warning, an unrelated one,
     PendingDeprecationWarning} x message {any, names the replacement, matches nothing}: every single filter, every ordered
     stack of two on a 24-filter alphabet, of three on a 6-filter one) x display channel {recording context, the program's
     own showwarning hook, text on stderr, logging.captureWarnings} x logging {as is, every logger turned on}.  Oracle:
     (1) the process-global state (vf/ref_ambient.py: warning filters / display hooks, logging tree, sys streams and hooks,
     sys.path, environment, directory, random and numeric state ...; 'deep' configurations: every global of every package
     module, the namespaces of the receiver's classes, the receiver, the alias function's attributes) is after the call of
     the old name what it is after the call of the new name (control: untouched), no log record / output;
     (2) the warning is an ordinary Python warning: displayed once through the program's channel, silent, or raised, as the
     program's filters say - reference = plain-Python model of the filter resolution, cross-checked against a probe warning
     issued by Python under the same configuration (disagreement = harness error);
     (3) under every configuration the replacement gets the same arguments once and its result / exception comes back (when
     errors were requested the call may stop at the warning: the replacement is then reached at most once).
 DPB the old and the new keyword in ONE call: every decorated callable (plus the toy one) x every renamed keyword x {old written
     first, new written first} x positional count x pools.  Reference: the old keyword IS the new one, so this is a keyword
     given twice, which Python refuses before the function runs (control: the two values under the new name raise TypeError);
     demanded: refused, the function is not reached with one of the two explicitly given values silently thrown away.
 PENV THE ENVIRONMENT THE INTERPRETER IS STARTED IN (every other layer runs in the one environment of the check).  Fresh
     interpreters, one per environment: {cleaned base; every variable the package itself looks at - scan of the package sources
     for environ / getenv accesses, plus every os.environ look-up OBSERVED from a package frame during import, discovery and the
     probes (a name found only by observation is explored on the spot) - x {'1', '', '0', 'true', 'py312'}; every bundle of
     variables one tool defines together (tox, pytest, CI services, debug flags, notebook / virtualenv tools, python -O / -OO,
     dev mode + default warning filters, hash seed, encodings / locale, bare account); thorough: every (variable, value) of the
     35-variable menu alone and every package variable x every bundle} x history {probed as started; every variable defined /
     removed AFTER the import and restored (pytest defines PYTEST_CURRENT_TEST while a test runs)} x every alias (module-level
     bindings, (receiver class, alias) pairs x {subclass override, own replacement; thorough: all 4 variants}, obsolete keywords,
     the toy family decorated in that interpreter) x shapes.  Oracle: the clauses of L0 / L1 / DP unchanged, and the package
     offers the same aliases as in the base environment.  Out of the domain (counted): the package cannot be imported there.
"""
from __future__ import annotations

import datetime
import itertools
import os
import re
import sys

from vf.rec import Rec

ID = 'C20'
LEVEL = 'exploration'
TECHNIQUE = ('exhaustive enumeration of all discovered (receiver class, alias) pairs x call variants x argument '
             'shapes with a recording sentinel as the replacement, every access path (ordinary, K.old(obj), super(K, obj).old()) '
             'on exhaustively enumerated class hierarchies and on every package class against a plain-Python model of name '
             'resolution, every kind of object the replacement can be on the receiver (static / partial method, callable object, '
             'descriptor, instance attribute, patch ...) against the call of the new name on the same receiver, a hostile value '
             'alphabet (one-shot iterables, objects whose special methods raise or are recorded) through every renamed keyword, '
             'plus paired old/new calls on real receivers from a recipe table, plus every alias under every ambient configuration '
             'of the caller (stacks of warning filters x display channel x logging level) with a snapshot of the process-global '
             'state before / after and a plain-Python model of the warning-filter resolution, plus every alias re-probed in fresh '
             'interpreters started in every environment of a finite alphabet (variables the package looks at - found by a source '
             'scan and by observing its os.environ look-ups - x values, bundles defined by tox / pytest / CI / python switches; '
             'defined at start or after the import), on the real package')
RULE = ('L0: toy declarations (5 forms) x receivers x shapes; L0H: every hierarchy over {inherit, ov-new, redecl, realias, '
        'plain-old} per class (chains of depth <= 3, thorough 4; diamonds, thorough with a class below) x {method, classmethod} '
        'x every access path on the bottom receiver x shapes x pools; L1X: every (class, alias) pair x receiver {override, '
        'redeclare, replace-old, plain} x every explicit path K.old(obj) / super(K, obj).old() over the MRO x shapes x pools (non-trivial: '
        'the expected function differs from the one the receiver resolves, or the receiver overrides it); L1: every discovered (class, alias) pair x variants '
        '{sub1, sub2, viaclass, own} x (positional count x keyword set x raise) x 2 token pools (thorough: 3, with the hostile values), every module-level '
        'alias binding x shapes x pools; TS: every alias declaration; DP: every decorated callable x keyword subsets x '
        'shapes; RK0: {method, classmethod} toy alias x 13 kinds of replacement x position {own class, parent, mixin, patched '
        'declaring class, instance} x receiver flavour x path x shapes x 3 pools; RK1: every (class, alias) pair x kind x position '
        '{own, patch (thorough: parent), instance} x shapes x pools; DPV: every decorated callable + a toy one x every obsolete '
        'keyword x 27 hostile value kinds x positional count x companion keyword; L2: every recipe x argument set (renamed '
        'keywords that take an iterable: every iterable form, built anew for each side); ENV: toy declarations + every module-level '
        'alias, obsolete keyword and alias declaration (thorough: every (class, alias) pair) x {2 bases x (no filter + 72 single '
        'filters); 2 bases x 7 stacks x 4 channels x 2 logging levels; 576 ordered stacks of two (toy; thorough: functions and '
        'keywords too; toy thorough: 216 stacks of three); 2 deep-state configurations}, the other pairs x 5 configurations in '
        'the quick tier; DPB: every decorated callable x renamed keyword x {old first, new first} x positional count x 2 pools; '
        'PENV: one fresh interpreter per environment {base; package variable x 5 values; 10 bundles; thorough: every (variable, '
        'value) of the menu, package variable x bundle} x {as started; each variable (re)defined or removed after the import} x '
        'every alias (functions, (class, alias) pairs x {sub1, own} (thorough: 4 variants), obsolete keywords, toy family) x '
        'shapes (1; thorough 3).  A case is non-trivial when the sentinel / both paired calls were '
        'actually executed and compared (L1 own: only when the receiver class resolves the replacement to another '
        'function than the class declaring the alias; TS: only when an independent candidate exists; DP: only with at '
        'least one obsolete keyword; L2: both sides executed - pairs where both raise the same exception type are '
        'counted separately); distinct = distinct (layer, receiver, alias, variant, shape, pool / recipe label) keys.')
ASSUMPTIONS = [
    'aliases are found through the wrapper mark __deprecated__/__newname__ (fallback: closure variable names, for '
    'discovery only); an independent AST scan of the package sources must find the same number of @deprecated / '
    '@deprecated_parameters declarations, otherwise the run is a harness error',
    'L1 receivers are uninitialised objects (object.__new__) of throw-away subclasses; the code-swap sentinel '
    'temporarily replaces __code__ of the replacement function (restored afterwards)',
    'L2 compares on representative arguments from a recipe table only; random generators are re-seeded identically '
    'before each side of a pair; expressions are compared by str() and, where a tiny database allows, by value',
    'explicit calls (K.old(obj), super(K, obj).old()): a path that reaches the alias the receiver itself resolves cannot be '
    'told apart from obj.old() by any wrapper, so the receiver\'s replacement is demanded there (as in L0 via-base); a path '
    'that reaches an alias shadowed by a re-declaration must run what the same explicit call of the new name runs, and this '
    'is demanded only where all explicit paths reaching that alias agree (else counted: *_undecidable / weak oracle "one of '
    'the candidates")',
    'RK: the reference side is the call of the new name on the same receiver object (performed first; the replacement kinds '
    'are stateless sentinels); a class-method alias is bound to the class however it is reached, so its counterpart is the '
    'class-level call of the new name; receivers on which the new name is not callable are out of the domain (counted)',
    'DPV / hostile pool: calling __format__ / __str__ / __repr__ of a value (quoting it in the warning) is tolerated and '
    'counted; any other special method called on a value, a consumed iterator or a refused value is a violation; values whose '
    'control call (new keyword) does not reach the function untouched are out of the domain',
    'ENV: the replacement is a sentinel that does nothing, so "same side effects as the replacement" means "process state '
    'untouched" (checked on the control call of the new name; a control that is not neutral is a harness error); Python\'s own '
    'book-keeping of already displayed warnings (__warningregistry__, warnings.onceregistry) belongs to the warning and is not '
    'part of the compared state (it is emptied before each call so that every call is a first call); module= / lineno= filters '
    'are not in the alphabet (nothing is demanded about the stack level of the warning); "the warning" is read as an ordinary '
    'Python DeprecationWarning, i.e. subject to the caller\'s filters like any other',
    'PENV: the environment alphabet is finite: variables named in (or observed being read by) the package, and a menu of 35 '
    'variables that test runners, CI services, tools and the interpreter define, with 1-3 values each; bundles are single '
    'realistic combinations; arbitrary combinations and variables read by third-party libraries only are not explored; '
    'PYTHONDONTWRITEBYTECODE stays set (nothing is written into the tree under test); the interpreter\'s own switches are only '
    'explored at start; an environment in which the package cannot be imported is out of the domain (counted)',
    'DPB: "the old keyword behaves exactly like the new one" is read as: giving both is giving one keyword twice, which Python '
    'refuses; only the refusal is demanded (any exception, function not reached), not the exception type or a warning',
    'static-method aliases cannot see a receiver: for them only "keeps working" (reaches the declared or the resolved '
    'replacement) is demanded; there is none in the package today',
]
ANCHOR_FILES = ['src/biogeme/deprecated.py', 'src/biogeme/models/cnl.py', 'src/biogeme/expressions/base_expressions.py',
                'src/biogeme/database.py', 'src/biogeme/biogeme.py', 'src/biogeme/results.py', 'src/biogeme/draws.py']
DETERMINISM_SLICE = 3
TASK_TIMEOUT = 600.0

_SEED = int(os.environ.get('VERIF_SEED', '0') or 0)
PKG = 'biogeme'
DOCUMENTED_SUFFIXES = ('_avail',)


# =========================================================================== token alphabets
class Tok:
    """Opaque token; equality is identity."""
    __slots__ = ('n',)

    def __init__(self, n):
        self.n = n

    def __repr__(self):
        return f'Tok({self.n})'


def pool_values(pool):
    """A pool is a list of >= 8 values used as positional / keyword / return tokens.
    pool 'obj' = opaque objects; pool 'val' = a per-seed alphabet of ordinary (incl. falsy, mutable) values;
    pool 'hostile' = values that must be handed on UNTOUCHED (one-shot iterables, objects whose special methods raise /
    are recorded) - built afresh on every call (see the hostile value alphabet below)."""
    if pool == 'obj':
        return [Tok(i) for i in range(8)]
    if pool == 'hostile':
        return [hostile_make(k) for k in HOSTILE_POOL[_SEED % len(HOSTILE_POOL)]]
    alph = {
        0: [0, '', None, False, 0.0, (), [], {}],
        1: [10 ** 20, -1, 2.5, 'x', b'y', (1, 2), [3], {'k': 4}],
        2: [[], [[]], {}, {'a': []}, set(), [None], [0], ['']],
        3: [None, None, 0, 0, '', '', False, False],
        7: [float('inf'), -0.0, 1e-300, 'naïve', ('t',), frozenset([1]), [1, [2]], True],
    }
    return alph.get(_SEED, alph[_SEED % 4])


def shapes(tier):
    """(npos, kwnames, raises)"""
    npos = range(0, 4) if tier == 'quick' else range(0, 6)
    kws = [(), ('k1',), ('k1', 'k2')] if tier == 'quick' else [(), ('k1',), ('k1', 'k2'), ('self_', 'args', 'kwargs')]
    out = [(n, k, False) for n in npos for k in kws]
    out += [(0, (), True), (2, ('k1',), True)]
    return out


def same_objs(a, b):
    return len(a) == len(b) and all(x is y for x, y in zip(a, b))


def same_kw(a, b):
    return list(a) == list(b) and all(a[k] is b[k] for k in a)


# =========================================================================== hostile value alphabet
# Values a forwarding layer must hand on UNTOUCHED: by identity, unconsumed, without calling any of their special methods
# (only a text rendering - __format__ / __str__ / __repr__ - is tolerated, since the renamed-keyword warning quotes the value).
class HostileError(Exception):
    pass


RENDER = ('__format__', '__str__', '__repr__')
_H_METHODS = ('__len__', '__iter__', '__bool__', '__eq__', '__ne__', '__hash__', '__contains__', '__getitem__',
              '__copy__', '__deepcopy__', '__reduce_ex__', '__getattr__', '__index__', '__float__')


class _HBase:
    """Every special method records its name in ``_log`` before it answers (or raises, for the names in RAISES)."""
    kind = 'counting'
    RAISES = ()

    def __init__(self):
        object.__setattr__(self, '_log', [])

    def _t(self, name):
        self._log.append(name)
        if name in self.RAISES:
            raise HostileError(f'{name} of the value was called')

    def __repr__(self):
        self._t('__repr__')
        return f'<c20 {self.kind} value (repr)>'

    def __str__(self):
        self._t('__str__')
        return f'<c20 {self.kind} value>'

    def __format__(self, spec):
        self._t('__format__')
        return str(self)   # (what object.__format__ does)


def _h_method(name):
    answers = {'__len__': lambda self: 3, '__iter__': lambda self: iter((1, 2, 3)), '__bool__': lambda self: True,
               '__eq__': lambda self, o: self is o, '__ne__': lambda self, o: self is not o,
               '__hash__': lambda self: object.__hash__(self), '__contains__': lambda self, x: False,
               '__getitem__': lambda self, i: (1, 2, 3)[i], '__copy__': lambda self: self,
               '__deepcopy__': lambda self, memo: self, '__reduce_ex__': lambda self, p: (type(self), ()),
               '__index__': lambda self: 3, '__float__': lambda self: 3.0}

    if name == '__getattr__':
        def m(self, attr):
            if attr.startswith('_'):
                raise AttributeError(attr)
            self._t('__getattr__')
            raise AttributeError(attr)
    else:
        def m(self, *a, _ans=answers[name]):
            self._t(name)
            return _ans(self, *a)
    m.__name__ = name
    return m


_H_CLASSES = {}


def _h_class(kind, raises=(), without=()):
    if kind not in _H_CLASSES:
        ns = {n: _h_method(n) for n in _H_METHODS if n not in without}
        ns.update(kind=kind, RAISES=tuple(raises), __module__='c20_hostile')
        _H_CLASSES[kind] = type('Hostile_' + re.sub(r'[^A-Za-z0-9]', '_', kind), (_HBase,), ns)
    return _H_CLASSES[kind]


_NO_NUM = ('__index__', '__float__')
# kind -> (value class used in finding keys, factory).  One-shot iterables carry their expected remaining content.
HOSTILE_KINDS = {
    'generator': ('one-shot-iterable-without-len', lambda: (x for x in ('b1', 'b2', 'b3'))),
    'list-iterator': ('one-shot-iterable-without-len', lambda: iter(['b1', 'b2', 'b3'])),
    'map-object': ('one-shot-iterable-without-len', lambda: map(str, ('b1', 'b2', 'b3'))),
    'zip-object': ('one-shot-iterable-without-len', lambda: zip(('b1', 'b2'), (1, 2))),
    'dict-keys': ('sized-view', lambda: {'b1': 1, 'b2': 2}.keys()),
    'range': ('sized-view', lambda: range(3)),
    'unsized-iterable': ('iterable-without-len', lambda: _h_class('unsized-iterable', without=('__len__', '__getitem__', '__contains__') + _NO_NUM)()),
    'counting': ('value-with-recorded-special-methods', lambda: _h_class('counting', without=_NO_NUM)()),
    'counting-number': ('value-with-recorded-special-methods', lambda: _h_class('counting-number', without=('__len__', '__iter__', '__getitem__', '__contains__'))()),
    'len-raises': ('len-raises', lambda: _h_class('len-raises', raises=('__len__',), without=_NO_NUM)()),
    'iter-raises': ('iter-raises', lambda: _h_class('iter-raises', raises=('__iter__',), without=_NO_NUM)()),
    'bool-raises': ('truth-value-raises', lambda: _h_class('bool-raises', raises=('__bool__',), without=('__len__',) + _NO_NUM)()),
    'eq-raises': ('comparison-raises', lambda: _h_class('eq-raises', raises=('__eq__', '__ne__'), without=_NO_NUM)()),
    'hash-raises': ('hash-raises', lambda: _h_class('hash-raises', raises=('__hash__',), without=_NO_NUM)()),
    'getattr-raises': ('attribute-probe-raises', lambda: _h_class('getattr-raises', raises=('__getattr__',), without=_NO_NUM)()),
    'copy-raises': ('copy-raises', lambda: _h_class('copy-raises', raises=('__copy__', '__deepcopy__', '__reduce_ex__'), without=_NO_NUM)()),
    'repr-raises': ('repr-raises', lambda: _h_class('repr-raises', raises=('__repr__',), without=_NO_NUM)()),
    'str-raises': ('text-rendering-raises', lambda: _h_class('str-raises', raises=('__str__',), without=_NO_NUM)()),
    'format-raises': ('text-rendering-raises', lambda: _h_class('format-raises', raises=('__format__',), without=_NO_NUM)()),
    'numpy-0d': ('array', lambda: __import__('numpy').array(1.5)),
    'numpy-1d': ('array', lambda: __import__('numpy').array([0.25, 0.5, 0.75])),
    'numpy-empty': ('array', lambda: __import__('numpy').zeros((0, 2))),
    'dataframe': ('data-frame', lambda: __import__('pandas').DataFrame({'a': [1, 2], 'b': [0.5, 1.5]})),
    'series': ('data-frame', lambda: __import__('pandas').Series([1.0, 2.0], name='s')),
    'format-chars-str': ('text', lambda: '%s %(x)s {0} {value} {} \\ \' "'),
    'surrogate-str': ('text', lambda: 'lone \ud800 surrogate'),
    'bytes': ('text', lambda: b'\xff\x00 bytes'),
}
# (quick / thorough use all kinds in DPV; the positional pools of the alias layers use 8 of them, by VERIF_SEED)
HOSTILE_POOL = [
    ['generator', 'counting', 'bool-raises', 'str-raises', 'eq-raises', 'len-raises', 'list-iterator', 'repr-raises'],
    ['map-object', 'counting-number', 'format-raises', 'hash-raises', 'getattr-raises', 'unsized-iterable', 'iter-raises', 'copy-raises'],
    ['zip-object', 'counting', 'numpy-0d', 'dataframe', 'surrogate-str', 'format-chars-str', 'generator', 'bool-raises'],
    ['counting', 'str-raises', 'repr-raises', 'format-raises', 'len-raises', 'eq-raises', 'map-object', 'numpy-1d'],
]
_ONESHOT = {}   # id(value) -> (value, expected remaining content): filled by hostile_make, emptied by untouched()


def hostile_make(kind):
    v = HOSTILE_KINDS[kind][1]()
    if HOSTILE_KINDS[kind][0] == 'one-shot-iterable-without-len':
        twin = HOSTILE_KINDS[kind][1]()
        if len(_ONESHOT) > 64:
            _ONESHOT.clear()
        _ONESHOT[id(v)] = (v, list(twin))
    return v


def untouched(values, consume=True):
    """The 'handed on untouched' clause, for every hostile value among `values`: -> (list of what was done, rendered count).
    No special method may have been called (a text rendering is tolerated and counted); one-shot iterables must still
    deliver their whole content (checked - by consuming them - only when `consume`).  The records are cleared."""
    out, rendered = [], 0
    for v in values:
        if isinstance(v, _HBase):
            calls = [c for c in v._log if c not in RENDER]
            rendered += len(v._log) - len(calls)
            if calls:
                out.append(f'{", ".join(calls)} of the {v.kind} value called')
            del v._log[:]
        elif consume and id(v) in _ONESHOT and _ONESHOT[id(v)][0] is v:
            _, want = _ONESHOT.pop(id(v))
            left = list(v)
            if left != want:
                out.append(f'the {type(v).__name__} was consumed: {len(left)} of {len(want)} items left')
    return out, rendered


def _sr(x, depth=0):
    """repr() that never raises and never contains an address (hostile values in messages)."""
    if isinstance(x, _HBase):
        return f'<{x.kind} value>'
    if isinstance(x, (tuple, list)) and depth < 3:
        inner = ', '.join(_sr(v, depth + 1) for v in x)
        return ('(' + inner + (',' if len(x) == 1 else '') + ')') if isinstance(x, tuple) else '[' + inner + ']'
    if isinstance(x, dict) and depth < 3:
        return '{' + ', '.join(f'{_sr(k, depth + 1)}: {_sr(v, depth + 1)}' for k, v in x.items()) + '}'
    try:
        return _mask(repr(x))[:300]
    except BaseException as e:  # noqa
        return f'<{type(x).__name__}: repr raises {type(e).__name__}>'


# =========================================================================== discovery
_DISC = None


def _is_alias(f):
    if not callable(f):
        return False
    try:
        if getattr(f, '__deprecated__', False) is True and isinstance(getattr(f, '__newname__', None), str):
            return True
    except Exception:
        return False
    code = getattr(f, '__code__', None)
    if code is not None and 'new_func' in code.co_freevars and hasattr(f, '__wrapped__'):
        return True  # unmarked wrapper: recognised by its closure (discovery only)
    return False


def _newname(f):
    n = getattr(f, '__newname__', None)
    if isinstance(n, str):
        return n
    code = f.__code__
    cell = f.__closure__[code.co_freevars.index('new_func')]
    return getattr(cell.cell_contents, '__name__', None)


def _unwrap_raw(raw):
    if isinstance(raw, (staticmethod, classmethod)):
        return raw.__func__, ('static' if isinstance(raw, staticmethod) else 'class')
    return raw, 'method'


def _dp_levels(f):
    """deprecated_parameters layers on a function: list of (wrapper, obsolete dict); discovery by closure."""
    out = []
    seen = set()
    while f is not None and id(f) not in seen:
        seen.add(id(f))
        code = getattr(f, '__code__', None)
        if code is not None and 'obsolete_params' in code.co_freevars and f.__closure__:
            try:
                d = f.__closure__[code.co_freevars.index('obsolete_params')].cell_contents
            except ValueError:
                d = None
            if isinstance(d, dict):
                out.append((f, dict(d)))
        f = getattr(f, '__wrapped__', None)
    return out


def discover():
    """Walks the whole package.  Returns a dict of sorted, deterministic lists."""
    global _DISC
    if _DISC is not None:
        return _DISC
    import importlib
    import inspect
    import pkgutil
    import sys

    pkg = importlib.import_module(PKG)
    mods = {PKG: pkg}
    import_errors = []
    for m in pkgutil.walk_packages(pkg.__path__, PKG + '.'):
        try:
            mods[m.name] = importlib.import_module(m.name)
        except BaseException as e:  # a module that cannot be imported is reported, never skipped silently
            import_errors.append((m.name, type(e).__name__))
    classes = {}
    mod_aliases = []   # (binding module, attr, newname, defining module)
    dp = {}            # id(outer function) -> dict(label, func, obsolete, owner)
    for name in sorted(mods):
        mod = mods[name]
        for an in sorted(vars(mod)):
            obj = vars(mod)[an]
            if inspect.isclass(obj):
                if (obj.__module__ or '').startswith(PKG):
                    classes[(obj.__module__, obj.__qualname__)] = obj
                continue
            if _is_alias(obj):
                mod_aliases.append((name, an, _newname(obj), getattr(obj, '__module__', name)))
            if inspect.isfunction(obj) and (obj.__module__ or '').startswith(PKG):
                lv = _dp_levels(obj)
                if lv and id(obj) not in dp:
                    dp[id(obj)] = dict(label=f'{obj.__module__}.{obj.__qualname__}', func=obj, levels=lv, owner=None)
    # nested classes
    todo = list(classes.values())
    while todo:
        c = todo.pop()
        for an, v in vars(c).items():
            if inspect.isclass(v) and (v.__module__ or '').startswith(PKG) and (v.__module__, v.__qualname__) not in classes:
                classes[(v.__module__, v.__qualname__)] = v
                todo.append(v)
    pairs = []   # (cmod, cqual, alias, newname, declaring cmod, declaring cqual, kind)
    decls = set()
    for key in sorted(classes):
        cls = classes[key]
        for an in sorted(dir(cls)):
            try:
                raw = inspect.getattr_static(cls, an)
            except AttributeError:
                continue
            f, kind = _unwrap_raw(raw)
            if _is_alias(f):
                decl = next(k for k in cls.__mro__ if an in vars(k))
                pairs.append((key[0], key[1], an, _newname(f), decl.__module__, decl.__qualname__, kind))
                decls.add((decl.__module__, decl.__qualname__, an))
        for an, raw in vars(cls).items():
            f, kind = _unwrap_raw(raw)
            if inspect.isfunction(f):
                lv = _dp_levels(f)
                if lv and id(f) not in dp:
                    dp[id(f)] = dict(label=f'{cls.__module__}.{cls.__qualname__}.{an}', func=f, levels=lv,
                                     owner=key, kind=kind)
    fun_decls = sorted({(d, getattr(sys.modules[d], a).__wrapped__.__qualname__ if hasattr(getattr(sys.modules[d], a, None), '__wrapped__') else a)
                        for (_, a, _, d) in mod_aliases if d in sys.modules and hasattr(sys.modules[d], a)})
    _DISC = dict(mods=mods, classes=classes, mod_aliases=sorted(mod_aliases), pairs=sorted(pairs),
                 class_decls=sorted(decls), fun_decls=fun_decls,
                 dp=sorted(dp.values(), key=lambda d: d['label']), import_errors=import_errors)
    return _DISC


def ast_scan():
    """Independent textual count of declarations in the package sources (vacuity guard for discovery)."""
    import ast
    import importlib

    root = os.path.dirname(importlib.import_module(PKG).__file__)
    n_dep, n_dp = 0, 0
    for dp_, _, files in sorted(os.walk(root)):
        for fn in sorted(files):
            if not fn.endswith('.py'):
                continue
            with open(os.path.join(dp_, fn), encoding='utf-8') as fh:
                try:
                    tree = ast.parse(fh.read())
                except SyntaxError:
                    continue
            for node in ast.walk(tree):
                if isinstance(node, (ast.FunctionDef, ast.AsyncFunctionDef)):
                    for d in node.decorator_list:
                        if isinstance(d, ast.Call):
                            nm = d.func.id if isinstance(d.func, ast.Name) else getattr(d.func, 'attr', None)
                            if nm == 'deprecated':
                                n_dep += 1
                            elif nm == 'deprecated_parameters':
                                n_dp += 1
    return n_dep, n_dp


# =========================================================================== observation harness
class Observe:
    """Collects warnings, log records and stdout during one call."""

    def __enter__(self):
        import contextlib
        import io
        import logging
        import warnings

        self._cw = warnings.catch_warnings(record=True)
        self.w = self._cw.__enter__()
        warnings.simplefilter('always')
        self.records = []
        outer = self

        class H(logging.Handler):
            def emit(self, record):
                outer.records.append((record.name, record.levelname))

        self._h = H(level=0)
        self._root = logging.getLogger()
        self._lvl = self._root.level
        self._disabled = logging.root.manager.disable
        logging.disable(logging.NOTSET)
        self._root.addHandler(self._h)
        self._buf = io.StringIO()
        self._rs = contextlib.redirect_stdout(self._buf)
        self._rs.__enter__()
        return self

    def __exit__(self, *exc):
        import logging

        self._rs.__exit__(None, None, None)
        self._root.removeHandler(self._h)
        logging.disable(self._disabled)
        self._cw.__exit__(None, None, None)
        return False

    def dep_warnings(self):
        return [x for x in self.w if issubclass(x.category, DeprecationWarning)]

    def other_warnings(self):
        return [x for x in self.w if not issubclass(x.category, DeprecationWarning)]

    @property
    def out(self):
        return self._buf.getvalue()


class SentinelRaised(Exception):
    pass


class Sink:
    def __init__(self, ret, raises):
        self.calls = []
        self.ret = ret
        self.raises = raises
        self.exc = SentinelRaised('from the sentinel') if raises else None

    def __call__(self, args, kwargs):
        self.calls.append((args, kwargs))
        if self.raises:
            raise self.exc
        return self.ret


_CODE_CACHE = {}


def _sentinel_code(nfree):
    if nfree not in _CODE_CACHE:
        lines = ['def outer():']
        for i in range(nfree):
            lines.append(f'    v{i} = None')
        lines.append('    def s(*args, **kwargs):')
        if nfree:
            lines.append('        (' + ', '.join(f'v{i}' for i in range(nfree)) + ',)')
        lines.append('        return __c20_sink__(args, kwargs)')
        lines.append('    return s')
        ns = {}
        exec('\n'.join(lines), ns)
        _CODE_CACHE[nfree] = ns['outer']().__code__
    return _CODE_CACHE[nfree]


def core_function(f):
    """Follows __wrapped__ to the innermost plain Python function (None if there is none)."""
    import inspect

    seen = set()
    while hasattr(f, '__wrapped__') and id(f) not in seen:
        seen.add(id(f))
        f = f.__wrapped__
    return f if inspect.isfunction(f) else None


class CodeSwap:
    """Turns a real function into the sentinel for the duration of the block."""

    def __init__(self, func, sink):
        self.f = func
        self.sink = sink

    def __enter__(self):
        import builtins

        f = self.f
        self.saved = (f.__code__, f.__defaults__, f.__kwdefaults__)
        builtins.__c20_sink__ = self.sink
        f.__defaults__ = None
        f.__kwdefaults__ = None
        f.__code__ = _sentinel_code(len(f.__code__.co_freevars))
        return self

    def __exit__(self, *exc):
        import builtins

        f = self.f
        f.__code__, f.__defaults__, f.__kwdefaults__ = self.saved
        try:
            del builtins.__c20_sink__
        except AttributeError:
            pass
        return False


def make_args(shape, pool):
    npos, kwn, raises = shape
    vals = pool_values(pool)
    pos = tuple(vals[i % len(vals)] for i in range(npos))
    kw = {k: vals[(npos + j) % len(vals)] for j, k in enumerate(kwn)}
    ret = vals[(npos + len(kwn)) % len(vals)] if pool == 'val' else hostile_make('counting') if pool == 'hostile' else Tok('ret')
    return pos, kw, ret, raises


def judge_call(obs, sink, result, exc, exp_args, exp_kw, newname, n_warn=1, warn_names=None):
    """Common oracle of a sentinel probe.  Returns list of (clause, detail, expected, observed)."""
    bad = []
    # (first, before any value is rendered into a message: were the values handed on untouched?)
    touch, _ = untouched(list(exp_args) + list(exp_kw.values()) + [sink.ret])
    for t in touch:
        bad.append(('argument-not-handed-on-untouched', t, 'values are handed to the replacement as they are (no special '
                    'method called, iterators unconsumed)', t))
    if not sink.calls:
        bad.append(('alias-does-not-reach-receivers-replacement',
                    f'the redefined/own replacement {newname} was never called'
                    + (f' (the alias raised {type(exc).__name__}: {exc})' if exc is not None and exc is not sink.exc else ''),
                    'sentinel called once', 'not called'))
    elif len(sink.calls) > 1:
        bad.append(('replacement-called-more-than-once', f'{len(sink.calls)} calls', 1, len(sink.calls)))
    else:
        a, k = sink.calls[0]
        if not same_objs(a, exp_args):
            bad.append(('arguments-not-passed-through', f'positional {_sr(a)} instead of {_sr(exp_args)}', _sr(exp_args), _sr(a)))
        if not same_kw(k, exp_kw):
            bad.append(('arguments-not-passed-through', f'keywords {_sr(k)} instead of {_sr(exp_kw)}', _sr(exp_kw), _sr(k)))
        if sink.raises:
            if exc is not sink.exc:
                bad.append(('exception-not-passed-through', f'got {_sr(exc)}', _sr(sink.exc), _sr(exc)))
        else:
            if exc is not None:
                bad.append(('alias-raises', f'{type(exc).__name__}: {exc}', 'no exception', _sr(exc)))
            elif result is not sink.ret:
                bad.append(('result-not-passed-through', f'returned {_sr(result)} instead of {_sr(sink.ret)}',
                            _sr(sink.ret), _sr(result)))
    dw = obs.dep_warnings()
    if len(dw) != n_warn:
        bad.append(('warning-count', f'{len(dw)} DeprecationWarning(s) instead of {n_warn}: {[str(x.message) for x in dw]}',
                    n_warn, len(dw)))
    else:
        for x, names in zip(dw, warn_names or [[newname]]):
            msg = str(x.message)
            for nm in names:
                if not re.search(r'(?<![A-Za-z0-9_])' + re.escape(nm) + r'(?![A-Za-z0-9_])', msg):
                    bad.append(('warning-does-not-name-replacement', f'message {msg!r} does not name {nm!r}', nm, msg))
    if obs.other_warnings():
        bad.append(('adds-more-than-the-warning', f'extra warnings {[str(x.message) for x in obs.other_warnings()]}', 0, len(obs.other_warnings())))
    if obs.records:
        bad.append(('adds-more-than-the-warning', f'log records {obs.records}', 0, len(obs.records)))
    if obs.out:
        bad.append(('adds-more-than-the-warning', f'output {obs.out[:80]!r}', '', obs.out[:80]))
    return bad


def outcome_of(bad, sink, exc):
    return (tuple(sorted({b[0] for b in bad})), len(sink.calls), type(exc).__name__ if exc is not None else None)


# =========================================================================== L0: decorator level
def toy_family():
    """The real decorator applied in every declaration form.  Built in the worker from the tree under test."""
    from biogeme.deprecated import deprecated

    log = []

    def new_f(*a, **k):
        log.append(('fun', a, k))
        return log[-1]

    @deprecated(new_f)
    def oldF(*a, **k):
        pass

    class Base:
        def new_m(self, *a, **k):
            log.append(('Base.new_m', a, k))
            return log[-1]

        @deprecated(new_m)
        def oldM(self, *a, **k):
            pass

        @classmethod
        def new_c(cls, *a, **k):
            log.append(('Base.new_c', a, k))
            return log[-1]

        @classmethod
        @deprecated(new_c.__func__)
        def oldC(cls, *a, **k):
            pass

        @staticmethod
        def new_s(*a, **k):
            log.append(('Base.new_s', a, k))
            return log[-1]

        @staticmethod
        @deprecated(new_s.__func__)
        def oldS(*a, **k):
            pass

        @staticmethod
        @deprecated(new_s)
        def oldS2(*a, **k):
            pass

    class Sub(Base):
        pass

    class SubOv(Base):
        def new_m(self, *a, **k):
            log.append(('SubOv.new_m', a, k))
            return log[-1]

        @classmethod
        def new_c(cls, *a, **k):
            log.append(('SubOv.new_c', a, k))
            return log[-1]

        @staticmethod
        def new_s(*a, **k):
            log.append(('SubOv.new_s', a, k))
            return log[-1]

    class SubOv2(SubOv):
        pass

    class Other:
        """Unrelated object that happens to have the replacement's name: must never capture a function alias."""

        def new_f(self, *a, **k):
            log.append(('Other.new_f', a, k))

        def new_s(self, *a, **k):
            log.append(('Other.new_s', a, k))

    return dict(log=log, oldF=oldF, new_f=new_f, Base=Base, Sub=Sub, SubOv=SubOv, SubOv2=SubOv2, Other=Other)


L0_FORMS = [
    # (form, alias, newname, receivers)
    ('function', 'oldF', 'new_f', ['none', 'other-first-arg']),
    ('method', 'oldM', 'new_m', ['Base', 'Sub', 'SubOv', 'SubOv2', 'Base-via-class', 'SubOv-via-class', 'SubOv-via-base']),
    ('classmethod', 'oldC', 'new_c', ['Base', 'Sub', 'SubOv', 'SubOv2', 'Base-cls', 'SubOv-cls', 'SubOv2-cls']),
    ('staticmethod', 'oldS', 'new_s', ['Base', 'SubOv', 'Base-cls', 'SubOv-cls', 'other-first-arg']),
    ('staticmethod-obj', 'oldS2', 'new_s', ['Base', 'SubOv', 'Base-cls', 'SubOv-cls', 'other-first-arg']),
]


def l0_probe(form, alias, newname, recv, shape, pool):
    fam = toy_family()
    log = fam['log']
    pos, kw, _, raises = make_args(shape, pool)
    if raises:
        return None
    lead = ()
    if recv == 'other-first-arg':
        lead = (fam['Other'](),)
    if form == 'function':
        fn = fam[alias]
        expect = ['fun']
        exp_args = lead + pos
    else:
        cname = recv.split('-')[0]
        if recv == 'other-first-arg':
            cname = 'Base'
        cls = fam[cname]
        inst = object.__new__(cls)
        if recv.endswith('-via-class'):
            fn = getattr(cls, alias)
            lead = (inst,)
        elif recv.endswith('-via-base'):
            fn = getattr(fam['Base'], alias)
            lead = (inst,)
        elif recv.endswith('-cls') or recv == 'other-first-arg':
            fn = getattr(cls, alias)
        else:
            fn = getattr(inst, alias)
        resolved = next(k.__name__ for k in cls.__mro__ if newname in vars(k))
        if form.startswith('staticmethod'):
            expect = [f'{resolved}.{newname}', f'Base.{newname}']  # no receiver is visible: declared one accepted
            exp_args = lead + pos
        else:
            expect = [f'{resolved}.{newname}']
            exp_args = pos
    res = exc = None
    with Observe() as obs:
        try:
            res = fn(*lead, *pos, **kw)
        except BaseException as e:  # noqa
            exc = e
    bad = []
    if exc is not None:
        bad.append(('alias-raises', f'{type(exc).__name__}: {exc}', 'no exception', repr(exc)))
    elif len(log) != 1:
        bad.append(('alias-does-not-reach-receivers-replacement', f'{len(log)} calls of a replacement', 1, len(log)))
    else:
        who, a, k = log[0]
        if who not in expect:
            bad.append(('alias-does-not-reach-receivers-replacement', f'reached {who}, expected {expect[0]}', expect[0], who))
        if not same_objs(a, exp_args) or not same_kw(k, kw):
            bad.append(('arguments-not-passed-through', f'{_sr(a)} {_sr(k)} instead of {_sr(exp_args)} {_sr(kw)}', _sr((exp_args, kw)), _sr((a, k))))
        if res is not log[0]:
            bad.append(('result-not-passed-through', f'{_sr(res)}', 'the replacement\'s return value', _sr(res)))
    for t in untouched(list(pos) + list(kw.values()))[0]:
        bad.append(('argument-not-handed-on-untouched', t, 'values are handed to the replacement as they are', t))
    dw = obs.dep_warnings()
    if len(dw) != 1:
        bad.append(('warning-count', f'{len(dw)} DeprecationWarning(s)', 1, len(dw)))
    elif newname not in str(dw[0].message):
        bad.append(('warning-does-not-name-replacement', str(dw[0].message), newname, str(dw[0].message)))
    static_nodispatch = bool(form.startswith('staticmethod') and len(log) == 1 and log[0][0] != expect[0])
    return bad, (tuple(b[0] for b in bad), log[0][0] if log else None), static_nodispatch


# =========================================================================== reference model of access paths (pure)
def explicit_path_model(mro_r, mro_of, old_of, new_of, unbound=True):
    """Plain-Python model of name resolution, on the STRUCTURE of a hierarchy only.

    mro_r: the receiver class's MRO (any hashable class keys, `object` left out); mro_of(K): MRO of K;
    old_of(K) / new_of(K): what K's OWN body declares under the old / new name (None when nothing).
    Returns one row per access path: ('ordinary', None), ('unbound', i) = K.old(obj) and ('super', i) =
    super(K, obj).old() with K = mro_r[i]; row = dict(path, old_cls, old, pair) where `old` is what the path finds
    under the old name (declared in old_cls) and `pair` what THE SAME path finds under the new name."""
    def first(seq, f):
        for k in seq:
            v = f(k)
            if v is not None:
                return k, v
        return None, None

    paths = [(('ordinary', None), list(mro_r))]
    if unbound:
        paths += [(('unbound', i), list(mro_of(k))) for i, k in enumerate(mro_r)]
    paths += [(('super', i), list(mro_r[i + 1:])) for i in range(len(mro_r) - 1)]
    rows = []
    for p, seq in paths:
        ko, o = first(seq, old_of)
        _, n = first(seq, new_of)
        rows.append(dict(path=p, old_cls=ko, old=o, pair=n))
    return rows


def path_expectation(rows, row):
    """-> (mode, expected replacement, candidates).
    'ordinary'  : the path finds the alias the receiver itself resolves - the call is indistinguishable from obj.old():
                  the replacement the RECEIVER resolves (the core clause of the property);
    'shadowed'  : the path finds an alias that a subclass of its declaring class re-declares (only explicit calls get
                  there): the function the same explicit call of the new name runs, when all explicit paths reaching
                  this alias agree on it;
    'undecidable': they do not agree (the statement cannot be met for all of them at once), or the declaration points
                  to another function than the one its own class resolves under the new name;
    'not-an-alias': the path finds no alias (a plain method / nothing)."""
    if row['old'] is None or row['old'][0] != 'alias':
        return 'not-an-alias', None, ()
    own = rows[0]
    if own['old_cls'] == row['old_cls'] and own['old'] == row['old']:
        return 'ordinary', own['pair'], (own['pair'],)
    cands = {r['pair'] for r in rows[1:] if r['old_cls'] == row['old_cls'] and r['old'] == row['old']}
    if len(row['old']) > 2:
        # the function the declaration itself points to (known for the toy hierarchies only): a declaration whose
        # target is not what its own class resolves under the new name ('realias' under multiple inheritance) leaves
        # "the replacement" of that alias ambiguous between the function and the name
        cands.add(row['old'][2])
    cands = sorted(cands, key=repr)
    if len(cands) == 1 and cands[0] is not None:
        return 'shadowed', cands[0], tuple(cands)
    return 'undecidable', None, tuple(cands)


# =========================================================================== L0H: hierarchies x access paths (toy level)
H_OPTIONS = ['inherit', 'ov-new', 'redecl', 'realias', 'plain-old']
H_KINDS = ['method', 'classmethod']
H_NAMES = {'method': ('oldM', 'new_m'), 'classmethod': ('oldC', 'new_c')}


def h_specs(tier):
    """Hierarchies (tuple of (class name, bases, option)); the receiver is the LAST class.  Chains of every depth
    0..3 (thorough: 4), diamonds D(L, M) over one root (thorough: plus a class below the diamond)."""
    out = [(('R0', (), 'root'),)]
    maxd = 3 if tier == 'quick' else 4
    for d in range(1, maxd + 1):
        for opts in itertools.product(H_OPTIONS, repeat=d):
            spec = [('R0', (), 'root')]
            for i, o in enumerate(opts):
                spec.append((f'A{i + 1}', (spec[-1][0],), o))
            out.append(tuple(spec))
    for ol, om, od in itertools.product(H_OPTIONS, repeat=3):
        dia = (('R0', (), 'root'), ('L', ('R0',), ol), ('M', ('R0',), om), ('D', ('L', 'M'), od))
        out.append(dia)
        if tier != 'quick':
            for oe in H_OPTIONS:
                out.append(dia + (('E', ('D',), oe),))
    return out


def h_shapes(tier):
    if tier == 'quick':
        return [(0, (), False), (1, ('k1',), False), (2, (), False)]
    return [(n, k, False) for n in (0, 1, 2, 5) for k in ((), ('k1', 'k2'))]


def h_abstract(spec):
    """The hierarchy as the reference model sees it: MROs (C3, computed on bare dummy classes) and, per class, what its
    body declares: new -> tag of the function; old -> ('alias', declaring class, tag of the captured function) |
    ('plain', tag)."""
    dummies, mro, decl = {}, {}, {}
    for name, bases, opt in spec:
        dummies[name] = type(name, tuple(dummies[b] for b in bases), {})
        mro[name] = [k.__name__ for k in dummies[name].__mro__ if k is not object]

        def res(start, what):
            for k in mro[start]:
                if k in decl and decl[k][what] is not None:
                    return decl[k][what]
            return None

        d = dict(new=None, old=None)
        if opt in ('root', 'redecl'):
            d['new'] = f'{name}.new'
            d['old'] = ('alias', name, f'{name}.new')
        elif opt == 'ov-new':
            d['new'] = f'{name}.new'
        elif opt == 'realias':
            d['old'] = ('alias', name, res(bases[0], 'new'))
        elif opt == 'plain-old':
            d['old'] = ('plain', f'{name}.old-plain')
        decl[name] = d
    return mro, decl


_H_SRC = {}


def h_source(spec, kind):
    key = (spec, kind)
    if key in _H_SRC:
        return _H_SRC[key]
    old, new = H_NAMES[kind]
    cm = kind == 'classmethod'
    first = 'cls' if cm else 'self'
    deco = '    @classmethod\n' if cm else ''
    fn = '.__func__' if cm else ''
    lines = []
    for name, bases, opt in spec:
        lines.append(f'class {name}({", ".join(bases)}):')
        lines.append(f'    """{opt}"""')
        if opt in ('root', 'redecl', 'ov-new'):
            lines.append(f'{deco}    def {new}({first}, *a, **k):\n        return __log__("{name}.new", {first}, a, k)')
        if opt in ('root', 'redecl'):
            lines.append(f'{deco}    @deprecated({new}{fn})\n    def {old}({first}, *a, **k):\n        pass')
        if opt == 'realias':
            lines.append(f'{deco}    @deprecated({bases[0]}.{new}{fn})\n    def {old}({first}, *a, **k):\n        pass')
        if opt == 'plain-old':
            lines.append(f'{deco}    def {old}({first}, *a, **k):\n        return __log__("{name}.old-plain", {first}, a, k)')
    _H_SRC[key] = compile('\n'.join(lines) + '\n', f'<c20 toy hierarchy {kind}>', 'exec')
    return _H_SRC[key]


def h_build(spec, kind):
    """The hierarchy declared for real (class bodies, the real decorator of the tree under test)."""
    from biogeme.deprecated import deprecated

    log = []

    def __log__(tag, recv, a, k):
        e = (tag, recv, a, k)
        log.append(e)
        return e

    ns = {'deprecated': deprecated, '__log__': __log__, '__name__': 'c20_toy_hierarchy'}
    exec(h_source(spec, kind), ns)
    return ns, log


def h_paths(spec, kind):
    """All access paths on the receiver (= last class) with the model's verdict: list of (path, mode, target, cands)."""
    mro, decl = h_abstract(spec)
    r = spec[-1][0]
    rows = explicit_path_model(mro[r], lambda k: mro[k], lambda k: decl[k]['old'], lambda k: decl[k]['new'])
    out = []
    for row in rows:
        mode, target, cands = path_expectation(rows, row)
        form, i = row['path']
        kname = mro[r][i] if i is not None else None
        if kind == 'classmethod':
            # (K.old() binds K itself: an ordinary call on K; the explicit unbound form is K.old.__func__(cls))
            forms = [('ordinary-class', None), ('ordinary-inst', None)] if form == 'ordinary' else \
                [('unbound-func', kname)] if form == 'unbound' else [('super-class', kname), ('super-inst', kname)]
        else:
            forms = [(form, kname)]
        for f in forms:
            out.append((f, mode, target, cands, row['pair'], row['old']))
    return out


def h_probe(spec, kind, path, shape, pool, built=None):
    """One call of the old name through one access path.  Returns (bad, outcome, mode, pairing_differs) or None."""
    old, new = H_NAMES[kind]
    entry = [p for p in h_paths(spec, kind) if p[0] == tuple(path)]
    if not entry:
        return None
    (form, kname), mode, target, cands, pair, olddecl = entry[0]
    if mode == 'not-an-alias':
        return None
    ns, log = built if built is not None else h_build(spec, kind)
    del log[:]
    pos, kw, _, _ = make_args(shape, pool)
    rcls = ns[spec[-1][0]]
    obj = object.__new__(rcls)
    recv = obj if kind == 'method' else rcls
    res = exc = None
    with Observe() as obs:
        try:
            if form == 'ordinary':
                res = getattr(obj, old)(*pos, **kw)
            elif form == 'unbound':
                res = getattr(ns[kname], old)(obj, *pos, **kw)
            elif form == 'super':
                res = getattr(super(ns[kname], obj), old)(*pos, **kw)
            elif form == 'ordinary-class':
                res = getattr(rcls, old)(*pos, **kw)
            elif form == 'ordinary-inst':
                res = getattr(obj, old)(*pos, **kw)
            elif form == 'unbound-func':
                res = getattr(ns[kname], old).__func__(rcls, *pos, **kw)
            elif form == 'super-class':
                res = getattr(super(ns[kname], rcls), old)(*pos, **kw)
            elif form == 'super-inst':
                res = getattr(super(ns[kname], obj), old)(*pos, **kw)
            else:
                raise ValueError(form)
        except BaseException as e:  # noqa
            exc = e
    bad = []
    reach = {'ordinary': 'alias-does-not-reach-receivers-replacement',
             'shadowed': 'explicit-call-of-ancestors-alias-does-not-run-ancestors-replacement',
             'undecidable': 'alias-reaches-none-of-the-candidate-replacements'}[mode]
    reached = log[0][0] if log else None
    if exc is not None:
        bad.append(('alias-raises', f'{type(exc).__name__}: {exc}', 'no exception', repr(exc)))
    elif len(log) != 1:
        bad.append((reach, f'{len(log)} calls of a replacement ({[e[0] for e in log]})', 1, len(log)))
    else:
        tag, rv, a, k = log[0]
        ok = (tag == target) if mode != 'undecidable' else (tag in cands)
        if not ok:
            want = target if mode != 'undecidable' else ' or '.join(map(str, cands))
            bad.append((reach, f'ran {tag}, the same call of the new name runs {want}'
                        + (f' (the receiver itself resolves {pair!r} on this path)' if mode == 'ordinary' and pair != target else ''),
                        want, tag))
        if rv is not recv:
            bad.append(('arguments-not-passed-through', f'receiver {rv!r} instead of {recv!r}', repr(recv), repr(rv)))
        if not same_objs(a, pos) or not same_kw(k, kw):
            bad.append(('arguments-not-passed-through', f'{a!r} {k!r} instead of {pos!r} {kw!r}', repr((pos, kw)), repr((a, k))))
        if res is not log[0]:
            bad.append(('result-not-passed-through', f'{res!r}', 'the replacement\'s return value', repr(res)))
    dw = obs.dep_warnings()
    if len(dw) != 1:
        bad.append(('warning-count', f'{len(dw)} DeprecationWarning(s)', 1, len(dw)))
    elif not re.search(r'(?<![A-Za-z0-9_])' + re.escape(new) + r'(?![A-Za-z0-9_])', str(dw[0].message)):
        bad.append(('warning-does-not-name-replacement', str(dw[0].message), new, str(dw[0].message)))
    if obs.other_warnings() or obs.records or obs.out:
        bad.append(('adds-more-than-the-warning', f'{len(obs.other_warnings())} other warnings, {obs.records}, {obs.out[:60]!r}', 'nothing', 'something'))
    if vars(obj):
        bad.append(('adds-more-than-the-warning', f'receiver state changed: {sorted(vars(obj))}', {}, sorted(vars(obj))))
    own_cls = reached.split('.')[0] == spec[-1][0] if reached else None
    return bad, (mode, tuple(b[0] for b in bad), form, own_cls), mode, (mode == 'ordinary' and pair != target)


def h_run(rec, kind, specs, tier, only=None):
    for spec in specs:
        built = h_build(spec, kind)
        for (path, mode, target, cands, pair, olddecl) in h_paths(spec, kind):
            if mode == 'not-an-alias':
                rec.count('l0h_paths_that_find_no_alias')
                continue
            rec.count(f'l0h_paths_{mode}' + ('_weak_oracle_only' if mode == 'undecidable' else ''))
            for shape in h_shapes(tier):
                for pool in POOLS:
                    r = h_probe(spec, kind, path, shape, pool, built)
                    if r is None:
                        continue
                    bad, outcome, mode, differs = r
                    if differs:
                        rec.count('l0h_explicit_call_indistinguishable_from_ordinary_call_pairing_differs')
                    opts = tuple((n, b, o) for n, b, o in spec)
                    rec.case(('L0H', kind, opts, path, shape, pool), (kind, opts, path, shape, pool, outcome), outcome=('L0H',) + outcome)
                    _viol(rec, 'L0H hierarchy x access path', f'decorator-level:{kind}:{mode}-alias',
                          f'{kind} alias, hierarchy {[(n, list(b), o) for n, b, o in spec]}, path {path}', bad,
                          dict(part='L0H', kind=kind, spec=[[n, list(b), o] for n, b, o in spec], path=list(path),
                               shape=[shape[0], list(shape[1]), shape[2]], pool=pool))


# =========================================================================== L1: dispatch probes
def _get_class(cmod, cqual):
    return discover()['classes'][(cmod, cqual)]


_T_CACHE = {}


def _throwaway(C, newname, kind, depth):
    """Subclass of C that redefines `newname` as the sentinel (abstract methods stubbed)."""
    key = (C, newname, kind, depth)
    if key in _T_CACHE:
        return _T_CACHE[key]
    import builtins  # noqa: F401

    if kind == 'method':
        def sent(self, *args, **kwargs):
            return __c20_sink__((self,) + args, kwargs)  # noqa: F821
    elif kind == 'class':
        def _s(cls, *args, **kwargs):
            return __c20_sink__((cls,) + args, kwargs)  # noqa: F821
        sent = classmethod(_s)
    else:
        def _s(*args, **kwargs):
            return __c20_sink__(args, kwargs)  # noqa: F821
        sent = staticmethod(_s)
    ns = {newname: sent, '__module__': 'c20_throwaway'}
    for nm in getattr(C, '__abstractmethods__', ()):
        if nm != newname:
            ns[nm] = lambda *a, **k: None
    T = type(C)('T_' + C.__name__, (C,), ns)
    if depth == 2:
        T = type(C)('T2_' + C.__name__, (T,), {'__module__': 'c20_throwaway'})
    _T_CACHE[key] = T
    return T


def _plain_sub(C):
    """Trivial subclass of C (only abstract stubs), so that object.__new__ works for abstract classes."""
    key = (C, 'plain')
    if key not in _T_CACHE:
        ns = {'__module__': 'c20_throwaway'}
        for nm in getattr(C, '__abstractmethods__', ()):
            ns[nm] = lambda *a, **k: None
        _T_CACHE[key] = type(C)('P_' + C.__name__, (C,), ns) if ns.keys() - {'__module__'} else C
    return _T_CACHE[key]


def l1_pair_probe(pair, variant, shape, pool):
    """One dispatch probe.  Returns (bad, outcome, nontrivial) or None when not applicable."""
    import builtins
    import inspect

    cmod, cqual, alias, newname, dmod, dqual, kind = pair
    C = _get_class(cmod, cqual)
    pos, kw, ret, raises = make_args(shape, pool)
    sink = Sink(ret, raises)
    raw_new = inspect.getattr_static(C, newname, None)
    modfun = None
    if raw_new is None:
        # the replacement is not a member of the class: it may be a function of the declaring module
        import sys
        modfun = getattr(sys.modules.get(dmod), newname, None)
        if modfun is None or not callable(modfun) or core_function(modfun) is None:
            return ([('replacement-named-in-warning-does-not-exist',
                      f'neither {cqual} nor module {dmod} has a callable {newname}', newname, None)], ('no-replacement',), True)
        if variant == 'own':
            return 'n/a'
        nkind = 'modfun'
    else:
        _, nkind = _unwrap_raw(raw_new)
    nontrivial = True
    swap = None
    if modfun is not None:
        T = _plain_sub(C)
        if variant == 'sub2':
            T = type(C)('P2_' + C.__name__, (T,), {'__module__': 'c20_throwaway'})
        swap = CodeSwap(core_function(modfun), sink)
    elif variant == 'own':
        T = _plain_sub(C)
        core = core_function(_unwrap_raw(raw_new)[0])
        if core is None:
            return None
        D = _get_class(dmod, dqual)
        nontrivial = core is not core_function(_unwrap_raw(inspect.getattr_static(D, newname, None))[0]) \
            if inspect.getattr_static(D, newname, None) is not None else True
        swap = CodeSwap(core, sink)
    else:
        T = _throwaway(C, newname, nkind, 2 if variant == 'sub2' else 1)
        builtins.__c20_sink__ = sink
    try:
        obj = object.__new__(T)
    except TypeError as e:
        return ([], ('receiver-not-constructible', str(e)[:60]), False)
    recv = T if kind == 'class' else obj
    if kind == 'static':
        lead, exp_first = (), ()
    else:
        lead, exp_first = (), (recv,)
    if nkind in ('static', 'modfun'):
        exp_first = ()
    elif nkind == 'class':
        exp_first = (T,)
    res = exc = None
    try:
        if swap:
            swap.__enter__()
        try:
            with Observe() as obs:
                try:
                    if variant == 'viaclass' and nkind == 'modfun':
                        res = getattr(T, alias)(*pos, **kw)
                    elif variant == 'viaclass' and kind == 'method':
                        res = getattr(T, alias)(obj, *pos, **kw)
                    else:
                        res = getattr(recv, alias)(*lead, *pos, **kw)
                except BaseException as e:  # noqa
                    exc = e
        finally:
            if swap:
                swap.__exit__(None, None, None)
    finally:
        if hasattr(builtins, '__c20_sink__'):
            try:
                del builtins.__c20_sink__
            except AttributeError:
                pass
    bad = judge_call(obs, sink, res, exc, exp_first + pos, kw, newname)
    try:
        d = dict(vars(obj))
    except TypeError:
        d = {}
    if d and sink.calls:  # (if the sentinel was bypassed the real replacement ran: already reported above)
        bad.append(('adds-more-than-the-warning', f'receiver state changed: {sorted(d)}', {}, sorted(d)))
    if nkind == 'modfun':
        bad = [(b[0], b[1] + ' [the replacement is a function of the declaring module, not a member of the class]') + b[2:] for b in bad]
    return bad, outcome_of(bad, sink, exc) + (nkind == 'modfun',), nontrivial


def _l1_kindkey(pair, variant, outcome):
    if outcome and outcome[-1] is True:
        return f'{pair[6]}-alias-of-module-function:{pair[5]}.{pair[2]}'
    return f'{pair[6]}:' + ('own-class-override' if variant == 'own' else 'override-in-subclass')


def l1_fun_probe(binding, shape, pool):
    import sys

    bmod, attr, newname, dmod = binding
    D = discover()
    alias = getattr(D['mods'][bmod], attr)
    pos, kw, ret, raises = make_args(shape, pool)
    sink = Sink(ret, raises)
    defmod = sys.modules.get(dmod)
    target = getattr(defmod, newname, None) if defmod is not None else None
    if target is None or not callable(target):
        return ([('replacement-named-in-warning-does-not-exist', f'module {dmod} has no callable {newname}', newname, None)],
                ('no-replacement',), True)
    core = core_function(target)
    if core is None:
        return None
    res = exc = None
    with CodeSwap(core, sink):
        with Observe() as obs:
            try:
                res = alias(*pos, **kw)
            except BaseException as e:  # noqa
                exc = e
    bad = judge_call(obs, sink, res, exc, pos, kw, newname)
    return bad, outcome_of(bad, sink, exc), True


# =========================================================================== L1X: explicit calls of an ancestor's alias
_R_CACHE = {}
RECV_KINDS = ['override', 'redeclare', 'replace-old', 'plain']
REACH_CLAUSE = {'ordinary': 'alias-does-not-reach-receivers-replacement',
                'shadowed': 'explicit-call-of-ancestors-alias-does-not-run-ancestors-replacement',
                'undecidable': 'alias-reaches-none-of-the-candidate-replacements'}


def _redeclaring(C, alias, newname, plain=False):
    """Throw-away subclass of C, declared as a class body, that RE-DECLARES the replacement (a decoy that only records)
    and, next to it, the old name with the real decorator - what the package itself does for getValue.
    plain=True: the old name is re-defined as an ordinary (not deprecated) method instead."""
    key = (C, alias, newname, plain)
    if key not in _R_CACHE:
        from biogeme.deprecated import deprecated
        src = ['class T(C):',
               f'    def {newname}(self, *a, **k):', '        DECOY.append((self, a, k))', '        return None']
        if plain:
            src += [f'    def {alias}(self, *a, **k):', '        DECOY.append((self, a, k))', '        return None']
        else:
            src += [f'    @deprecated({newname})', f'    def {alias}(self, *a, **k):', '        pass']
        for nm in sorted(getattr(C, '__abstractmethods__', ())):
            if nm not in (alias, newname) and nm.isidentifier():
                src += [f'    def {nm}(self, *a, **k):', '        return None']
        ns = {'C': C, 'deprecated': deprecated, 'DECOY': [], '__name__': 'c20_throwaway'}
        exec('\n'.join(src) + '\n', ns)
        ns['T'].__name__ = ns['T'].__qualname__ = ('O_' if plain else 'R_') + C.__name__
        _R_CACHE[key] = (ns['T'], ns['DECOY'])
    return _R_CACHE[key]


def real_rows(T, alias, newname):
    """The access-path model on a real class: structure only (what each class body declares under the two names)."""
    mro = [k for k in T.__mro__ if k is not object]
    funcs = {}

    def old_of(k):
        raw = vars(k).get(alias)
        if raw is None:
            return None
        f, _ = _unwrap_raw(raw)
        return ('alias', id(f)) if _is_alias(f) and _newname(f) == newname else ('plain', id(f))

    def new_of(k):
        raw = vars(k).get(newname)
        if raw is None:
            return None
        f, _ = _unwrap_raw(raw)
        core = core_function(f) if callable(f) else None
        funcs[id(core if core is not None else f)] = core
        return id(core if core is not None else f)

    rows = explicit_path_model(mro, lambda k: [x for x in k.__mro__ if x is not object], old_of, new_of)
    return mro, rows, funcs


def _l1x_receiver(pair, recvkind):
    import inspect

    cmod, cqual, alias, newname, dmod, dqual, kind = pair
    C = _get_class(cmod, cqual)
    raw_new = inspect.getattr_static(C, newname, None)
    if kind != 'method' or raw_new is None or not inspect.isfunction(raw_new):
        return None  # (class / static aliases and aliases of module functions: no receiver-bound explicit form)
    if recvkind == 'override':
        return _throwaway(C, newname, 'method', 1), None
    if recvkind in ('redeclare', 'replace-old'):
        return _redeclaring(C, alias, newname, plain=(recvkind == 'replace-old'))
    return _plain_sub(C), None


def l1x_paths(pair, recvkind):
    """Explicit access paths on the receiver of this kind: list of (path, mode) (None: not applicable)."""
    r = _l1x_receiver(pair, recvkind)
    if r is None:
        return None
    T, _ = r
    alias, newname = pair[2], pair[3]
    mro, rows, _ = real_rows(T, alias, newname)
    out = []
    for row in rows[1:]:
        mode, target, cands = path_expectation(rows, row)
        if mode == 'not-an-alias':
            continue
        if recvkind != 'override' and mode == 'ordinary':
            continue  # (the ordinary reading on these receivers is what L1 sub1/own and the 'override' receiver probe)
        out.append((row['path'], mode))
    return out


def l1x_probe(pair, recvkind, path, shape, pool):
    """One explicit call K.old(obj, ...) / super(K, obj).old(...).  Returns (bad, outcome, nontrivial, mode) or None."""
    path = tuple(path)
    r = _l1x_receiver(pair, recvkind)
    if r is None:
        return None
    T, decoy = r
    cmod, cqual, alias, newname, dmod, dqual, kind = pair
    mro, rows, funcs = real_rows(T, alias, newname)
    row = next((x for x in rows if x['path'] == path), None)
    if row is None:
        return None
    mode, target, cands = path_expectation(rows, row)
    if mode == 'not-an-alias':
        return None
    targets = [funcs.get(t) for t in cands]
    if not targets or any(f is None for f in targets):
        return None
    pos, kw, ret, raises = make_args(shape, pool)
    sink = Sink(ret, raises)
    try:
        obj = object.__new__(T)
    except TypeError as e:
        return [], ('receiver-not-constructible', str(e)[:60]), False, mode
    if decoy is not None:
        del decoy[:]
    form, i = path
    K = mro[i]
    res = exc = None
    swaps = [CodeSwap(f, sink) for f in {id(f): f for f in targets}.values()]
    try:
        for sw in swaps:
            sw.__enter__()
        with Observe() as obs:
            try:
                if form == 'unbound':
                    res = getattr(K, alias)(obj, *pos, **kw)
                else:
                    res = getattr(super(K, obj), alias)(*pos, **kw)
            except BaseException as e:  # noqa
                exc = e
    finally:
        for sw in reversed(swaps):
            sw.__exit__(None, None, None)
    bad = judge_call(obs, sink, res, exc, (obj,) + pos, kw, newname)
    how = f'{K.__name__}.{alias}(obj, ...)' if form == 'unbound' else f'super({K.__name__}, obj).{alias}(...)'
    newcall = how.replace(f'{alias}(', f'{newname}(')
    if mode != 'ordinary':
        ran_decoy = bool(decoy)
        bad = [((REACH_CLAUSE[mode], f'{how} on an instance of {T.__name__} (a subclass that re-defines {alias}) does not run the '
                 + (f'function that {newcall} runs' if mode == 'shadowed' else
                    f'function that any explicit call of {newname} reaching this alias runs ({len(cands)} candidates)') + (' - it ran the re-declaring subclass\'s own replacement' if ran_decoy else '')
                 + (f' (the alias raised {type(exc).__name__}: {exc})' if exc is not None and exc is not sink.exc else ''),
                 'the function the same explicit call of the new name runs', 'another one / none')
                if b[0] == 'alias-does-not-reach-receivers-replacement' else b) for b in bad]
    try:
        d = dict(vars(obj))
    except TypeError:
        d = {}
    if d and sink.calls:
        bad.append(('adds-more-than-the-warning', f'receiver state changed: {sorted(d)}', {}, sorted(d)))
    nontrivial = mode == 'ordinary' or rows[0]['pair'] != target
    return bad, (recvkind, mode, form) + outcome_of(bad, sink, exc), nontrivial, mode


def l1x_shapes(tier):
    if tier == 'quick':
        return [(0, (), False), (2, ('k1',), False), (1, ('k1', 'k2'), False), (0, (), True)]
    return shapes('quick')


def l1x_run(rec, pairs, tier):
    for pair in pairs:
        for recvkind in RECV_KINDS:
            paths = l1x_paths(pair, recvkind)
            if paths is None:
                rec.count('l1x_not_applicable_alias_is_not_a_method_of_a_method')
                continue
            for path, mode in paths:
                rec.count(f'l1x_paths_{mode}')
                for shape in l1x_shapes(tier):
                    for pool in POOLS:
                        r = l1x_probe(pair, recvkind, path, shape, pool)
                        if r is None:
                            rec.count('l1x_replacement_not_swappable')
                            continue
                        bad, outcome, nt, mode = r
                        rec.case(('L1X', pair, recvkind, path, shape, pool) if nt else None,
                                 (pair, recvkind, path, shape, pool, outcome), outcome=('L1X',) + outcome)
                        _viol(rec, f'L1X explicit call, receiver {recvkind}', f'method:{pair[5]}.{pair[2]}:explicit-call-{mode}-alias',
                              f'{pair[1]}.{pair[2]} (declared in {pair[5]}) -> {pair[3]}, path {path}', bad,
                              dict(part='L1X', pair=list(pair), recvkind=recvkind, path=list(path),
                                   shape=[shape[0], list(shape[1]), shape[2]], pool=pool))


# =========================================================================== TS: target sanity
def _norm(s):
    return s.replace('_', '').lower()


def ts_check(scope_names, scope_get, old, newname, doc):
    """scope_names: candidate names in the same scope; returns (verdict, candidate, how)."""
    def usable(n):
        if n == old:
            return False
        o = scope_get(n)
        f, _ = _unwrap_raw(o)
        return callable(f) and not _is_alias(f) and not isinstance(f, type)

    names = [n for n in scope_names if usable(n)]
    exact = [n for n in names if _norm(n) == _norm(old)]
    how = 'snake-cased name'
    cands = exact
    if not cands:
        for suf in DOCUMENTED_SUFFIXES:
            if old.endswith(suf):
                stem = old[: -len(suf)]
                cands = [n for n in names if _norm(n) == _norm(stem)]
                how = f'snake-cased name without the documented suffix {suf}'
                if cands:
                    break
    docc = []
    m = re.search(r'[Ss]ame as\s+``?([A-Za-z_][A-Za-z0-9_]*)', doc or '')
    if m and m.group(1) in names:
        docc = [m.group(1)]
    if not cands and docc:
        cands, how = docc, 'docstring ("Same as ...")'
    if not cands:
        return 'no-independent-candidate', None, how
    if newname in cands:
        if docc and newname not in docc:
            return 'wrong', docc[0], 'docstring ("Same as ...")'
        return 'confirmed', newname, how
    return 'wrong', cands[0], how


def ts_all(rec):
    import inspect
    import sys

    D = discover()
    seen = set()
    for bmod, attr, newname, dmod in D['mod_aliases']:
        if (dmod, attr) in seen:
            continue
        seen.add((dmod, attr))
        mod = sys.modules.get(dmod)
        alias = getattr(D['mods'][bmod], attr)
        verdict, cand, how = ts_check(sorted(vars(mod)), lambda n: vars(mod)[n], attr, newname, alias.__doc__)
        _ts_record(rec, f'{dmod}.{attr}', newname, verdict, cand, how, alias.__doc__,
                   (vars(mod).get(cand).__doc__ if cand and cand in vars(mod) else None),
                   (vars(mod).get(newname).__doc__ if newname in vars(mod) else None),
                   dict(part='TS', scope='module', module=dmod, alias=attr))
    for dmod, dqual, alias_name in D['class_decls']:
        cls = D['classes'][(dmod, dqual)]
        f, _ = _unwrap_raw(inspect.getattr_static(cls, alias_name))
        newname = _newname(f)
        mod = sys.modules.get(dmod)
        mg = vars(mod) if mod is not None else {}

        def scope_get(n, cls=cls, mg=mg):
            try:
                return inspect.getattr_static(cls, n)
            except AttributeError:
                return mg[n]

        verdict, cand, how = ts_check(sorted(set(dir(cls)) | set(mg)), scope_get, alias_name, newname, f.__doc__)
        _ts_record(rec, f'{dmod}.{dqual}.{alias_name}', newname, verdict, cand, how, f.__doc__, None, None,
                   dict(part='TS', scope='class', module=dmod, cls=dqual, alias=alias_name))


def _first_line(doc):
    return (doc or '').strip().split('\n')[0][:120]


def _ts_record(rec, label, newname, verdict, cand, how, doc_old, doc_cand, doc_new, case):
    rec.case(('TS', label) if verdict != 'no-independent-candidate' else None, (label, newname, verdict, cand), outcome=('TS', verdict))
    rec.count('ts_' + verdict.replace('-', '_'))
    if verdict == 'wrong':
        rec.violation(f'C20|alias-points-at-wrong-replacement|{label}->{newname} (documented purpose: {cand})',
                      f'{label} forwards to {newname!r} but its {how} identifies {cand!r} in the same scope; '
                      f'alias doc: {_first_line(doc_old)!r}; {cand} doc: {_first_line(doc_cand)!r}; {newname} doc: {_first_line(doc_new)!r}',
                      case, expected=cand, observed=newname)


# =========================================================================== DP: deprecated_parameters
def ref_rename(obsolete, kwargs):
    """Reference model of the keyword renaming: returns (expected kwargs, [names each warning must contain])."""
    out, warns = {}, []
    for k, v in kwargs.items():
        if k in obsolete:
            new = obsolete[k]
            if new:
                out[new] = v
                warns.append([k, new])
            else:
                warns.append([k])
        else:
            out[k] = v
    return out, warns


def dp_cases(entry, tier):
    """(subset of obsolete keywords, npos, extra keyword)"""
    import inspect

    obsolete = {}
    for _, d in entry['levels']:
        obsolete.update(d)
    keys = sorted(obsolete)
    maxk = 2 if tier == 'quick' else 3
    subsets = [s for r in range(1, min(maxk, len(keys)) + 1) for s in itertools.combinations(keys, r)]
    subsets.insert(0, ())
    core = core_function(entry['func'])
    extra = [None]
    if core is not None:
        try:
            ps = [p.name for p in inspect.signature(core).parameters.values()
                  if p.kind in (p.POSITIONAL_OR_KEYWORD, p.KEYWORD_ONLY) and p.name not in ('self', 'cls')
                  and p.name not in obsolete.values()]
        except (TypeError, ValueError):
            ps = []
        if ps:
            extra.append(ps[-1])
        extra.append('zz_unrelated')
    for s in subsets:
        for npos in ((0, 1, 2) if tier == 'quick' else (0, 1, 2, 3)):
            for ex in extra:
                for order in ((0, 1) if (ex and s) else (0,)):
                    yield s, npos, ex, order


def dp_probe(entry, subset, npos, extra, order, pool):
    obsolete = {}
    for _, d in entry['levels']:
        obsolete.update(d)
    core = core_function(entry['func'])
    if core is None:
        return None
    vals = pool_values(pool)
    pos = tuple(vals[i % len(vals)] for i in range(npos))
    kw_old = {k: vals[(npos + j) % len(vals)] for j, k in enumerate(subset)}
    kw = dict(kw_old)
    if extra:
        if order:
            kw = {extra: vals[(npos + len(subset)) % len(vals)], **kw}
        else:
            kw[extra] = vals[(npos + len(subset)) % len(vals)]
    exp_kw, warns = ref_rename(obsolete, kw)
    if len(exp_kw) != len([k for k in kw if not (k in obsolete and not obsolete[k])]):
        return 'collision'
    ret = vals[(npos + len(kw)) % len(vals)] if pool == 'val' else Tok('ret')
    sink = Sink(ret, False)
    res = exc = None
    with CodeSwap(core, sink):
        with Observe() as obs:
            try:
                res = entry['func'](*pos, **kw)
            except BaseException as e:  # noqa
                exc = e
    bad = judge_call(obs, sink, res, exc, pos, exp_kw, entry['label'], n_warn=len(warns), warn_names=warns)
    return bad, outcome_of(bad, sink, exc) + (len(subset),), True


def dp_both_cases(tier):
    """(entry, obsolete keyword that has a new name, which one is written first, positional count, pool)"""
    for entry in dpv_entries():
        obsolete = {}
        for _, d in entry['levels']:
            obsolete.update(d)
        for old in sorted(k for k, v in obsolete.items() if v):
            for first in ('old', 'new'):
                for npos in ((0, 1) if tier == 'quick' else (0, 1, 2)):
                    for pool in POOLS:
                        yield entry, old, first, npos, pool


def dp_both_probe(entry, old, first, npos, pool):
    """The old and the new keyword in ONE call: f(old=a, new=b) / f(new=b, old=a), a is not b.
    Reference (plain Python): the old keyword IS the new one (plus a warning), so this is f(new=a, new=b) - a keyword given
    twice, which Python refuses before the function runs (control: the same two values under the new name, handed over as two
    mappings, raise TypeError).  Demanded: the call is refused (any exception) and the function is not reached with one of the
    two explicitly given values silently thrown away.  -> (bad, outcome) | None"""
    obsolete = {}
    for _, d in entry['levels']:
        obsolete.update(d)
    new = obsolete[old]
    core = core_function(entry['func'])
    if core is None or not new:
        return None
    vals = pool_values(pool)
    pos = tuple(vals[i % len(vals)] for i in range(npos))
    a, b = Tok('given-under-the-old-name'), Tok('given-under-the-new-name')
    kw = {old: a, new: b} if first == 'old' else {new: b, old: a}
    try:
        (lambda *p, **k: None)(*pos, **{new: a}, **{new: b})
        return 'python-accepts-a-keyword-twice'
    except TypeError:
        pass
    sink = Sink(Tok('ret'), False)
    exc = None
    with CodeSwap(core, sink):
        with Observe() as obs:
            try:
                entry['func'](*pos, **kw)
            except BaseException as e:  # noqa
                exc = e
    bad = []
    if exc is None or sink.calls:
        got = sink.calls[0][1].get(new, '<nothing>') if sink.calls else '<not called>'
        kept = 'the value given under the old name' if got is a else 'the value given under the new name' if got is b else _sr(got)
        bad.append(('old-and-new-keyword-together-accepted-silently',
                    f'{entry["label"]}({", ".join(k + "=..." for k in kw)}) is accepted: the function runs with {new} = {kept}, the other '
                    f'explicitly given value is thrown away (the keyword written last wins: the result depends on the order of the '
                    f'keywords); the same two values given under the new name are refused by Python (TypeError: multiple values for '
                    f'keyword argument {new!r})', 'refused, as a keyword given twice', f'accepted, {new} = {kept}'))
    return bad, ('refused' if not bad else 'accepted', type(exc).__name__ if exc is not None else None, len(obs.dep_warnings()))


def dp_sanity(rec):
    """Each obsolete keyword must map to a parameter the function accepts, and to the one its name denotes."""
    import inspect

    for entry in discover()['dp']:
        core = core_function(entry['func'])
        if core is None:
            rec.count('dp_core_not_introspectable')
            continue
        sig = inspect.signature(core)
        params = [p.name for p in sig.parameters.values() if p.kind in (p.POSITIONAL_OR_KEYWORD, p.KEYWORD_ONLY)]
        varkw = any(p.kind == p.VAR_KEYWORD for p in sig.parameters.values())
        for _, d in entry['levels']:
            for old, new in sorted(d.items(), key=lambda kv: kv[0]):
                label = f'{entry["label"]}({old}=)'
                case = dict(part='DPS', label=entry['label'], old=old)
                if new is None:
                    # dropped: must not be a live parameter of the function
                    if old in params:
                        rec.violation(f'C20|dropped-keyword-is-a-live-parameter|{label}',
                                      f'{label} is declared obsolete-and-ignored but {old!r} is a parameter of the function',
                                      case, expected='not a parameter', observed=old)
                    rec.case(('DPS', label), (label, None), outcome=('DPS', 'dropped'))
                    continue
                cands = [p for p in params if _norm(p) == _norm(old) and p != old]
                if new not in params and not varkw:
                    rec.violation(f'C20|obsolete-keyword-renamed-to-unknown-parameter|{label}->{new}',
                                  f'{label} is renamed to {new!r}, which is not a parameter of the function {params}',
                                  case, expected=cands[0] if cands else 'a parameter of the function', observed=new)
                    rec.case(('DPS', label), (label, new, 'unknown'), outcome=('DPS', 'unknown'))
                    continue
                if cands and new not in cands:
                    rec.violation(f'C20|obsolete-keyword-renamed-to-wrong-parameter|{label}->{new} (name denotes {cands[0]})',
                                  f'{label} is renamed to {new!r} but its snake-cased name denotes parameter {cands[0]!r}',
                                  case, expected=cands[0], observed=new)
                    rec.case(('DPS', label), (label, new, 'wrong'), outcome=('DPS', 'wrong'))
                    continue
                verdict = 'confirmed' if (cands or _norm(new) == _norm(old)) else 'no-independent-candidate'
                if new not in params and varkw:
                    verdict += '+accepted-through-kwargs'
                    rec.count('dp_new_keyword_only_checkable_behaviourally')
                rec.count('dps_' + verdict.split('+')[0].replace('-', '_'))
                rec.case(('DPS', label), (label, new, verdict), outcome=('DPS', verdict))


# =========================================================================== RK: what the replacement IS on the receiver
# The receiver's replacement need not be a plain method: the alphabet below redefines the new name - in the receiver's class,
# in a parent, in a mixin, by patching the declaring class itself (what a mock patch does), or on the instance - as every
# kind of thing that `receiver.new_name(...)` can call.  Oracle = the property statement, with Python's own attribute
# resolution as the reference: the call of the OLD name must hand the sentinel exactly what the call of the NEW name on the
# same receiver hands it (same implementation, same bound objects, same arguments by identity, same result / exception) plus
# one DeprecationWarning; an explicit table of the expected arguments per kind cross-checks the harness.
_RK_CUR = {'sink': None}
_RK_WHO = {}
BASE_RAN = Tok('the-declared-base-replacement-ran')
RK_EXTRA, RK_EXTRA_KW = Tok('partial-arg'), Tok('partial-kw')
RK_CLASS_KINDS = ['def', 'classmethod', 'staticmethod', 'partialmethod', 'callable-object', 'descriptor', 'property',
                  'staticmethod-of-callable-object', 'singledispatchmethod'] + (['partial'] if sys.version_info < (3, 13) else [])
RK_INSTANCE_KINDS = ['instance-function', 'instance-bound-method', 'instance-callable-object']


def rk_keyclass(rkind):
    """Finding keys name the class of the redefinition, the message names the kind."""
    return 'plain-method' if rkind == 'def' else 'instance-attribute' if rkind in RK_INSTANCE_KINDS else 'class-attribute-other-than-a-plain-method'


def _rk_hit(args, kwargs):
    return _RK_CUR['sink'](args, kwargs)


def rk_who(kind):
    return _RK_WHO.setdefault(kind, Tok('ran:' + kind))


class _RKCallable:
    def __init__(self, who):
        self.who = who

    def __call__(self, *a, **k):
        return _rk_hit((self.who, self) + a, k)


class _RKDescriptor:
    def __init__(self, who):
        self.who = who

    def __get__(self, obj, owner=None):
        who = self.who

        def bound(*a, **k):
            return _rk_hit((who, obj, owner) + a, k)
        return bound


class _RKOther:
    def __init__(self, who):
        self.who = who

    def m(self, *a, **k):
        return _rk_hit((self.who, self) + a, k)


_RK_OBJ = {}


def rk_object(kind):
    """-> (attribute object, model) - model(obj, T, pos, kw) = (args, kwargs) that ``obj.new(*pos, **kw)`` hands to the sentinel
    when obj is an INSTANCE of T (None: no prediction, e.g. dispatch on the first argument's type)."""
    if kind in _RK_OBJ:
        return _RK_OBJ[kind]
    import functools
    who = rk_who(kind)

    def impl(self, *a, **k):
        return _rk_hit((who, self) + a, k)

    def free(*a, **k):
        return _rk_hit((who,) + a, k)

    if kind == 'def':
        r = impl, (lambda o, T, p, k: ((who, o) + p, k))
    elif kind == 'classmethod':
        r = classmethod(impl), (lambda o, T, p, k: ((who, T) + p, k))
    elif kind == 'staticmethod':
        r = staticmethod(free), (lambda o, T, p, k: ((who,) + p, k))
    elif kind == 'partialmethod':
        r = functools.partialmethod(impl, RK_EXTRA, c20_pk=RK_EXTRA_KW), (lambda o, T, p, k: ((who, o, RK_EXTRA) + p, {'c20_pk': RK_EXTRA_KW, **k}))
    elif kind == 'partial':
        r = functools.partial(free, RK_EXTRA, c20_pk=RK_EXTRA_KW), (lambda o, T, p, k: ((who, RK_EXTRA) + p, {'c20_pk': RK_EXTRA_KW, **k}))
    elif kind == 'callable-object':
        co = _RKCallable(who)
        r = co, (lambda o, T, p, k: ((who, co) + p, k))
    elif kind == 'staticmethod-of-callable-object':
        co = _RKCallable(who)
        r = staticmethod(co), (lambda o, T, p, k: ((who, co) + p, k))
    elif kind == 'descriptor':
        r = _RKDescriptor(who), (lambda o, T, p, k: ((who, o, T) + p, k))
    elif kind == 'property':
        def fget(self):
            def bound(*a, **k):
                return _rk_hit((who, self) + a, k)
            return bound
        r = property(fget), (lambda o, T, p, k: ((who, o) + p, k))
    elif kind == 'singledispatchmethod':
        r = functools.singledispatchmethod(impl), None
    elif kind == 'instance-function':
        r = free, (lambda o, T, p, k: ((who,) + p, k))
    elif kind == 'instance-bound-method':
        other = _RKOther(who)
        r = other.m, (lambda o, T, p, k: ((who, other) + p, k))
    elif kind == 'instance-callable-object':
        co = _RKCallable(who)
        r = co, (lambda o, T, p, k: ((who, co) + p, k))
    else:
        raise ValueError(kind)
    _RK_OBJ[kind] = r
    return r


def _state_of(obj):
    try:
        return dict(vars(obj))
    except TypeError:
        return {}


def rk_compare(call_new, call_old, sink, newname, watch, state, model_args=None):
    """The call of the new name, then the call of the old name, on the same receiver.
    -> (bad, outcome, flags) ; flags: set of harness telltales."""
    flags = set()
    _RK_CUR['sink'] = sink
    try:
        rn = en = ro = eo = None
        with Observe() as on:
            try:
                rn = call_new()
            except BaseException as e:  # noqa
                en = e
        calls_n = list(sink.calls)
        del sink.calls[:]
        if untouched(watch, consume=False)[0] or on.dep_warnings() or on.other_warnings() or on.records or on.out:
            flags.add('rk_new_name_call_is_not_silent')
        st0 = state()
        with Observe() as oo:
            try:
                ro = call_old()
            except BaseException as e:  # noqa
                eo = e
        st1 = state()
    finally:
        _RK_CUR['sink'] = None
    reached = len(calls_n) == 1 and ((en is None and rn is sink.ret and not sink.raises) or (sink.raises and en is sink.exc))
    if reached:
        if model_args is not None and not (same_objs(calls_n[0][0], model_args[0]) and same_kw(calls_n[0][1], model_args[1])):
            flags.add('rk_model_disagrees_with_python')
        bad = judge_call(oo, sink, ro, eo, calls_n[0][0], calls_n[0][1], newname)
        mode = 'reached'
    elif not calls_n and en is not None:
        # the new name itself refuses this call (e.g. a missing receiver argument): so must the old one, the same way
        mode = 'new-name-refuses'
        bad = [('argument-not-handed-on-untouched', t, 'untouched', t) for t in untouched(watch)[0]]
        if sink.calls:
            bad.append(('different-outcome', f'{newname}(...) raises {type(en).__name__} before any replacement runs, the old name runs one', type(en).__name__, 'runs'))
        elif eo is None or type(eo) is not type(en) or str(eo) != str(en):
            bad.append(('different-outcome', f'new name: {type(en).__name__}: {en}; old name: ' + (f'{type(eo).__name__}: {eo}' if eo is not None else f'returns {_sr(ro)}'),
                        f'{type(en).__name__}: {en}', f'{type(eo).__name__}: {eo}' if eo is not None else 'returns'))
        dw = oo.dep_warnings()
        if len(dw) != 1:
            bad.append(('warning-count', f'{len(dw)} DeprecationWarning(s)', 1, len(dw)))
        if oo.other_warnings() or oo.records or oo.out:
            bad.append(('adds-more-than-the-warning', f'{len(oo.other_warnings())} other warnings, {oo.records}, {oo.out[:60]!r}', 'nothing', 'something'))
    else:
        flags.add('rk_new_name_call_unexpected')
        return [], ('unexpected', len(calls_n), type(en).__name__ if en is not None else None), flags
    if list(st0) != list(st1) or any(st0[k] is not st1[k] for k in st0):
        bad.append(('adds-more-than-the-warning', f'receiver state changed: {sorted(set(st0) ^ set(st1)) or "values replaced"}', sorted(st0), sorted(st1)))
    return bad, (mode,) + outcome_of(bad, sink, eo), flags


# ---- RK0: decorator level (toy classes declared with the real decorator)
RK0_POSITIONS = ['own', 'parent', 'mixin', 'patch']
RK0_FLAVOURS = ['plain', 'falsy', 'bool-raises', 'eq-raises', 'getattribute-hook', 'setattr-raises']
RK0_META_FLAVOURS = ['plain', 'meta-bool-raises']
RK0_NAMES = {'method': ('oldM', 'new_m'), 'classmethod': ('oldC', 'new_c')}
_RK0_CACHE = {}


def _raiser(name):
    def m(self, *a, **k):
        raise HostileError(f'{name} of the receiver was called')
    m.__name__ = name
    return m


def _flavour_ns(flavour):
    if flavour == 'falsy':
        return {'__len__': lambda self: 0}
    if flavour == 'bool-raises':
        return {'__bool__': _raiser('__bool__')}
    if flavour == 'eq-raises':
        return {'__eq__': _raiser('__eq__'), '__ne__': _raiser('__ne__'), '__hash__': object.__hash__}
    if flavour == 'getattribute-hook':
        def ga(self, name):
            return object.__getattribute__(self, name)
        return {'__getattribute__': ga}
    if flavour == 'setattr-raises':
        return {'__setattr__': _raiser('__setattr__'), '__delattr__': _raiser('__delattr__')}
    return {}


def rk0_build(form, rkind, position, flavour):
    """-> (receiver class T, receiver object, declared Base).  Everything is declared for real (class bodies, the real
    decorator of the tree under test); cached: the classes are stateless."""
    key = (form, rkind, position, flavour)
    if key in _RK0_CACHE:
        return _RK0_CACHE[key]
    from biogeme.deprecated import deprecated

    meta = type
    if flavour == 'meta-bool-raises':
        class Meta(type):
            def __bool__(cls):
                raise HostileError('__bool__ of the receiver class was called')

            def __len__(cls):
                raise HostileError('__len__ of the receiver class was called')
        meta = Meta

    class Base(metaclass=meta):
        def new_m(self, *a, **k):
            return BASE_RAN

        @deprecated(new_m)
        def oldM(self, *a, **k):
            pass

        @classmethod
        def new_c(cls, *a, **k):
            return BASE_RAN

        @classmethod
        @deprecated(new_c.__func__)
        def oldC(cls, *a, **k):
            pass

    newname = RK0_NAMES[form][1]
    attr = rk_object(rkind)[0]
    on_instance = rkind in RK_INSTANCE_KINDS
    if on_instance or position == 'own':
        T = meta('T', (Base,), {} if on_instance else {newname: attr})
    elif position == 'parent':
        P = meta('P', (Base,), {newname: attr})
        T = meta('T', (P,), {})
    elif position == 'mixin':
        M = meta('M', (), {newname: attr})
        T = meta('T', (M, Base), {})
    elif position == 'patch':
        setattr(Base, newname, attr)
        T = Base
    else:
        raise ValueError(position)
    obj = object.__new__(T)
    if on_instance:
        obj.__dict__[newname] = attr
    for k, v in _flavour_ns(flavour).items():
        setattr(T, k, v)
    _RK0_CACHE[key] = (T, obj, Base)
    return _RK0_CACHE[key]


def rk0_cases(tier):
    """(form, replacement kind, position, receiver flavour, path)"""
    for form in ('method', 'classmethod'):
        flavours = RK0_FLAVOURS if form == 'method' else RK0_META_FLAVOURS
        paths = ('ordinary', 'viaclass') if form == 'method' else ('class', 'inst')
        for rkind in RK_CLASS_KINDS + (RK_INSTANCE_KINDS if form == 'method' else []):
            for position in (RK0_POSITIONS if rkind in RK_CLASS_KINDS else ['instance']):
                for flavour in flavours:
                    for path in paths:
                        yield form, rkind, position, flavour, path


def rk_shapes(tier):
    if tier == 'quick':
        return [(0, (), False), (2, ('k1',), False), (1, ('k1', 'k2'), False), (1, (), True)]
    return [(n, k, False) for n in (0, 1, 2, 5) for k in ((), ('k1', 'k2'))] + [(0, (), True), (2, ('k1',), True)]


def rk0_probe(form, rkind, position, flavour, path, shape, pool):
    alias, newname = RK0_NAMES[form]
    T, obj, Base = rk0_build(form, rkind, position, flavour)
    pos, kw, ret, raises = make_args(shape, pool)
    sink = Sink(ret, raises)
    recv = obj if path in ('ordinary', 'viaclass', 'inst') else T
    # (a class-method alias is bound to the class whichever way it is reached: obj.oldC() is type(obj).oldC(), whose
    #  counterpart is type(obj).new_c())
    recv_new = obj if form == 'method' else T
    try:
        ok = callable(getattr(recv_new, newname))
    except BaseException:  # noqa
        ok = False
    if not ok:
        return None   # out of the domain: the receiver does not expose a callable under the new name
    model = rk_object(rkind)[1]
    margs = model(obj, T, pos, kw) if (model is not None and form == 'method') else None
    call_new = lambda: getattr(recv_new, newname)(*pos, **kw)  # noqa: E731
    if path == 'viaclass':
        call_old = lambda: getattr(T, alias)(obj, *pos, **kw)  # noqa: E731
    else:
        call_old = lambda: getattr(recv, alias)(*pos, **kw)  # noqa: E731
    return rk_compare(call_new, call_old, sink, newname, list(pos) + list(kw.values()) + [ret], lambda: _state_of(obj), margs)


def rk0_run(rec, tier):
    for (form, rkind, position, flavour, path) in rk0_cases(tier):
        for shape in rk_shapes(tier):
            for pool in HPOOLS:
                r = rk0_probe(form, rkind, position, flavour, path, shape, pool)
                if r is None:
                    rec.count('rk_out_of_domain_new_name_is_not_callable_on_the_receiver')
                    continue
                bad, outcome, flags = r
                for f in flags:
                    rec.count(f)
                rec.count('rk0_probes')
                rec.case(('RK0', form, rkind, position, flavour, path, shape, pool), (form, rkind, position, flavour, path, shape, pool, outcome),
                         outcome=('RK0', form, rkind in RK_INSTANCE_KINDS) + outcome)
                _viol(rec, 'RK0 kind of the replacement on the receiver', f'decorator-level:{form}:replacement-redefined-as-{rk_keyclass(rkind)}',
                      f'{form} alias; the receiver\'s {RK0_NAMES[form][1]} is a {rkind} ({position}), receiver flavour {flavour}, path {path}', bad,
                      dict(part='RK0', form=form, rkind=rkind, position=position, flavour=flavour, path=path,
                           shape=[shape[0], list(shape[1]), shape[2]], pool=pool))


# ---- RK1: every (receiver class, alias) pair of the package
_RK1_CACHE = {}
_MISSING = object()


def rk1_positions(tier):
    return ['own', 'patch'] if tier == 'quick' else ['own', 'parent', 'patch']


def rk1_shapes(tier):
    if tier == 'quick':
        return [((0, (), False), 'obj'), ((2, ('k1',), False), 'obj'), ((2, ('k1',), False), 'hostile'), ((1, (), True), 'obj')]
    return [(s, p) for s in l1x_shapes('quick') for p in HPOOLS]


def _rk1_receiver_class(C, newname, rkind, position):
    key = (C, newname, rkind, position)
    if key not in _RK1_CACHE:
        P = _plain_sub(C)
        if rkind in RK_INSTANCE_KINDS or position == 'patch':
            T = P if P is not C else type(C)('K_' + C.__name__, (C,), {'__module__': 'c20_throwaway'})
        else:
            T = type(C)('K_' + C.__name__, (P,), {newname: rk_object(rkind)[0], '__module__': 'c20_throwaway'})
            if position == 'parent':
                T = type(C)('K2_' + C.__name__, (T,), {'__module__': 'c20_throwaway'})
        _RK1_CACHE[key] = T
    return _RK1_CACHE[key]


def rk1_probe(pair, rkind, position, shape, pool):
    """-> (bad, outcome, flags) | None (not applicable) | 'out-of-domain'"""
    import inspect

    cmod, cqual, alias, newname, dmod, dqual, kind = pair
    C = _get_class(cmod, cqual)
    if kind != 'method' or inspect.getattr_static(C, newname, None) is None:
        return None
    T = _rk1_receiver_class(C, newname, rkind, position)
    try:
        obj = object.__new__(T)
    except TypeError:
        return None
    attr, model = rk_object(rkind)
    pos, kw, ret, raises = make_args(shape, pool)
    sink = Sink(ret, raises)
    saved = _MISSING
    if rkind in RK_INSTANCE_KINDS:
        try:
            obj.__dict__[newname] = attr
        except (AttributeError, TypeError):
            return None
    elif position == 'patch':
        saved = vars(C).get(newname, _MISSING)
        saved = (saved,)
        setattr(C, newname, attr)
    try:
        try:
            ok = callable(getattr(obj, newname))
        except BaseException:  # noqa
            ok = False
        if not ok:
            return 'out-of-domain'
        margs = model(obj, T, pos, kw) if model is not None else None
        return rk_compare(lambda: getattr(obj, newname)(*pos, **kw), lambda: getattr(obj, alias)(*pos, **kw), sink, newname,
                          list(pos) + list(kw.values()) + [ret], lambda: _state_of(obj), margs)
    finally:
        if saved is not _MISSING:
            if saved[0] is _MISSING:
                delattr(C, newname)
            else:
                setattr(C, newname, saved[0])


def rk1_cases(tier):
    for rkind in RK_CLASS_KINDS:
        for position in rk1_positions(tier):
            yield rkind, position
    for rkind in RK_INSTANCE_KINDS:
        yield rkind, 'instance'


def rk1_run(rec, pairs, tier):
    for pair in pairs:
        for rkind, position in rk1_cases(tier):
            for shape, pool in rk1_shapes(tier):
                r = rk1_probe(pair, rkind, position, shape, pool)
                if r is None:
                    rec.count('rk1_not_applicable_alias_is_not_a_method_with_a_member_replacement')
                    continue
                if r == 'out-of-domain':
                    rec.count('rk_out_of_domain_new_name_is_not_callable_on_the_receiver')
                    continue
                bad, outcome, flags = r
                for f in flags:
                    rec.count(f)
                rec.count('rk1_probes')
                rec.case(('RK1', pair, rkind, position, shape, pool), (pair, rkind, position, shape, pool, outcome),
                         outcome=('RK1', rkind in RK_INSTANCE_KINDS) + outcome)
                _viol(rec, f'RK1 the receiver\'s replacement is a {rkind} ({position})', f'method:replacement-redefined-as-{rk_keyclass(rkind)}',
                      f'{pair[1]}.{pair[2]} (declared in {pair[5]}) -> {pair[3]}', bad,
                      dict(part='RK1', pair=list(pair), rkind=rkind, position=position,
                           shape=[shape[0], list(shape[1]), shape[2]], pool=pool))


# =========================================================================== DPV: values handed to obsolete keywords
def dp_toy_entry():
    """The real decorator on a toy function (two renamed keywords, one dropped), so that DPV never depends on what the
    package happens to declare."""
    from biogeme.deprecated import deprecated_parameters

    @deprecated_parameters({'oldK': 'new_k', 'otherOld': 'other_new', 'gone': None})
    def c20_toy(*args, new_k=None, other_new=None, **kwargs):
        return None

    return dict(label='c20_toy.c20_toy', func=c20_toy, levels=_dp_levels(c20_toy), owner=None)


def dpv_entries():
    return [dp_toy_entry()] + list(discover()['dp'])


def dpv_cases(entry, tier):
    """(obsolete keyword, value kind, positional count, companion)"""
    obsolete = {}
    for _, d in entry['levels']:
        obsolete.update(d)
    for old in sorted(obsolete):
        for vk in HOSTILE_KINDS:
            for npos in ((0, 1) if tier == 'quick' else (0, 1, 3)):
                for comp in (('none', 'unrelated-after') if tier == 'quick' else ('none', 'unrelated-after', 'unrelated-before', 'other-obsolete')):
                    yield old, vk, npos, comp


def dpv_probe(entry, old, vk, npos, comp):
    """f(old=v) with v from the hostile alphabet; control: f(new=v') with a twin value reaches the function untouched.
    -> (bad, outcome, value class) | None | 'n/a'"""
    obsolete = {}
    for _, d in entry['levels']:
        obsolete.update(d)
    core = core_function(entry['func'])
    if core is None:
        return None
    new = obsolete[old]
    toks = [Tok(i) for i in range(4)]
    pos = tuple(toks[:npos])

    def kws(name, v):
        kw = {name: v} if name else {}
        if comp == 'unrelated-after':
            kw['zz_unrelated'] = hostile_make('counting')
        elif comp == 'unrelated-before':
            kw = {'zz_unrelated': hostile_make('counting'), **kw}
        elif comp == 'other-obsolete':
            others = [k for k in sorted(obsolete) if k != old and obsolete[k] and obsolete[k] != new]
            if not others:
                return None
            kw[others[0]] = hostile_make('counting')
        return kw

    # control: the new keyword with a twin value
    twin = hostile_make(vk)
    kw_new = kws(new, twin)
    if kw_new is None:
        return 'n/a'
    sink = Sink(Tok('ret'), False)
    exc = None
    with CodeSwap(core, sink):
        with Observe():
            try:
                entry['func'](*pos, **kw_new)
            except BaseException as e:  # noqa
                exc = e
    if exc is not None or len(sink.calls) != 1 or untouched(list(kw_new.values()))[0]:
        return 'control-fails'
    v = hostile_make(vk)
    kw = kws(old, v)
    exp_kw, warns = ref_rename(obsolete, kw)
    sink = Sink(Tok('ret'), False)
    res = exc = None
    with CodeSwap(core, sink):
        with Observe() as obs:
            try:
                res = entry['func'](*pos, **kw)
            except BaseException as e:  # noqa
                exc = e
    # (the text of the warning is the library's business, but it must have been produced without touching the value -
    #  dropped keywords included)
    touch, rendered = untouched(list(kw.values()))
    bad = [('argument-not-handed-on-untouched', t, 'values are handed to the function as they are (no special method '
            'called, iterators unconsumed)', t) for t in touch]
    bad += judge_call(obs, sink, res, exc, pos, exp_kw, entry['label'], n_warn=len(warns), warn_names=warns)
    if exc is not None and not sink.calls:
        # one root cause: the call was refused before the function ran (no separate 'never called' / warning-count lines)
        bad = [b for b in bad if b[0] == 'argument-not-handed-on-untouched']
        bad.append(('old-keyword-refuses-a-value-the-new-keyword-accepts',
                    f'{old}=<{vk}> raises {type(exc).__name__}: {_mask(str(exc))[:200]} before the function runs, while '
                    + (f'{new}=<{vk}> is handed to the function as it is' if new else 'the call without it works'),
                    'the function is called' + (f' with {new}=<the value>' if new else ''), f'{type(exc).__name__}'))
    return bad, outcome_of(bad, sink, exc) + (bool(rendered), new is None), ('renamed' if new else 'dropped') + '-keyword-value:' + HOSTILE_KINDS[vk][0]


def _dpv_viol(rec, label, bad, vclass, case):
    """Keys: a value that was touched is keyed by WHAT was done to it (which special methods / consumed), everything else
    by the class of the value."""
    for b in bad:
        if b[0] == 'argument-not-handed-on-untouched':
            m = re.match(r'(.*?) of the .* value called$', b[1])
            what = '+'.join(sorted(set(m.group(1).split(', ')))) if m else 'iterator-consumed'
            _viol(rec, 'DPV value handed to an obsolete keyword', vclass.split(':')[0] + f':{what}', label, [b], case)
        else:
            _viol(rec, 'DPV value handed to an obsolete keyword', vclass, label, [b], case)


def dpv_run(rec, tier):
    for entry in dpv_entries():
        for old, vk, npos, comp in dpv_cases(entry, tier):
            r = dpv_probe(entry, old, vk, npos, comp)
            if r is None:
                rec.count('dp_core_not_swappable')
                continue
            if r == 'n/a':
                continue
            if r == 'control-fails':
                rec.count('dpv_out_of_domain_new_keyword_does_not_take_the_value_untouched')
                continue
            bad, outcome, vclass = r
            rec.count('dpv_probes')
            if outcome[-2]:
                rec.count('dpv_value_rendered_into_the_warning_text')
            rec.case(('DPV', entry['label'], old, vk, npos, comp), (entry['label'], old, vk, npos, comp, outcome), outcome=('DPV', vclass) + outcome)
            _dpv_viol(rec, f'{entry["label"]}({old}=<{vk} value>, {npos} positional, companion {comp})', bad, vclass,
                      dict(part='DPV', label=entry['label'], old=old, vk=vk, npos=npos, comp=comp))


# =========================================================================== ENV: the caller's ambient configuration
# "Calling the old name adds nothing but the warning" is quantified over PROGRAMS: a program decides how warnings are handled
# (its stack of warning filters, where warnings are displayed, its logging levels) before it calls a deprecated name, and it
# keeps running afterwards.  The other layers observe every call inside one recording context (all warnings shown and
# collected); this layer enumerates the caller's configuration instead and observes what the call LEAVES BEHIND:
#   alphabet  = base filter list {as inherited, reset} x stack of filters (action x category {Deprecation, every, unrelated,
#               sibling} x message {any, names the replacement, matches nothing}; depth <= 1 on the full alphabet, <= 2 (3) on
#               smaller ones) x display channel {recording context, the program's showwarning hook, text on stderr, routed to
#               logging} x logging {as is, everything turned on};
#   oracle    = (1) process-global state (vf.ref_ambient.process_state: warning filters / hooks, logging tree, sys streams and
#               hooks, environment, directory, random / numeric state ...; 'deep': every global of every package module, the
#               classes of the receiver, the alias function's own attributes) after the old name == after the new name
#               (control: the new name, a sentinel, leaves it untouched);
#               (2) the warning is an ordinary Python warning: whether it is displayed (once, through the program's channel),
#               silent or raised is what the program's filters say - reference: the plain-Python model of filter resolution
#               (vf.ref_ambient.model_action) cross-checked against Python itself (a probe DeprecationWarning that names the
#               replacement, issued under the same configuration; disagreement = harness error);
#               (3) whatever the configuration, the replacement receives the same arguments and its result comes back (when the
#               program asked for errors the call may stop at the warning: the replacement is then reached at most once).
ENV_TOY_QUICK = [('function', 'oldF', 'new_f', 'none'), ('method', 'oldM', 'new_m', 'Base'), ('method', 'oldM', 'new_m', 'SubOv'),
                 ('method', 'oldM', 'new_m', 'SubOv-via-base'), ('classmethod', 'oldC', 'new_c', 'SubOv'),
                 ('classmethod', 'oldC', 'new_c', 'Base-cls'), ('staticmethod', 'oldS', 'new_s', 'Base'),
                 ('staticmethod-obj', 'oldS2', 'new_s', 'SubOv-cls')]
ENV_SHARDS = {'quick': 24, 'thorough': 48}


class _EnvTarget:
    def __init__(self, **kw):
        self.__dict__.update(kw)


def _env_sink_target(sink, **kw):
    return _EnvTarget(calls=lambda: [(a, k, True) for a, k in sink.calls], reset=lambda: sink.calls.clear(),
                      result_ok=lambda r: r is sink.ret, sink_exc=sink.exc, **kw)


class _SinkInBuiltins:
    def __init__(self, sink):
        self.sink = sink

    def __enter__(self):
        import builtins
        builtins.__c20_sink__ = self.sink

    def __exit__(self, *exc):
        import builtins
        try:
            del builtins.__c20_sink__
        except AttributeError:
            pass
        return False


def env_build(tid, shape, pool):
    """-> _EnvTarget | None (not applicable) | str (reason, counted)."""
    import contextlib
    import inspect
    import sys

    what = tid[0]
    pos, kw, ret, raises = make_args(shape, pool)
    if what == 'toy':
        _, form, alias, newname, recv = tid
        if raises or recv == 'other-first-arg':
            return None
        fam = toy_family()
        log = fam['log']
        if form == 'function':
            old_f, new_f, lead, expect, exp_args, spaces = fam[alias], fam['new_f'], (), ['fun'], pos, []
        else:
            cname = recv.split('-')[0]
            cls = fam[cname]
            inst = object.__new__(cls)
            lead = ()
            if recv.endswith('-via-class'):
                old_f, new_f, lead = getattr(cls, alias), getattr(cls, newname), (inst,)
            elif recv.endswith('-via-base'):
                old_f, new_f, lead = getattr(fam['Base'], alias), getattr(cls, newname), (inst,)
            elif recv.endswith('-cls'):
                old_f, new_f = getattr(cls, alias), getattr(cls, newname)
            else:
                old_f, new_f = getattr(inst, alias), getattr(inst, newname)
            resolved = next(k.__name__ for k in cls.__mro__ if newname in vars(k))
            if form.startswith('staticmethod'):
                expect, exp_args = [f'{resolved}.{newname}', f'Base.{newname}'], lead + pos
            else:
                expect, exp_args = [f'{resolved}.{newname}'], pos
            spaces = [(f'receiver-class-attributes:{k.__name__}', vars(k)) for k in cls.__mro__ if k is not object]
            spaces.append(('receiver-state', vars(inst)))
        spaces.append(('alias-function-attributes', vars(getattr(old_f, '__func__', old_f))))
        return _EnvTarget(kind='decorator-level', label=f'toy {form} alias {alias} on receiver {recv}', names=[newname],
                          old=(old_f, lead + pos, kw), new=(new_f, lead + pos, kw), exp_args=exp_args, exp_kw=kw,
                          calls=lambda: [(a, k, who in expect) for who, a, k in log], reset=lambda: log.clear(),
                          result_ok=lambda r: bool(log) and r is log[-1], sink_exc=None, ctx=contextlib.nullcontext(), spaces=spaces,
                          keep_alive=fam)   # (an unreferenced class is emptied by the garbage collector: its namespace is observed)
    sink = Sink(ret, raises)
    if what in ('dp', 'toydp'):
        _, label, old = tid
        entry = dp_toy_entry() if what == 'toydp' else next((e for e in discover()['dp'] if e['label'] == label), None)
        if entry is None:
            return 'env_target_vanished'
        obsolete = {}
        for _, d in entry['levels']:
            obsolete.update(d)
        core = core_function(entry['func'])
        if core is None:
            return 'dp_core_not_swappable'
        new = obsolete[old]
        if new and new in kw:
            return None
        kw_old = {**kw, old: ret}
        kw_new = {**kw, new: ret} if new else dict(kw)
        return _env_sink_target(sink, kind='keyword' if what == 'dp' else 'decorator-level',
                                label=f'{entry["label"]}({old}=...)' + ('' if new else ' [dropped keyword]'),
                                names=[old] + ([new] if new else []), old=(entry['func'], pos, kw_old), new=(entry['func'], pos, kw_new),
                                exp_args=pos, exp_kw=kw_new, ctx=CodeSwap(core, sink),
                                spaces=[('alias-function-attributes', vars(entry['func']))])
    if what == 'fun':
        _, bmod, attr, newname, dmod = tid
        alias = getattr(discover()['mods'][bmod], attr, None)
        defmod = sys.modules.get(dmod)
        target = getattr(defmod, newname, None) if defmod is not None else None
        if alias is None or target is None or not callable(target):
            return 'env_no_replacement_to_compare_with'   # (reported by L1F)
        core = core_function(target)
        if core is None:
            return 'l1_replacement_not_swappable'
        return _env_sink_target(sink, kind='function', label=f'{bmod}.{attr} -> {newname}', names=[newname],
                                old=(alias, pos, kw), new=(target, pos, kw), exp_args=pos, exp_kw=kw, ctx=CodeSwap(core, sink),
                                spaces=[('alias-function-attributes', vars(alias))])
    if what == 'pair':
        cmod, cqual, alias, newname, dmod, dqual, kind = pair = tuple(tid[1:])
        C = _get_class(cmod, cqual)
        raw_new = inspect.getattr_static(C, newname, None)
        if raw_new is None:
            modfun = getattr(sys.modules.get(dmod), newname, None)
            if kind != 'static' or modfun is None or not callable(modfun) or core_function(modfun) is None:
                return 'env_no_replacement_to_compare_with'   # (reported by L1)
            T, nkind, ctx = _plain_sub(C), 'modfun', CodeSwap(core_function(modfun), sink)
        else:
            nkind = _unwrap_raw(raw_new)[1]
            T, ctx = _throwaway(C, newname, nkind, 1), _SinkInBuiltins(sink)
        try:
            obj = object.__new__(T)
        except TypeError:
            return 'env_receiver_not_constructible'
        recv = T if kind == 'class' else obj
        exp_first = () if (kind == 'static' or nkind in ('static', 'modfun')) else (T,) if nkind == 'class' else (recv,)
        old_f = getattr(recv, alias)
        new_f = modfun if nkind == 'modfun' else getattr(recv, newname)
        spaces = [(f'receiver-class-attributes:{i}', vars(k)) for i, k in enumerate(T.__mro__) if k is not object]
        try:
            spaces.append(('receiver-state', vars(obj)))
        except TypeError:
            pass
        spaces.append(('alias-function-attributes', vars(getattr(old_f, '__func__', old_f))))
        return _env_sink_target(sink, kind=kind, label=f'{cqual}.{alias} (declared in {dqual}) -> {newname}', names=[newname],
                                old=(old_f, pos, kw), new=(new_f, pos, kw), exp_args=exp_first + pos, exp_kw=kw, ctx=ctx, spaces=spaces,
                                keep_alive=(T, obj))
    raise ValueError(tid)


def _env_state(t, deep):
    from vf import ref_ambient as RA

    st = RA.process_state()
    if deep:
        for comp, ns in t.spaces:
            RA.add_namespace(st, comp, ns)
        mods = discover()['mods']
        for name in sorted(mods):
            RA.add_namespace(st, f'package-globals:{name}', vars(mods[name]))
    return st


def _env_call(amb, f, a, k):
    from vf import ref_ambient as RA

    n0 = len(amb.shown())
    res = exc = None
    try:
        res = RA.call_fresh(f, a, k)
    except BaseException as e:  # noqa
        exc = e
    return res, exc, amb.shown()[n0:]


def _noise_delta(before, after):
    (r0, o0, e0), (r1, o1, e1) = before, after
    return r1[len(r0):], o1[len(o0):], e1[len(e0):]


def env_probe(tid, cfg, shape, pool):
    """One (target, ambient configuration) probe.
    -> (bad, outcome) with bad = [(clause, detail, expected, observed, key suffix)] | None | str (counted reason)"""
    import warnings
    from vf import ref_ambient as RA

    discover()   # (imports the whole package: never inside the observed window)
    t = env_build(tid, shape, pool)
    if t is None or isinstance(t, str):
        return t
    name = t.names[-1]
    regex = '.*' + re.escape(name)
    text = 'c20 ambient probe: ' + ' / '.join(t.names) + ' (names the replacement)'
    bad = []
    with t.ctx:
        with RA.Ambient(cfg, regex, _SEED) as amb:
            # -- the reference: the plain model, cross-checked by Python itself
            action = RA.model_action(list(warnings.filters), warnings.defaultaction, text, DeprecationWarning, RA.CALLER_MODULE, 1)
            want = RA.model_disposition(action)
            _, pexc, pshown = _env_call(amb, warnings.warn, (text, DeprecationWarning), {})
            python_says = ('raised' if isinstance(pexc, DeprecationWarning) and not pshown else
                           'shown' if pexc is None and pshown == [('DeprecationWarning', text)] else
                           'silent' if pexc is None and not pshown else 'odd')
            if python_says != want:
                return 'env_model_disagrees_with_python'
            amb.fresh_registries()
            # -- control: the new name leaves everything as it is
            s0 = _env_state(t, cfg.get('deep'))
            n0 = amb.noise()
            cres, cexc, cshown = _env_call(amb, *t.new)
            n1 = amb.noise()
            s1 = _env_state(t, cfg.get('deep'))
            ccalls = t.calls()
            if (RA.diff_state(s0, s1) or cshown or any(_noise_delta(n0, n1)) or len(ccalls) != 1 or cexc is not t.sink_exc
                    or (cexc is None and not t.result_ok(cres))
                    or not (ccalls[0][2] and same_objs(ccalls[0][0], t.exp_args) and same_kw(ccalls[0][1], t.exp_kw))):
                return 'env_control_not_neutral'
            t.reset()
            amb.fresh_registries()
            # -- the old name
            res, exc, shown = _env_call(amb, *t.old)
            n2 = amb.noise()
            s2 = _env_state(t, cfg.get('deep'))
            calls = t.calls()
            changes = RA.diff_state(s1, s2)
            records, out, err = _noise_delta(n1, n2)
    label = RA.config_label(cfg)
    # (1) nothing left behind
    for comp, desc in changes:
        bad.append(('adds-more-than-the-warning', f'under the caller\'s configuration {label}: after the call of the old name, {comp}: {desc}; '
                    f'the call of {name} leaves it as it was', 'process state as after the call of the new name', desc,
                    'process-state:' + RA.component_class(comp)))
    if records or out or err:
        bad.append(('adds-more-than-the-warning', f'under {label}: log records {records[:3]}, stdout {out[:80]!r}, stderr {err[:80]!r}',
                    'nothing', 'log records / output', 'output-or-log-records'))
    dep = [s for s in shown if s[0] == 'DeprecationWarning']
    if len(dep) != len(shown):
        bad.append(('adds-more-than-the-warning', f'under {label}: other warnings displayed {[s for s in shown if s not in dep][:3]}', 0,
                    len(shown) - len(dep), 'other-warnings'))
    # (2) the warning is handled as the caller's filters say
    raised = isinstance(exc, DeprecationWarning)
    got = 'raised' if raised else f'shown {len(dep)}x' if dep else 'silent'
    said = {'raised': 'raised', 'shown': 'shown 1x', 'silent': 'silent'}[want]
    if got != said or (raised and dep):
        bad.append(('warning-not-handled-as-the-callers-filters-say',
                    f'under the caller\'s configuration {label} Python\'s filters make a DeprecationWarning that names {name} {want} '
                    f'(model and a probe warning agree); the warning of the old name was {got}' + (' and also displayed' if raised and dep else '')
                    + (f'; the call raised {type(exc).__name__}' if exc is not None and not raised and exc is not t.sink_exc else ''),
                    said, got, f'callers-filters-say-{want}'))
    for cat, msg in dep[:1]:
        for nm in t.names:
            if not re.search(r'(?<![A-Za-z0-9_])' + re.escape(nm) + r'(?![A-Za-z0-9_])', msg):
                bad.append(('warning-does-not-name-replacement', f'message {msg!r} does not name {nm!r}', nm, msg, 'ambient'))
    # (3) the replacement is served as under any other configuration
    stopped_at_warning = raised and want == 'raised'
    if not calls:
        if not stopped_at_warning:
            bad.append(('alias-does-not-reach-receivers-replacement', f'under {label}: the replacement was never called'
                        + (f' (the alias raised {type(exc).__name__}: {_mask(str(exc))[:120]})' if exc is not None else ''),
                        'replacement called once', 'not called', 'ambient'))
    elif len(calls) > 1:
        bad.append(('replacement-called-more-than-once', f'under {label}: {len(calls)} calls', 1, len(calls), 'ambient'))
    else:
        a, k, who_ok = calls[0]
        if not who_ok:
            bad.append(('alias-does-not-reach-receivers-replacement', f'under {label}: another function than the receiver\'s replacement ran',
                        'the receiver\'s replacement', 'another one', 'ambient'))
        if not same_objs(a, t.exp_args) or not same_kw(k, t.exp_kw):
            bad.append(('arguments-not-passed-through', f'under {label}: {_sr(a)} {_sr(k)} instead of {_sr(t.exp_args)} {_sr(t.exp_kw)}',
                        _sr((t.exp_args, t.exp_kw)), _sr((a, k)), 'ambient'))
        if not stopped_at_warning:
            if t.sink_exc is not None:
                if exc is not t.sink_exc:
                    bad.append(('exception-not-passed-through', f'under {label}: got {_sr(exc)}', _sr(t.sink_exc), _sr(exc), 'ambient'))
            elif exc is not None:
                bad.append(('alias-raises', f'under {label}: {type(exc).__name__}: {_mask(str(exc))[:120]}', 'no exception', type(exc).__name__, 'ambient'))
            elif not t.result_ok(res):
                bad.append(('result-not-passed-through', f'under {label}: returned {_sr(res)}', 'the replacement\'s return value', _sr(res), 'ambient'))
    outcome = (t.kind.split(':')[0], want, got, len(calls), tuple(sorted({b[0] for b in bad})), cfg['channel'], bool(cfg.get('deep')))
    return bad, outcome, t


def env_report(rec, tid, cfg, shape, pool, r):
    bad, outcome, t = r
    case = dict(part='ENV', target=list(tid), cfg=cfg, shape=[shape[0], list(shape[1]), shape[2]], pool=pool)
    for b in bad:
        _viol(rec, 'ENV caller\'s ambient configuration', f'{t.kind}:{b[4]}', t.label, [b[:4]], case)


def env_shapes(tid, tier):
    if tid[0] in ('toy', 'toydp'):
        return [(1, ('k1',), False), (0, (), False)] + ([(2, ('k1', 'k2'), False), (3, (), False)] if tier != 'quick' else [])
    return [(1, ('k1',), False)]


def env_config_sets(tid, tier, rich):
    if tid[0] in ('toy', 'toydp'):
        return ['DEEP', 'A', 'B', 'C'] + (['C3'] if tier != 'quick' else [])
    if tier != 'quick':
        return ['DEEP', 'A', 'B'] + (['C'] if tid[0] in ('fun', 'dp') else [])
    return ['DEEP', 'A', 'B'] if rich else ['MIN']


_ENV_CFG = {}


def env_configs(names):
    from vf import ref_ambient as RA

    key = tuple(names)
    if key not in _ENV_CFG:
        _ENV_CFG[key] = [c for n in names for c in RA.config_sets(n)]
    return _ENV_CFG[key]


def env_toy_targets(tier):
    if tier == 'quick':
        toys = list(ENV_TOY_QUICK)
    else:
        toys = [(form, alias, newname, recv) for form, alias, newname, recvs in L0_FORMS for recv in recvs if recv != 'other-first-arg']
    entry = dp_toy_entry()
    olds = sorted(k for _, d in entry['levels'] for k in d)
    return [['toy'] + list(x) for x in toys] + [['toydp', entry['label'], o] for o in olds]


def env_pkg_targets():
    """Every alias of the package: (target, rich) - rich = explored on the full configuration alphabet in the quick tier too:
    every module-level alias binding, every obsolete keyword, every alias DECLARATION (on its declaring class when that class is
    a receiver, else on the first class that inherits it); the other (receiver class, alias) pairs: rich in the thorough tier."""
    D = discover()
    out = [(['fun'] + list(b), True) for b in D['mod_aliases']]
    for e in D['dp']:
        for o in sorted(k for _, d in e['levels'] for k in d):
            out.append((['dp', e['label'], o], True))
    rep = {}
    for p in D['pairs']:
        d = (p[4], p[5], p[2])
        if d not in rep or ((p[0], p[1]) == (p[4], p[5]) and (rep[d][0], rep[d][1]) != (p[4], p[5])):
            rep[d] = p
    reps = set(rep.values())
    out += [(['pair'] + list(p), True) for p in D['pairs'] if p in reps]
    out += [(['pair'] + list(p), False) for p in D['pairs'] if p not in reps]
    return out


def env_run(rec, targets, tier):
    for tid, rich in targets:
        n = 0
        for shape in env_shapes(tid, tier):
            for cfg in env_configs(env_config_sets(tid, tier, rich)):
                r = env_probe(tid, cfg, shape, POOLS[_SEED % 2])
                if r is None:
                    continue
                if isinstance(r, str):
                    rec.count(r)
                    continue
                n += 1
                from vf import ref_ambient as RA
                lab = RA.config_label(cfg)
                rec.case(('ENV', tuple(tid), lab, shape), (tid, lab, shape, r[1]), outcome=('ENV',) + r[1])
                env_report(rec, tid, cfg, shape, POOLS[_SEED % 2], r)
        rec.count('env_probes', n)
        if n:
            rec.count('env_targets_probed_' + tid[0])


# =========================================================================== PENV: the environment the interpreter is started in
# The statement is quantified over PROGRAMS, and a program does not choose the environment of its process: a test runner (tox,
# pytest), a CI service, a notebook server or a command-line switch of Python (-O, -X dev, -W) defines variables BEFORE the
# package is imported; others appear later (pytest defines PYTEST_CURRENT_TEST while a test runs).  Every other layer runs in
# the one environment the check was started in.  This layer starts FRESH INTERPRETERS:
#   alphabet  = environment at interpreter start {as inherited (cleaned of every variable of the alphabet); one variable that
#               the package itself looks at - found by a scan of the package sources, and by OBSERVING every look-up of
#               os.environ made from a package frame during import / discovery / the probes - x 5 values; every bundle of
#               variables that one tool defines together (tox, pytest, CI, debug flags, notebook / virtualenv tools, python -O /
#               -OO, dev mode, hash seed, encodings, bare system); thorough: every (variable, value) of the menu alone, and every
#               package variable x every bundle} x history {probed as started; then every variable (re)defined / removed AFTER
#               the import, restored afterwards} x every alias of the package (module-level bindings, (receiver class, alias)
#               pairs x {subclass override, own replacement}, obsolete keywords) and of the toy family (decorated in that
#               interpreter) x shapes;
#   oracle    = the clauses of L0 / L1 / DP, unchanged (the replacement - a recording sentinel - is reached once with the very
#               arguments, its result comes back, exactly one DeprecationWarning that names it, nothing else), and the set of
#               aliases the package offers is the one it offers in the base environment.
#   out of the domain (counted): an environment in which the package cannot be imported at all.
PENV_TIMEOUT = 420.0
_PENV_BOOT = ('import sys; sys.path.insert(0, sys.argv[2]); import props.c20 as m; m.penv_child(sys.argv[1])')
PENV_VARIANTS = {'quick': ['sub1', 'own'], 'thorough': ['sub1', 'sub2', 'viaclass', 'own']}
PENV_LATE_CHUNK = {'quick': 64, 'thorough': 12}


def penv_shapes(tier):
    return [(1, ('k1',), False)] + ([(0, (), False), (2, ('k1',), True)] if tier != 'quick' else [])


def penv_units(variants):
    D = discover()
    units = [['fun'] + list(b) for b in D['mod_aliases']]
    units += [['pair', v] + list(p) for p in D['pairs'] for v in variants]
    for e in D['dp']:
        for o in sorted(k for _, d in e['levels'] for k in d):
            units.append(['dp', e['label'], o])
    units += [['toy', form, alias, newname, recv] for form, alias, newname, recvs in L0_FORMS for recv in recvs]
    entry = dp_toy_entry()
    units += [['toydp', o] for o in sorted(k for _, d in entry['levels'] for k in d)]
    return units


def penv_unit_label(u):
    if u[0] == 'fun':
        return 'function', f'{u[1]}.{u[2]} -> {u[3]}'
    if u[0] == 'pair':
        return u[8], f'{u[3]}.{u[4]} (declared in {u[7]}) -> {u[5]} [{u[1]}]'
    if u[0] == 'dp':
        return 'keyword', f'{u[1]}({u[2]}=...)'
    if u[0] == 'toy':
        return 'decorator-level', f'toy {u[1]} alias {u[2]} on receiver {u[4]}'
    return 'decorator-level', f'toy function c20_toy({u[1]}=...)'


def penv_probe_unit(u, shape, pool):
    """-> (bad, outcome) | None (not applicable).  The probes (and their oracle clauses) are those of L1F / L1 / DP / L0."""
    if u[0] == 'fun':
        r = l1_fun_probe(tuple(u[1:]), shape, pool)
    elif u[0] == 'pair':
        r = l1_pair_probe(tuple(u[2:]), u[1], shape, pool)
    elif u[0] in ('dp', 'toydp'):
        if shape[2]:
            return None
        entry = dp_toy_entry() if u[0] == 'toydp' else next((e for e in discover()['dp'] if e['label'] == u[1]), None)
        if entry is None:
            return None
        r = dp_probe(entry, (u[-1],), shape[0], None, 0, pool)
    else:
        r = l0_probe(u[1], u[2], u[3], u[4], shape, pool)
    if r is None or isinstance(r, str):
        return None
    return r[0], r[1]


class _EnvironWatch:
    """Records every look-up of os.environ made from a frame of the package (the variables the package looks at)."""

    def __init__(self):
        self.reads = set()
        self.iterates = 0

    def install(self):
        import os as _os
        cls = type(_os.environ)
        orig_get, orig_iter = cls.__getitem__, cls.__iter__
        marker = _os.sep + PKG + _os.sep
        skip = (_os.__file__, getattr(sys.modules.get('_collections_abc'), '__file__', '') or '')
        watch = self

        def from_package():
            f = sys._getframe(2)
            while f is not None and (f.f_code.co_filename in skip or f.f_code.co_filename.startswith('<frozen ')
                                     or f.f_code.co_filename.endswith(('_collections_abc.py', _os.sep + 'os.py'))):
                f = f.f_back
            return f is not None and marker in f.f_code.co_filename

        def getitem(self_, key):
            if from_package():
                watch.reads.add(str(key))
            return orig_get(self_, key)

        def iterate(self_):
            if from_package():
                watch.iterates += 1
            return orig_iter(self_)

        cls.__getitem__ = getitem
        cls.__iter__ = iterate


def penv_child(jobfile):
    """Runs in the fresh interpreter: imports the package, discovers the aliases, probes them phase by phase."""
    import json

    with open(jobfile, encoding='utf-8') as fh:
        job = json.load(fh)
    out = dict(phases=[], import_error=None, units=[], reads=[], iterates=0, flags=None)
    watch = _EnvironWatch()
    watch.install()
    try:
        D = discover()
        if D['import_errors']:
            out['import_error'] = 'modules not importable: ' + ', '.join(f'{m} ({e})' for m, e in D['import_errors'][:5])
    except BaseException as e:  # noqa
        out['import_error'] = f'{type(e).__name__}: {_mask(str(e))[:200]}'
    if out['import_error'] is None:
        all_variants = sorted({v for ph in job['phases'] for v in ph['variants']}, key=VARIANTS.index)
        units = penv_units(all_variants)
        out['units'] = units
        only = job.get('only')
        for ph in job['phases']:
            saved = {}
            for k, v in (ph.get('late') or {}).items():
                saved[k] = os.environ.get(k)
                if v is None:
                    os.environ.pop(k, None)
                else:
                    os.environ[k] = v
            rows = []
            try:
                for i, u in enumerate(units):
                    if u[0] == 'pair' and u[1] not in ph['variants']:
                        continue
                    if only is not None and u != only:
                        continue
                    for si, shape in enumerate(ph['shapes']):
                        shape = (shape[0], tuple(shape[1]), shape[2])
                        r = penv_probe_unit(u, shape, job['pool'])
                        if r is None:
                            continue
                        bad, outcome = r
                        rows.append([i, si, repr(outcome), [[b[0], _mask(str(b[1]))[:400], b[2], b[3]] for b in bad]])
            finally:
                for k, v in saved.items():
                    if v is None:
                        os.environ.pop(k, None)
                    else:
                        os.environ[k] = v
            out['phases'].append(rows)
    out['reads'] = sorted(watch.reads)
    out['iterates'] = watch.iterates
    out['flags'] = [sys.flags.optimize, bool(sys.flags.dev_mode), bool(__debug__)]
    with open(job['out'], 'w', encoding='utf-8') as fh:
        json.dump(out, fh, default=repr)


_PENV_N = [0]


def penv_alphabet_names():
    from vf import ref_ambient as RA
    return set(RA.ENV_MENU) | set(penv_package_names())


_PENV_NAMES = None


def penv_package_names():
    """Environment variables the package sources mention (scan of the tree under test, no import)."""
    global _PENV_NAMES
    if _PENV_NAMES is None:
        import importlib.util
        from vf import ref_ambient as RA

        spec = importlib.util.find_spec(PKG)
        root = list(spec.submodule_search_locations)[0]
        direct, indirect = RA.scan_environment_names(root)
        _PENV_NAMES = direct + [n for n in indirect if n not in direct]
    return _PENV_NAMES


def penv_spawn(start, phases, pool, only=None):
    """Starts one interpreter in the environment `start` (a delta on the cleaned inherited one) -> result dict | {'failed': ...}"""
    import json
    import subprocess
    from vf import ref_ambient as RA

    _PENV_N[0] += 1
    stem = f'c20_penv_{os.getpid()}_{_PENV_N[0]}'
    jobfile, outfile = os.path.abspath(stem + '.job.json'), os.path.abspath(stem + '.out.json')
    with open(jobfile, 'w', encoding='utf-8') as fh:
        json.dump(dict(phases=phases, pool=pool, only=only, out=outfile), fh)
    env = RA.start_environment(os.environ, start, clean=[n for n in penv_alphabet_names()
                                                          if n in RA.ENV_MENU and RA.ENV_MENU[n][0] == 'runner' or n not in RA.ENV_MENU])
    env['PYTHONDONTWRITEBYTECODE'] = '1'   # (never write into the tree under test)
    root = os.path.dirname(os.path.dirname(os.path.abspath(__file__)))
    try:
        done = subprocess.run([sys.executable, '-c', _PENV_BOOT, jobfile, root], env=env, stdin=subprocess.DEVNULL,
                              stdout=subprocess.DEVNULL, stderr=subprocess.PIPE, timeout=PENV_TIMEOUT)
        if done.returncode != 0 or not os.path.exists(outfile):
            return dict(failed=f'exit {done.returncode}: ' + _mask(done.stderr.decode('utf-8', 'replace'))[-400:])
        with open(outfile, encoding='utf-8') as fh:
            return json.load(fh)
    except subprocess.TimeoutExpired:
        return dict(failed='timeout')
    finally:
        for f in (jobfile, outfile):
            try:
                os.remove(f)
            except OSError:
                pass


def penv_late_deltas(tier, seed):
    """Every variable of the alphabet (re)defined or removed after the import (the interpreter's own switches excepted)."""
    from vf import ref_ambient as RA

    out = []
    for n in penv_package_names():
        out += [{n: v} for v in RA.FLAG_VALUES]
    for n, (cls, vals) in RA.ENV_MENU.items():
        if cls == 'python' or n in penv_package_names():
            continue
        for v in (vals if tier != 'quick' else [RA.env_menu_value(n, seed)]):
            out.append({n: v})
    return out


def penv_tasks(tier, seed):
    from vf import ref_ambient as RA

    t = []
    lates = penv_late_deltas(tier, seed)
    n = PENV_LATE_CHUNK[tier]
    chunks = [lates[i:i + n] for i in range(0, len(lates), n)] or [[]]
    for i, ch in enumerate(chunks):
        t.append(dict(part='PENV', tier=tier, env='base', start={}, lates=ch, base=(i == 0)))
    names = penv_package_names()
    for nme in names:
        for v in RA.FLAG_VALUES:
            t.append(dict(part='PENV', tier=tier, env=nme, start={nme: v}, lates=[{nme: None}]))
    for b in RA.ENV_BUNDLES:
        d = RA.env_bundle(b, seed)
        t.append(dict(part='PENV', tier=tier, env='bundle:' + b, start=d,
                      lates=[{k: None} for k in d if RA.ENV_MENU[k][0] != 'python' and d[k] is not None][:3]))
    if tier != 'quick':
        for nme, (cls, vals) in RA.ENV_MENU.items():
            if nme in names:
                continue
            for v in vals:
                if [nme] in RA.ENV_BUNDLES.values() and v == RA.env_menu_value(nme, seed):
                    continue   # (a bundle of this one variable with this value was started above)
                t.append(dict(part='PENV', tier=tier, env=nme, start={nme: v}, lates=[{nme: None}] if cls != 'python' and v is not None else []))
        for nme in names:
            for b in RA.ENV_BUNDLES:
                d = dict(RA.env_bundle(b, seed))
                if nme in d:
                    continue
                d[nme] = RA.FLAG_VALUES[seed % len(RA.FLAG_VALUES)]
                t.append(dict(part='PENV', tier=tier, env=f'{nme}+bundle:{b}', start=d, lates=[]))
    return t


def _penv_timing(start, late):
    if late is None:
        return 'at-interpreter-start'
    if all(v is None for v in late.values()):
        return 'at-interpreter-start-then-removed' if start else 'removed-after-import'
    return 'defined-after-import'


def penv_consume(rec, task, res, start, phases_spec, envkey, my_units):
    """Folds the result of one child into the record."""
    from vf import ref_ambient as RA

    slabel = RA.env_label(start)
    if 'failed' in res:
        rec.count('penv_child_failed')
        rec.sample(dict(part='PENV', env=slabel, failed=res['failed'][-300:]))
        return None
    rec.count('penv_interpreters_started')
    if res['import_error']:
        rec.count('penv_package_not_importable_in_environment')
        rec.sample(dict(part='PENV', env=slabel, not_importable=res['import_error']))
        rec.case(None, ('PENV', slabel, 'not-importable'), outcome=('PENV', 'not-importable'))
        return res
    units = res['units']
    have = {tuple(map(str, u)) for u in units}
    missing = [u for u in my_units if tuple(map(str, u)) not in have]
    for u in missing[:50]:
        kind, lab = penv_unit_label(u)
        _viol(rec, f'PENV interpreter started with {slabel}', f'process-environment:at-interpreter-start:{envkey}', lab,
              [('alias-missing-in-environment', f'the alias exists in the base environment, not in an interpreter started with {slabel}',
                'the same aliases as in the base environment', 'missing')],
              dict(part='PENV', start=start, late=None, unit=u, shape=None, missing=True, envkey=envkey))
    n = 0
    for ph, rows in zip(phases_spec, res['phases']):
        late = ph.get('late')
        timing = _penv_timing(start, late)
        plabel = slabel + ('' if late is None else f' ; after the import: {RA.env_label(late)}')
        key_env = envkey if late is None or start else ','.join(sorted(late))
        for i, si, outcome, bad in rows:
            u = units[i]
            shape = ph['shapes'][si]
            kind, lab = penv_unit_label(u)
            n += 1
            rec.case(('PENV', plabel, tuple(map(str, u)), si), (plabel, u, si, outcome), outcome=('PENV', timing.split('-then')[0], kind, outcome))
            if bad:
                _viol(rec, f'PENV environment {plabel}', f'process-environment:{timing.split("-then")[0]}:{key_env}', lab,
                      [tuple(b) for b in bad], dict(part='PENV', start=start, late=late, unit=u, shape=shape, envkey=envkey, pool=POOLS[_SEED % 2]))
    rec.count('penv_probes', n)
    return res


def penv_run(rec, task):
    from vf import ref_ambient as RA

    tier = task.get('tier', 'quick')
    pool = POOLS[_SEED % 2]
    shp = [[s[0], list(s[1]), s[2]] for s in penv_shapes(tier)]
    variants = PENV_VARIANTS[tier]
    start = task['start']
    phases = []
    if task.get('base', True) or start:
        phases.append(dict(late=None, variants=variants, shapes=shp))
    for late in task['lates']:
        phases.append(dict(late=late, variants=['sub1'] if tier == 'quick' else variants[:2], shapes=shp[:1] if tier == 'quick' else shp))
    my_units = penv_units(sorted({v for ph in phases for v in ph['variants']}, key=VARIANTS.index))
    res = penv_consume(rec, task, penv_spawn(start, phases, pool), start, phases, task['env'], my_units)
    if not start and task.get('base'):
        if res is not None and not res.get('import_error'):
            rec.count('penv_base_environment_ok')
        rec.count('penv_environment_names_in_package_sources', len(penv_package_names()))
    if res is None or res.get('import_error'):
        return
    if res.get('iterates'):
        rec.count('penv_package_iterates_over_the_environment', res['iterates'])
    # variables the package was SEEN looking at that are not in the alphabet: explored here and now
    unknown = [k for k in res['reads'] if k not in penv_alphabet_names()]
    if unknown and not start:
        rec.count('penv_variables_found_only_by_observation', len(unknown))
        for k in unknown[:4]:
            for v in RA.FLAG_VALUES:
                ph = [dict(late=None, variants=variants, shapes=shp), dict(late={k: None}, variants=['sub1'], shapes=shp[:1])]
                penv_consume(rec, task, penv_spawn({k: v}, ph, pool), {k: v}, ph, k, penv_units(variants))
    elif unknown:
        rec.count('penv_unknown_variable_looked_at_in_a_non_base_environment', len(unknown))


def penv_replay(case, rec):
    tier = 'quick'
    shape = case.get('shape') or [1, ['k1'], False]
    variants = [case['unit'][1]] if case['unit'][0] == 'pair' else ['sub1']
    phases = [dict(late=case.get('late'), variants=variants, shapes=[shape])]
    start = case['start']
    envkey = ','.join(sorted(start)) or 'base'
    my_units = [case['unit']] if case.get('missing') else []
    penv_consume(rec, dict(tier=tier), penv_spawn(start, phases, case.get('pool', POOLS[_SEED % 2]), only=None if case.get('missing') else case['unit']),
                 start, phases, case.get('envkey', envkey), my_units)


# =========================================================================== tasks
L1_SHARDS = {'quick': 24, 'thorough': 48}
L0H_SHARDS = {'quick': 3, 'thorough': 12}
VARIANTS = ['sub1', 'sub2', 'viaclass', 'own']
POOLS = ['obj', 'val']
HPOOLS = POOLS + ['hostile']   # (the layers that also hand on values which must arrive untouched)


def tasks(tier, seed):
    t = [dict(part='TS', tier=tier)]
    t.append(dict(part='L0', tier=tier))
    t.append(dict(part='L1F', tier=tier))
    t.append(dict(part='DP', tier=tier))
    t.append(dict(part='DPV', tier=tier))
    t.append(dict(part='RK0', tier=tier))
    n = L1_SHARDS[tier]
    for i in range(n):
        t.append(dict(part='L1', shard=i, of=n, tier=tier))
    nh = L0H_SHARDS[tier]
    for kind in H_KINDS:
        for i in range(nh):
            t.append(dict(part='L0H', kind=kind, shard=i, of=nh, tier=tier))
    for i in range(n):
        t.append(dict(part='L1X', shard=i, of=n, tier=tier))
    for i in range(n):
        t.append(dict(part='RK1', shard=i, of=n, tier=tier))
    for tid in env_toy_targets(tier):
        t.append(dict(part='ENV0', target=tid, tier=tier))
    t.extend(penv_tasks(tier, seed))
    ne = ENV_SHARDS[tier]
    for i in range(ne):
        t.append(dict(part='ENV1', shard=i, of=ne, tier=tier))
    t.extend(l2_tasks(tier))
    return t




# =========================================================================== L2: paired behavioural calls
_MASKS = [
    (re.compile(r'0x[0-9a-fA-F]{6,}'), '0x#'),
    (re.compile(r'\d{4}-\d{2}-\d{2}[ T]\d{2}:\d{2}:\d{2}(\.\d+)?'), '<TS>'),
    (re.compile(r'\b\d{1,2}:\d{2}:\d{2}(\.\d+)?\b'), '<T>'),
    (re.compile(r'\d{9,}'), '#'),
]


def _mask(s):
    for rx, rep in _MASKS:
        s = rx.sub(rep, s)
    return s


def canon(x, depth=0, exclude=()):
    """Deterministic, address-free, deep description of a value (numbers bit-exact)."""
    import numpy as np
    import pandas as pd

    if x is None or isinstance(x, (bool, int)):
        return x
    if isinstance(x, float):
        return repr(x)
    if isinstance(x, (datetime.datetime, datetime.date, datetime.time, datetime.timedelta)):
        return ('time',)  # wall-clock measurements are not part of the behaviour compared
    if isinstance(x, str):
        return _mask(x)
    if isinstance(x, bytes):
        return _mask(x.decode('latin-1'))
    if isinstance(x, np.generic):
        return ('np', x.dtype.str, repr(x.item()))
    if isinstance(x, np.ndarray):
        if x.dtype == object:
            return ('nd-obj', x.shape, [canon(v, depth + 1) for v in x.ravel().tolist()])
        return ('nd', x.shape, x.dtype.str, [repr(v) for v in x.ravel().tolist()])
    if isinstance(x, pd.DataFrame):
        return ('df', [str(c) for c in x.columns], [str(i) for i in x.index],
                [canon(x[c].to_numpy(), depth + 1) for c in x.columns])
    if isinstance(x, pd.Series):
        return ('series', str(x.name), [str(i) for i in x.index], canon(x.to_numpy(), depth + 1))
    if isinstance(x, pd.Index):
        return ('index', [str(i) for i in x])
    try:
        from biogeme.expressions import Expression
        if isinstance(x, Expression):
            try:
                return ('expr', type(x).__name__, _mask(str(x)))
            except Exception as e:  # uninitialised expression
                return ('expr', type(x).__name__, 'str() raises ' + type(e).__name__)
    except ImportError:
        pass
    if isinstance(x, dict):
        items = [(canon(k, depth + 1) if not isinstance(k, str) else k, canon(v, depth + 1)) for k, v in x.items() if k not in exclude]
        return ('dict', sorted(items, key=repr))
    if isinstance(x, (list, tuple)) and not hasattr(x, '_fields'):
        return (type(x).__name__, [canon(v, depth + 1) for v in x])
    if isinstance(x, (set, frozenset)):
        return ('set', sorted((canon(v, depth + 1) for v in x), key=repr))
    if isinstance(x, type):
        return ('class', x.__qualname__)
    if callable(x) and hasattr(x, '__qualname__'):
        return ('fn', x.__qualname__)
    if hasattr(x, '_asdict'):
        return (type(x).__name__, canon(x._asdict(), depth + 1))
    if depth >= 4:
        return ('obj', type(x).__name__)
    try:
        d = vars(x)
    except TypeError:
        return ('obj', type(x).__name__, _mask(repr(x))[:200])
    return ('obj', type(x).__name__, canon({k: v for k, v in d.items() if k not in exclude}, depth + 1))


# ---- fixtures (VERIF_SEED selects the numeric constants; each run is exhaustive over its own recipe space)
_KS = [1.0, 1.5, 0.75, 2.0]
_BS = [(0.5, -0.25), (0.3, 0.6), (-0.4, 0.2), (1.25, -1.0)]
_K = _KS[_SEED % 4]
_B = _BS[_SEED % 4]


def set_alphabet(i):
    """Selects the numeric constants of the fixtures (quick: the one of VERIF_SEED; thorough: each of the four in turn)."""
    global _K, _B, _ALPH
    _ALPH = i % 4
    _K, _B = _KS[_ALPH], _BS[_ALPH]


_ALPH = _SEED % 4
NOISY_STATE = ('drawsProcessingTime', 'optimizationMessages', 'htmlFileName', 'F12FileName', 'latexFileName',
               'pickleFileName', 'bootstrap_time', 'bootstrapTime', '_time', 'lastSample')


def fx_df():
    import pandas as pd
    return pd.DataFrame({'id': [1, 1, 2, 2, 3], 'x': [1.0 * _K, 2.0, 3.0, 4.0, 5.0 * _K], 'y': [0.5, 1.0, 2.0, 3.5, 1.5 * _K],
                         'choice': [1, 2, 1, 2, 1], 'av1': [1, 1, 1, 1, 1], 'av2': [1, 1, 0, 1, 1], 'g': [1, 1, 2, 2, 2]})


def fx_db(panel=False):
    import biogeme.database as db
    d = db.Database('t20', fx_df())
    if panel:
        d.panel('id')
    return d


def fx_utils():
    from biogeme.expressions import Beta, Variable
    b1 = Beta('b1', _B[0], None, None, 0)
    b2 = Beta('b2', _B[1], None, None, 0)
    v = {1: b1 * Variable('x'), 2: b2 + 0.1 * Variable('y')}
    av = {1: Variable('av1'), 2: Variable('av2')}
    return v, av


def fx_loglike():
    from biogeme import models
    from biogeme.expressions import Variable
    v, av = fx_utils()
    return models.loglogit(v, av, Variable('choice'))


def fx_biogeme(formulas=None, **kw):
    import biogeme.biogeme as bb
    from biogeme.parameters import Parameters
    args = dict(generate_html=False, generate_pickle=False, save_iterations=False, number_of_threads=1)
    args.update(kw)
    b = bb.BIOGEME(fx_db(), fx_loglike() if formulas is None else formulas, parameters=Parameters(), **args)
    b.modelName = 'm20'
    return b


_RES_PICKLE = {}


def fx_results():
    """A results object of a tiny estimation; built once per worker and alphabet, handed out as independent copies."""
    import pickle
    if _ALPH not in _RES_PICKLE:
        import numpy as np
        np.random.seed(20)
        b = fx_biogeme(bootstrap_samples=5)
        r = b.estimate(run_bootstrap=True)
        _RES_PICKLE[_ALPH] = pickle.dumps(r)
    return pickle.loads(_RES_PICKLE[_ALPH])


def fx_nests(cross=False):
    from biogeme.expressions import Beta
    from biogeme.nests import (NestsForCrossNestedLogit, NestsForNestedLogit, OneNestForCrossNestedLogit,
                               OneNestForNestedLogit)
    mu1 = Beta('mu1', 1.5, 1, 10, 0)
    if cross:
        n1 = OneNestForCrossNestedLogit(nest_param=mu1, dict_of_alpha={1: 0.5, 2: 1.0}, name='n1')
        n2 = OneNestForCrossNestedLogit(nest_param=Beta('mu2', 2.0, 1, 10, 0), dict_of_alpha={1: 0.5}, name='n2')
        return NestsForCrossNestedLogit(choice_set=[1, 2], tuple_of_nests=(n1, n2))
    n1 = OneNestForNestedLogit(nest_param=mu1, list_of_alternatives=[1, 2], name='n1')
    return NestsForNestedLogit(choice_set=[1, 2], tuple_of_nests=(n1,))


EVALUABLE = {'Numeric', 'Beta', 'Variable', 'Plus', 'Minus', 'Times', 'Divide', 'Power', 'bioMin', 'bioMax', 'And', 'Or',
             'Equal', 'NotEqual', 'Less', 'LessOrEqual', 'Greater', 'GreaterOrEqual', 'UnaryMinus', 'exp', 'log', 'logzero',
             'sin', 'cos', 'bioNormalCdf', 'PowerConstant', 'BelongsTo', 'bioMultSum', 'Elem', 'bioLinearUtility',
             'ConditionalSum', '_bioLogLogit', '_bioLogLogitFullChoiceSet'}


# the engine raises (and then keeps a sticky error / may crash) when asked for derivatives of these
NO_DERIVATIVES = {'And', 'Or', 'BelongsTo'}


def fx_expr(name):
    """Receiver factory for the expression classes, by class name.  Returns None when there is no recipe."""
    import biogeme.expressions as ex
    from biogeme.expressions import base_expressions, binary_expressions, comparison_expressions, elementary_expressions, \
        logit_expressions, nary_expressions, unary_expressions
    import biogeme.catalog as cat

    def b():
        return ex.Beta('b1', _B[0], None, None, 0)

    def b2():
        return ex.Beta('b2', _B[1], None, None, 0)

    def n():
        return ex.Numeric(2.5 * _K)

    def x():
        return ex.Variable('x')

    binary = {k: getattr(binary_expressions, k) for k in
              ('Plus', 'Minus', 'Times', 'Divide', 'Power', 'bioMin', 'bioMax', 'And', 'Or', 'BinaryOperator')}
    compar = {k: getattr(comparison_expressions, k) for k in
              ('Equal', 'NotEqual', 'Less', 'LessOrEqual', 'Greater', 'GreaterOrEqual', 'ComparisonOperator')}
    unary = {k: getattr(unary_expressions, k) for k in
             ('UnaryMinus', 'exp', 'log', 'logzero', 'sin', 'cos', 'bioNormalCdf', 'MonteCarlo', 'PanelLikelihoodTrajectory',
              'UnaryOperator')}
    if name in binary:
        return binary[name](b() if name != 'Power' else ex.Numeric(1.5), n() if name not in ('And', 'Or') else x())
    if name in compar:
        return compar[name](x(), n())
    if name in unary:
        return unary[name](ex.Numeric(0.5) + b() * b())
    table = {
        'Expression': lambda: base_expressions.Expression(),
        'Numeric': lambda: ex.Numeric(3.5 * _K),
        'Beta': b,
        'Variable': x,
        'Elementary': lambda: elementary_expressions.Elementary('e'),
        'bioDraws': lambda: ex.bioDraws('d', 'NORMAL'),
        'RandomVariable': lambda: ex.RandomVariable('omega'),
        'PowerConstant': lambda: unary_expressions.PowerConstant(x(), 2.0),
        'BelongsTo': lambda: unary_expressions.BelongsTo(x(), {2.0, 3.0}),
        'Derive': lambda: unary_expressions.Derive(b() * b() * x(), 'b1'),
        'Integrate': lambda: unary_expressions.Integrate(ex.RandomVariable('omega') * b(), 'omega'),
        'bioMultSum': lambda: nary_expressions.bioMultSum([b(), n(), b2() * x()]),
        'Elem': lambda: nary_expressions.Elem({0: b(), 1: n() * x()}, ex.Variable('av2')),
        'bioLinearUtility': lambda: nary_expressions.bioLinearUtility(
            [nary_expressions.LinearTermTuple(beta=b(), x=x()), nary_expressions.LinearTermTuple(beta=b2(), x=ex.Variable('y'))]),
        'ConditionalSum': lambda: nary_expressions.ConditionalSum(
            [nary_expressions.ConditionalTermTuple(condition=ex.Variable('av2'), term=b() * x()),
             nary_expressions.ConditionalTermTuple(condition=ex.Numeric(1), term=n())]),
        'LogLogit': lambda: logit_expressions.LogLogit({1: b() * x(), 2: b2()}, None, ex.Variable('choice')),
        '_bioLogLogit': lambda: logit_expressions._bioLogLogit({1: b() * x(), 2: b2()}, {1: ex.Variable('av1'), 2: ex.Variable('av2')}, ex.Variable('choice')),
        '_bioLogLogitFullChoiceSet': lambda: logit_expressions._bioLogLogitFullChoiceSet({1: b() * x(), 2: b2()}, ex.Variable('choice')),
        'Catalog': lambda: cat.Catalog('cat20', [cat.NamedExpression(name='a', expression=b() * x()),
                                                 cat.NamedExpression(name='c', expression=n())]),
    }
    return table[name]() if name in table else None


def _seed_rng():
    import random
    import numpy as np
    np.random.seed(20 + _SEED)
    random.seed(20 + _SEED)


def _snapshot_files():
    out = {}
    for root, _, files in os.walk('.'):
        for fn in files:
            pth = os.path.join(root, fn)
            try:
                with open(pth, 'rb') as fh:
                    raw = fh.read()
            except OSError:
                continue
            if fn.endswith(('.pickle', '.pkl')):
                out[pth] = ('binary', len(raw) > 0)
            else:
                out[pth] = _mask(raw.decode('utf-8', 'replace'))
    return out


def _clean_cwd():
    import shutil
    for fn in os.listdir('.'):
        try:
            if os.path.isdir(fn):
                shutil.rmtree(fn)
            else:
                os.remove(fn)
        except OSError:
            pass


def run_side(build, call, post, state_of):
    """Builds a fresh context, performs one call, returns the canonical observation of that side."""
    _clean_cwd()
    _seed_rng()
    ctx = build()
    before = _snapshot_files()
    _seed_rng()
    res = exc = None
    with Observe() as obs:
        try:
            res = call(ctx)
            if post is not None:
                res = post(res, ctx)
        except BaseException as e:  # noqa
            exc = e
    files = {k: v for k, v in _snapshot_files().items() if before.get(k) != v}
    side = dict(
        result=canon(res) if exc is None else None,
        exc=type(exc).__name__ if exc is not None else None,
        exc_msg=_mask(str(exc))[:300] if exc is not None else None,
        state=canon(state_of(ctx), exclude=NOISY_STATE) if state_of else None,
        files=sorted(files.items()),
        dep=[_mask(str(w.message)) for w in obs.dep_warnings()],
        other_warn=sorted(_mask(str(w.message)) for w in obs.other_warnings()),
        logs=sorted(obs.records),
        out=_mask(obs.out),
    )
    _clean_cwd()
    return side, exc


def compare_sides(old, new, newname, extra_warn_names=()):
    """Oracle of a paired call.  `old` must equal `new` except for exactly one more DeprecationWarning naming newname."""
    bad = []
    if old['exc'] != new['exc']:
        bad.append(('different-outcome', f'old name: {old["exc"] or "returns"} ({old["exc_msg"]}); new name: {new["exc"] or "returns"} ({new["exc_msg"]})',
                    new['exc'] or 'returns', old['exc'] or 'returns'))
        return bad
    if old['result'] != new['result']:
        bad.append(('different-result', 'first difference (old vs new) at ' + _first_diff(old['result'], new['result'], 'result'),
                    str(new['result'])[:600], str(old['result'])[:600]))
    if old['state'] != new['state']:
        bad.append(('different-side-effects', 'receiver state differs after the call: ' + _first_diff(old['state'], new['state']), 'same state', 'differs'))
    if old['files'] != new['files']:
        bad.append(('different-side-effects', f'files written differ: {[f for f, _ in old["files"]]} vs {[f for f, _ in new["files"]]}',
                    [f for f, _ in new['files']], [f for f, _ in old['files']]))
    extra = list(old['dep'])
    for m in new['dep']:
        if m in extra:
            extra.remove(m)
        else:
            bad.append(('adds-more-than-the-warning', f'the new name warns {m!r}, the old one does not', m, None))
    if len(extra) != 1:
        bad.append(('warning-count', f'the old name adds {len(extra)} DeprecationWarning(s) over the new one: {extra}', 1, len(extra)))
    else:
        for nm in (newname,) + tuple(extra_warn_names):
            if not re.search(r'(?<![A-Za-z0-9_])' + re.escape(nm) + r'(?![A-Za-z0-9_])', extra[0]):
                bad.append(('warning-does-not-name-replacement', f'{extra[0]!r} does not name {nm!r}', nm, extra[0]))
    if old['other_warn'] != new['other_warn'] or old['logs'] != new['logs'] or old['out'] != new['out']:
        bad.append(('adds-more-than-the-warning', f'warnings/log records/output differ: {old["other_warn"]}/{old["logs"]}/{old["out"][:80]!r} vs '
                    f'{new["other_warn"]}/{new["logs"]}/{new["out"][:80]!r}', 'same', 'differs'))
    return bad


def _first_diff(a, b, path=''):
    if type(a) != type(b):
        return f'{path}: {str(a)[:80]} vs {str(b)[:80]}'
    if isinstance(a, (list, tuple)):
        if len(a) != len(b):
            return f'{path}: length {len(a)} vs {len(b)}'
        for i, (x, y) in enumerate(zip(a, b)):
            if x != y:
                return _first_diff(x, y, f'{path}[{i}]')
    return f'{path}: {str(a)[:80]} vs {str(b)[:80]}'


# ---- recipe tables.  An argument set is (label, lambda ctx: (args, kwargs)); ctx is what `build` returned.
def _np(v):
    import numpy as np
    return np.array(v, dtype=float)


def _fun_recipes():
    """module-level aliases: (defining module, alias) -> dict(build, argsets, post)"""
    from biogeme.expressions import Beta, Numeric, Variable

    def mk_v(ctx=None):
        v, av = fx_utils()
        return dict(v=v, av=av, nests=fx_nests(False), cnests=fx_nests(True), choice=Variable('choice'))

    def call_at(points):
        def post(f, ctx):
            return [f(_np(p)) for p in points]
        return post

    def quad(x):
        from biogeme.function_output import FunctionOutput
        import numpy as np
        return FunctionOutput(function=float(x[0] ** 2 * x[1] + x[1] ** 3), gradient=np.array([2 * x[0] * x[1], x[0] ** 2 + 3 * x[1] ** 2]),
                              hessian=np.array([[2 * x[1], 2 * x[0]], [2 * x[0], 6 * x[1]]]))

    R = {}
    R[('biogeme.cnl', 'cnl_G')] = dict(build=mk_v, post=call_at([[1.0, 2.0 * _K], [0.5, 0.25]]), argsets=[
        ('cross', lambda c: (([1, 2], c['cnests']), {}))])
    R[('biogeme.cnl', 'cnl_CDF')] = dict(build=mk_v, post=call_at([[0.3, -0.2 * _K], [1.0, 1.0]]), argsets=[
        ('cross', lambda c: (([1, 2], c['cnests']), {}))])
    dr = 'biogeme.draws'
    R[(dr, 'getUniform')] = dict(argsets=[('3x4', lambda c: ((3, 4), {})), ('sym', lambda c: ((2, 5), dict(symmetric=True)))])
    R[(dr, 'getLatinHypercubeDraws')] = dict(argsets=[
        ('3x4', lambda c: ((3, 4), {})), ('sym', lambda c: ((2, 3, True), {})),
        ('given', lambda c: ((2, 3), dict(symmetric=False, uniform_numbers=_np([0.1, 0.9, 0.5, 0.3, 0.7, 0.2])))),
        ('given-old-kw', lambda c: ((2, 3), dict(uniformNumbers=_np([0.1, 0.9, 0.5, 0.3, 0.7, 0.2]))))])
    R[(dr, 'getHaltonDraws')] = dict(argsets=[
        ('3x4', lambda c: ((3, 4), {})), ('base3', lambda c: ((2, 5), dict(symmetric=True, base=3, skip=7))),
        ('shuffled', lambda c: ((2, 4), dict(shuffled=True))), ('long', lambda c: ((2, 3), dict(base=5, skip=0, shuffled=False)))])
    R[(dr, 'getAntithetic')] = dict(argsets=[
        ('uniform', lambda c: ((__import__('biogeme.draws', fromlist=['x']).get_uniform, 3, 4), {})),
        ('halton', lambda c: ((__import__('biogeme.draws', fromlist=['x']).get_halton_draws, 2, 6), {}))])
    R[(dr, 'getNormalWichuraDraws')] = dict(argsets=[
        ('3x4', lambda c: ((3, 4), {})), ('anti', lambda c: ((2, 4), dict(antithetic=True))),
        ('given', lambda c: ((2, 2), dict(uniform_numbers=_np([[0.1, 0.9], [0.5, 0.3]]))))])
    cn = 'biogeme.models.cnl'
    four = [('avail', lambda c: ((c['v'], c['av'], c['cnests'], c['choice']), {})),
            ('noavail', lambda c: ((c['v'], None, c['cnests'], 1), {})),
            ('kw', lambda c: ((), dict(util=c['v'], availability=c['av'], nests=c['cnests'], choice=2)))]
    R[(cn, 'cnl_avail')] = dict(build=mk_v, argsets=four, evaluate=True)
    R[(cn, 'logcnl_avail')] = dict(build=mk_v, argsets=four, evaluate=True)
    three_c = [('avail', lambda c: ((c['v'], c['av'], c['cnests']), {})), ('noavail', lambda c: ((c['v'], None, c['cnests']), {}))]
    R[(cn, 'getMevForCrossNested')] = dict(build=mk_v, argsets=three_c, evaluate=True)
    R[(cn, 'getMevForCrossNestedMu')] = dict(build=mk_v, evaluate=True, argsets=[
        ('avail', lambda c: ((c['v'], c['av'], c['cnests'], Beta('mu', 1.0, None, None, 0)), {})),
        ('noavail', lambda c: ((c['v'], None, c['cnests'], 1.0), {}))])
    ne = 'biogeme.models.nested'
    three_n = [('avail', lambda c: ((c['v'], c['av'], c['nests']), {})), ('noavail', lambda c: ((c['v'], None, c['nests']), {}))]
    R[(ne, 'getMevGeneratingForNested')] = dict(build=mk_v, argsets=three_n, evaluate=True)
    R[(ne, 'getMevForNested')] = dict(build=mk_v, argsets=three_n, evaluate=True)
    R[(ne, 'getMevForNestedMu')] = dict(build=mk_v, evaluate=True, argsets=[
        ('avail', lambda c: ((c['v'], c['av'], c['nests'], Beta('mu', 1.0, None, None, 0)), {})),
        ('noavail', lambda c: ((c['v'], None, c['nests'], 1.0), {}))])
    five = [('avail', lambda c: ((c['v'], c['av'], c['nests'], c['choice'], Beta('mu', 1.0, None, None, 0)), {})),
            ('noavail', lambda c: ((c['v'], None, c['nests'], 1, 1.0), {}))]
    R[(ne, 'nestedMevMu')] = dict(build=mk_v, argsets=five, evaluate=True)
    R[(ne, 'lognestedMevMu')] = dict(build=mk_v, argsets=five, evaluate=True)
    mv = 'biogeme.models.mev'

    def es(c, av):
        from biogeme.models import get_mev_for_nested
        lg = get_mev_for_nested(c['v'], c['av'] if av else None, c['nests'])
        return ((c['v'], lg, c['av'] if av else None, {1: Numeric(0.1), 2: Numeric(-0.2 * _K)}, c['choice']), {})

    R[(mv, 'logmev_endogenousSampling')] = dict(build=mk_v, evaluate=True, argsets=[('avail', lambda c: es(c, True)), ('noavail', lambda c: es(c, False))])
    R[(mv, 'mev_endogenousSampling')] = dict(build=mk_v, evaluate=True, argsets=[('avail', lambda c: es(c, True)), ('noavail', lambda c: es(c, False))])
    pw = 'biogeme.models.piecewise'
    R[(pw, 'piecewiseVariables')] = dict(evaluate=True, argsets=[
        ('str', lambda c: (('x', [None, 2.0 * _K, 4.0, None]), {})), ('var', lambda c: ((Variable('x'), [0, 2.5, 10]), {})),
        ('bad', lambda c: (('x', [None, None]), {}))])
    R[(pw, 'piecewiseFormula')] = dict(evaluate=True, argsets=[
        ('auto', lambda c: (('x', [None, 2.0 * _K, 4.0, None]), {})),
        ('betas', lambda c: ((Variable('x'), [0, 2.5, 10], [Beta('pa', 0.5, None, None, 0), Beta('pb', -1, None, None, 0)]), {})),
        ('wrong-len', lambda c: (('x', [0, 1, 2], [Beta('pa', 0.5, None, None, 0)]), {}))])
    R[(pw, 'piecewiseFunction')] = dict(argsets=[
        ('in', lambda c: ((3.0 * _K, [None, 2.0, 4.0, None], [0.5, -1.0, 2.0]), {})), ('first', lambda c: ((1.0, [0, 2.0, 4.0], [0.5, -1.0]), {})),
        ('bad', lambda c: ((1.0, [0, 2.0], [0.5, -1.0]), {}))])
    R[('biogeme.results', 'calcPValue')] = dict(argsets=[(f't={t}', (lambda t: lambda c: ((t,), {}))(t)) for t in (0.0, 1.96 * _K, -3.0, 40.0)])
    R[('biogeme.results', 'compileEstimationResults')] = dict(build=lambda: dict(r=fx_results(), r2=fx_results()), argsets=[
        ('one', lambda c: (({'m1': c['r']},), {})),
        ('two', lambda c: (({'m1': c['r'], 'm2': c['r2']},), dict(include_parameter_estimates=True, include_robust_stderr=True, include_robust_ttest=True, formatted=False)))])
    R[('biogeme.multiobjectives', 'AIC_BIC_dimension')] = dict(build=lambda: dict(r=fx_results()), argsets=[('res', lambda c: ((c['r'],), {}))])

    def seg(c, prefix=None):
        from biogeme.segmentation import DiscreteSegmentationTuple
        t = [DiscreteSegmentationTuple(variable='g', mapping={1: 'one', 2: 'two'})]
        return ((Beta('bs', 0.5 * _K, None, None, 0), t) + ((prefix,) if prefix else ()), {})

    R[('biogeme.segmentation', 'segment_parameter')] = dict(evaluate=True, argsets=[('default', lambda c: seg(c)), ('prefix', lambda c: seg(c, 'pre'))])
    td = 'biogeme.tools.derivatives'
    R[(td, 'findiff_H')] = dict(build=lambda: dict(f=quad), argsets=[('p1', lambda c: ((c['f'], _np([1.0, 2.0 * _K])), {})), ('p2', lambda c: ((c['f'], _np([-0.5, 0.25])), {}))])
    R[(td, 'checkDerivatives')] = dict(build=lambda: dict(f=quad), argsets=[
        ('plain', lambda c: ((c['f'], _np([1.0, 2.0 * _K])), {})), ('names', lambda c: ((c['f'], _np([0.5, -1.0]), ['u', 'v'], True), {}))])
    R[('biogeme.tools.database', 'countNumberOfGroups')] = dict(build=lambda: dict(df=fx_df()), argsets=[
        ('id', lambda c: ((c['df'], 'id'), {})), ('g', lambda c: ((c['df'], 'g'), {})), ('missing', lambda c: ((c['df'], 'nope'), {}))])
    for a in ('getVersion', 'getHtml', 'getText', 'getLaTeX'):
        R[('biogeme.version', a)] = dict(argsets=[('noarg', lambda c: ((), {}))])
    return R


def _eval_expr_post(res, ctx):
    """Expressions (or containers of them) are also evaluated on the tiny database, so that two different formulas
    with the same text cannot pass."""
    from biogeme.expressions import Expression
    vals = []

    def ev(e):
        try:
            return canon(e.get_value_c(database=fx_db(), betas=None, number_of_draws=5, aggregation=False, prepare_ids=True))
        except Exception as exc:  # noqa
            if type(exc).__name__ == 'RuntimeError':
                raise
            return 'evaluation raises ' + type(exc).__name__

    if isinstance(res, Expression):
        vals = [ev(res)]
    elif isinstance(res, dict):
        vals = [(str(k), ev(v)) for k, v in res.items() if isinstance(v, Expression)]
    elif isinstance(res, (list, tuple)):
        vals = [ev(v) for v in res if isinstance(v, Expression)]
    return (res, vals)


def _method_recipes():
    """class-level aliases: (owner class name, alias) -> dict(receivers=[(label, build)], argsets, post, state)"""
    from biogeme.expressions import Variable, Numeric
    import biogeme.database as dbm
    R = {}
    # ---------------- Database
    D1 = [('flat', lambda: dict(r=fx_db(False)))]
    DP = [('panel', lambda: dict(r=fx_db(True)))]
    DB = D1 + DP
    av = lambda: {1: Variable('av1'), 2: Variable('av2')}  # noqa: E731
    R[('Database', 'valuesFromDatabase')] = dict(receivers=D1, argsets=[('expr', lambda c: ((Variable('x') * 2 + Variable('y'),), {})), ('num', lambda c: ((Numeric(1.5),), {}))])
    R[('Database', 'checkAvailabilityOfChosenAlt')] = dict(receivers=D1, argsets=[
        ('ok', lambda c: ((av(), Variable('choice')), {})), ('kw', lambda c: ((), dict(avail={1: Variable('av2'), 2: Variable('av1')}, choice=Variable('choice')))),
        ('bad-choice', lambda c: ((av(), Variable('g') + 5), {}))])
    R[('Database', 'choiceAvailabilityStatistics')] = dict(receivers=D1, argsets=[('ok', lambda c: ((av(), Variable('choice')), {}))])
    R[('Database', 'scaleColumn')] = dict(receivers=DB, argsets=[('x', lambda c: (('x', 0.1 * _K), {})), ('missing', lambda c: (('nope', 2.0), {}))])
    R[('Database', 'suggestScaling')] = dict(receivers=D1, argsets=[('default', lambda c: ((), {})), ('cols', lambda c: ((['x', 'y'],), dict(report_all=True))), ('bad', lambda c: ((['nope'],), {}))])
    R[('Database', 'sampleWithReplacement')] = dict(receivers=DB, argsets=[('default', lambda c: ((), {})), ('3', lambda c: ((3,), {})), ('kw', lambda c: ((), dict(size=7)))])
    R[('Database', 'sampleIndividualMapWithReplacement')] = dict(receivers=DB, argsets=[('default', lambda c: ((), {})), ('2', lambda c: ((2,), {}))])
    R[('Database', 'addColumn')] = dict(receivers=D1, argsets=[('new', lambda c: ((Variable('x') * 2, 'x2'), {})), ('existing', lambda c: ((Variable('x') * 2, 'y'), {}))])
    R[('Database', 'DefineVariable')] = dict(receivers=D1, argsets=[('new', lambda c: (('z20', Variable('x') + 1), {})), ('existing', lambda c: (('y', Variable('x')), {}))])
    R[('Database', 'dumpOnFile')] = dict(receivers=DB, argsets=[('noarg', lambda c: ((), {}))])

    def my_rng(sample_size, number_of_draws):
        import numpy as np
        return np.arange(sample_size * number_of_draws, dtype=float).reshape(sample_size, number_of_draws) / 100.0

    R[('Database', 'setRandomNumberGenerators')] = dict(receivers=D1, argsets=[
        ('user', lambda c: (({'MYGEN': (my_rng, 'test generator')},), {})), ('reserved', lambda c: (({'NORMAL': (my_rng, 'clash')},), {}))])
    R[('Database', 'generateDraws')] = dict(receivers=DB, argsets=[
        ('two', lambda c: (({'d1': 'NORMAL', 'd2': 'UNIFORM_HALTON2'}, ['d1', 'd2'], 4), {})),
        ('anti', lambda c: (({'d1': 'NORMAL_ANTI'}, ['d1'], 6), {})), ('unknown', lambda c: (({'d1': 'NOPE'}, ['d1'], 3), {}))])
    for a in ('getNumberOfObservations', 'getSampleSize', 'isPanel', 'buildPanelMap'):
        R[('Database', a)] = dict(receivers=DB, argsets=[('noarg', lambda c: ((), {}))])
    R[('Database', 'generateFlatPanelDataframe')] = dict(receivers=DB, argsets=[
        ('default', lambda c: ((), {})), ('save', lambda c: ((), dict(save_on_file=True, identical_columns=['g']))), ('ident-none', lambda c: ((False, []), {}))])
    R[('Database', 'descriptionOfNativeDraws')] = dict(receivers=DB, argsets=[('noarg', lambda c: ((), {}))],
                                                      new_call=lambda c, a, k: __import__('biogeme.native_draws', fromlist=['x']).description_of_native_draws(*a, **k),
                                                      via_class=True)
    # ---------------- IdManager
    def idm():
        from biogeme.expressions.idmanager import IdManager
        e = fx_loglike()
        return dict(r=IdManager([e], fx_db(), 10), e=e)

    R[('IdManager', 'setDataMap')] = dict(receivers=[('idm', idm)], argsets=[('df', lambda c: ((fx_df(),), {}))])
    R[('IdManager', 'setData')] = dict(receivers=[('idm', idm)], argsets=[('df', lambda c: ((fx_df(),), {}))])
    # ---------------- BIOGEME
    B = [('logit', lambda: dict(r=fx_biogeme()))]

    def bsim():
        from biogeme.expressions import exp
        v, a = fx_utils()
        return dict(r=fx_biogeme(formulas={'u1': v[1], 'p': exp(v[1]) / (exp(v[1]) + exp(v[2]))}))

    x0 = lambda: _np([_B[0], _B[1]])  # noqa: E731
    R[('BIOGEME', 'getBoundsOnBeta')] = dict(receivers=B, argsets=[('b1', lambda c: (('b1',), {})), ('unknown', lambda c: (('nope',), {}))])
    R[('BIOGEME', 'calculateNullLoglikelihood')] = dict(receivers=B, argsets=[('avail', lambda c: (({1: 1, 2: 1},), {})), ('expr', lambda c: ((av(),), {}))])
    R[('BIOGEME', 'calculateInitLikelihood')] = dict(receivers=B, argsets=[('noarg', lambda c: ((), {}))])
    R[('BIOGEME', 'calculateLikelihood')] = dict(receivers=B, argsets=[('unscaled', lambda c: ((x0(), False), {})), ('scaled', lambda c: ((x0(),), dict(scaled=True))),
                                                                      ('wrong-size', lambda c: ((_np([0.1]), False), {}))])
    R[('BIOGEME', 'calculateLikelihoodAndDerivatives')] = dict(receivers=B, argsets=[
        ('all', lambda c: ((x0(), False), dict(hessian=True, bhhh=True))), ('all-scaled', lambda c: ((x0(), True, True, True), {}))])  # (fields not requested are uninitialised memory: never compared)
    R[('BIOGEME', 'likelihoodFiniteDifferenceHessian')] = dict(receivers=B, argsets=[('x0', lambda c: ((x0(),), {}))])
    R[('BIOGEME', 'checkDerivatives')] = dict(receivers=B, argsets=[('x0', lambda c: ((x0(),), {})), ('verbose', lambda c: (([0.1, 0.2],), dict(verbose=True)))])
    R[('BIOGEME', 'setRandomInitValues')] = dict(receivers=B, argsets=[('default', lambda c: ((), {})), ('5', lambda c: ((5.0 * _K,), {}))])
    R[('BIOGEME', 'quickEstimate')] = dict(receivers=B, argsets=[('noarg', lambda c: ((), {}))],
                                           post=lambda r, c: (r.get_beta_values(), r.data.logLike, r.data.nparam))
    R[('BIOGEME', 'confidenceIntervals')] = dict(receivers=[('sim', bsim)], argsets=[
        ('two', lambda c: (([{'b1': 0.1, 'b2': 0.2}, {'b1': 0.3 * _K, 'b2': -0.2}],), {})),
        ('size', lambda c: (([{'b1': 0.1, 'b2': 0.2}, {'b1': 0.3, 'b2': -0.2}, {'b1': 0.5, 'b2': 0.0}], 0.5), {}))])
    # ---------------- bioResults
    RS = [('estimated', lambda: dict(r=fx_results()))]
    no = [('noarg', lambda c: ((), {}))]
    for a in ('writePickle', 'shortSummary', 'getGeneralStatistics', 'printGeneralStatistics', 'numberOfFreeParameters', 'getVarCovar',
              'getRobustVarCovar', 'getBootstrapVarCovar', 'writeLaTeX'):
        R[('bioResults', a)] = dict(receivers=RS, argsets=no)
    flag = lambda kwname: no + [('false', lambda c: ((False,), {})), ('kw', (lambda kwname: lambda c: ((), {kwname: False}))(kwname))]  # noqa: E731
    R[('bioResults', 'getLaTeX')] = dict(receivers=RS, argsets=flag('only_robust') + [('old-kw', lambda c: ((), dict(onlyRobust=False)))])
    R[('bioResults', 'getEstimatedParameters')] = dict(receivers=RS, argsets=flag('only_robust'))
    R[('bioResults', 'getHtml')] = dict(receivers=RS, argsets=flag('only_robust'))
    R[('bioResults', 'writeHtml')] = dict(receivers=RS, argsets=flag('only_robust'))
    R[('bioResults', 'getF12')] = dict(receivers=RS, argsets=flag('robust_std_err'))
    R[('bioResults', 'writeF12')] = dict(receivers=RS, argsets=flag('robust_std_err'))
    R[('bioResults', 'getCorrelationResults')] = dict(receivers=RS, argsets=no + [('subset', lambda c: ((['b1', 'b2'],), {})), ('unknown', lambda c: ((['b1', 'nope'],), {}))])
    R[('bioResults', 'getBetaValues')] = dict(receivers=RS, argsets=no + [('b1', lambda c: ((['b1'],), {})), ('unknown', lambda c: ((['nope'],), {}))])
    R[('bioResults', 'getBetasForSensitivityAnalysis')] = dict(receivers=RS, argsets=[
        ('normal', lambda c: ((['b1', 'b2'],), dict(size=5, use_bootstrap=False))), ('bootstrap', lambda c: ((['b1', 'b2'],), {})), ('one', lambda c: ((['b2'], 3, False), {}))])
    return R


EXPR_ALIAS_ARGSETS = {
    'getValue': [('noarg', 'any', lambda c: ((), {}))],
    'getValue_c': [
        ('rows', 'eval', lambda c: ((), dict(database=fx_db(), prepare_ids=True))),
        ('betas-agg', 'eval', lambda c: ((fx_db(), {'b1': 0.3 * _K, 'b2': -0.1}), dict(number_of_draws=5, aggregation=True, prepare_ids=True))),
        ('old-kw', 'eval', lambda c: ((), dict(database=fx_db(), numberOfDraws=5, prepareIds=True))),
    ],
    'getValueAndDerivatives': [
        ('all', 'deriv', lambda c: ((), dict(database=fx_db(), number_of_draws=5, gradient=True, hessian=True, bhhh=True, aggregation=True, prepare_ids=True))),
        ('rows', 'deriv', lambda c: (({'b1': 0.3 * _K, 'b2': -0.1}, fx_db()), dict(gradient=True, hessian=True, bhhh=True, aggregation=False, prepare_ids=True))),
    ],
    'createFunction': [
        ('fgh', 'deriv', lambda c: ((), dict(database=fx_db(), number_of_draws=5, gradient=True, hessian=True, bhhh=False))),
        ('f', 'eval', lambda c: ((fx_db(), 5, False, False, False), {})),
    ],
    'getStatusIdManager': [('noarg', 'any', lambda c: ((), {})), ('prepared', 'prepared', lambda c: ((), {}))],
    'setIdManager': [('none', 'any', lambda c: ((None,), {})), ('none-prepared', 'prepared', lambda c: ((None,), {})),
                     ('manager', 'eval', lambda c: ((__import__('biogeme.expressions.idmanager', fromlist=['x']).IdManager([c['r']], fx_db(), 7),), {}))],
    'requiresDraws': [('noarg', 'any', lambda c: ((), {}))],
    'getElementaryExpression': [('b1', 'any', lambda c: (('b1',), {})), ('x', 'any', lambda c: (('x',), {})), ('nope', 'any', lambda c: (('nope',), {}))],
    'getClassName': [('noarg', 'any', lambda c: ((), {}))],
    'getSignature': [('noarg', 'any', lambda c: ((), {})), ('prepared', 'prepared', lambda c: ((), {}))],
    'embedExpression': [('Beta', 'any', lambda c: (('Beta',), {})), ('Variable', 'any', lambda c: (('Variable',), {})),
                        ('self', 'any', lambda c: ((type(c['r']).__name__,), {})), ('class', 'any', lambda c: ((type(c['r']),), {}))],
    'countPanelTrajectoryExpressions': [('noarg', 'any', lambda c: ((), {}))],
}


def _createfunction_post(f, ctx):
    return f(_np([_B[0], _B[1]][: max(1, len(getattr(ctx['r'], 'id_manager').free_betas.names))] if getattr(ctx['r'], 'id_manager', None) is not None else [_B[0]]))


_SUB_CACHE = {}


def tagging_subclass(C, newname):
    """A real subclass that redefines the replacement (calls the inherited one and tags the result): the receiver
    of the 'subclass' form of L2.  None when the replacement is not a plain method of C."""
    import inspect
    key = (C, newname)
    if key not in _SUB_CACHE:
        raw = inspect.getattr_static(C, newname, None)
        if not inspect.isfunction(raw):
            _SUB_CACHE[key] = None
        else:
            def ov(self, *a, **k):
                return ('overridden-in-subclass', getattr(super(_SUB_CACHE[key], self), newname)(*a, **k))
            ov.__name__ = newname
            _SUB_CACHE[key] = type(C)('Sub_' + C.__name__, (C,), {newname: ov, '__module__': 'c20_throwaway'})
    return _SUB_CACHE[key]


def _as_subclass(build, newname):
    def b():
        ctx = build()
        S = tagging_subclass(type(ctx['r']), newname)
        if S is None:
            raise LookupError('replacement is not a plain method')
        ctx['r'].__class__ = S
        return ctx
    return b


def l2_tasks(tier):
    t = [dict(part='L2', group='uncovered', tier=tier)]
    for alph in ([_SEED % 4] if tier == 'quick' else [(_SEED + j) % 4 for j in range(4)]):
        for g in ('fun', 'Database', 'IdManager', 'BIOGEME', 'bioResults', 'KW'):
            t.append(dict(part='L2', group=g, tier=tier, alph=alph))
        for i in range(8):
            t.append(dict(part='L2', group='expr', shard=i, of=8, tier=tier, alph=alph))
    return t


def _pair(rec, label, newname, build, call_old, call_new, post, state_of, case, kindkey, nontrivial_if=None):
    if os.environ.get('C20_TRACE'):
        print('C20_TRACE', label, file=sys.__stderr__, flush=True)
    old, eo = run_side(build, call_old, post, state_of)
    new, en = run_side(build, call_new, post, state_of)
    for e in (eo, en):
        if type(e).__name__ == 'RuntimeError':
            rec.retire = True  # engine exceptions are sticky in this process (DESIGN 3.1)
            rec.count('l2_engine_runtime_errors')
            if os.environ.get('C20_TRACE'):
                print('C20_TRACE RuntimeError', label, str(e)[:200], file=sys.__stderr__, flush=True)
    rec.count('l2_paired_calls')
    bad = compare_sides(old, new, newname)
    both_ran = old['exc'] is None and new['exc'] is None
    substantive = both_ran and (new['result'] is not None or bool(new['files']) or new['state'] is not None)
    rec.case(('L2', label) if substantive or (not both_ran and old['exc'] == new['exc']) else None,
             (label, old, new), outcome=('L2', tuple(sorted({b[0] for b in bad})), new['exc'], new['result'] is None))
    if not both_ran:
        rec.count('l2_pairs_where_both_sides_raise' if old['exc'] == new['exc'] else 'l2_pairs_with_different_outcome')
    _viol(rec, 'L2 paired call', kindkey, label, bad, case)
    return bad


def l2_run(task, rec, only=None):
    import inspect
    import sys

    D = discover()
    group = task['group']
    tier = task.get('tier', 'quick')
    set_alphabet(task.get('alph', _SEED % 4))
    AL = f'@{_ALPH}'
    if group in ('fun', 'bioResults', 'KW'):
        _clean_cwd()
        fx_results()  # warm the per-worker fixture cache outside any observed call
        _clean_cwd()
    FR = _fun_recipes()
    MR = _method_recipes()

    def want(label):
        return only is None or only == label

    if group == 'fun':
        for dmod, attr in sorted({(d, a) for (_, a, _, d) in D['mod_aliases']}):
            r = FR.get((dmod, attr))
            if r is None:
                continue
            alias = getattr(sys.modules[dmod], attr)
            newname = _newname(alias)
            newf = getattr(sys.modules[dmod], newname, None)
            if newf is None:
                continue  # reported by L1
            build = r.get('build') or (lambda: {})
            post = r.get('post') or (_eval_expr_post if r.get('evaluate') else None)
            for al, mk in r['argsets']:
                label = f'{dmod}.{attr}[{al}]{AL}'
                if not want(label):
                    continue

                def co(c, mk=mk, alias=alias):
                    a, k = mk(c)
                    return alias(*a, **k)

                def cn(c, mk=mk, newf=newf):
                    a, k = mk(c)
                    return newf(*a, **k)

                _pair(rec, label, newname, build, co, cn, post, None, dict(part='L2', group='fun', label=label, alph=_ALPH), f'function:{dmod}.{attr}')
        rec.sample(dict(part='L2', group='fun', recipes=len(FR)))
    elif group in ('Database', 'IdManager', 'BIOGEME', 'bioResults'):
        for (cmod, cqual, alias, newname, dmod, dqual, kind) in D['pairs']:
            if cqual != group:
                continue
            r = MR.get((cqual, alias))
            if r is None:
                continue
            state_of = (lambda c: vars(c['r']))
            for rl, build in r['receivers']:
                for al, mk in r['argsets']:
                    forms = ['inst'] + (['class'] if r.get('via_class') else ['subclass'])
                    for form in forms:
                        label = f'{cqual}.{alias}[{rl};{al};{form}]{AL}'
                        if not want(label):
                            continue
                        build_f = _as_subclass(build, newname) if form == 'subclass' else build

                        def co(c, mk=mk, alias=alias, form=form):
                            a, k = mk(c)
                            return getattr(type(c['r']) if form == 'class' else c['r'], alias)(*a, **k)

                        if r.get('new_call'):
                            def cn(c, mk=mk, nc=r['new_call']):
                                a, k = mk(c)
                                return nc(c, a, k)
                        else:
                            def cn(c, mk=mk, newname=newname):
                                a, k = mk(c)
                                return getattr(c['r'], newname)(*a, **k)

                        post = r.get('post')
                        if form == 'subclass' and post is not None:
                            post = (lambda post: lambda res, c: ('overridden-in-subclass', post(res[1], c))
                                    if isinstance(res, tuple) and len(res) == 2 and res[0] == 'overridden-in-subclass' else ('not-overridden', post(res, c)))(post)
                        _pair(rec, label, newname, build_f, co, cn, post, state_of,
                              dict(part='L2', group=group, label=label, alph=_ALPH),
                              f'method:{cqual}.{alias}' + (':subclass-redefining-the-replacement' if form == 'subclass' else ''))
        rec.sample(dict(part='L2', group=group))
    elif group == 'expr':
        exprs = sorted({(cm, cq) for (cm, cq, *_rest) in D['pairs']
                        if any(k.__name__ == 'Expression' for k in D['classes'][(cm, cq)].__mro__)})
        mine = exprs[task['shard']::task['of']]
        for cm, cq in mine:
            try:
                probe = fx_expr(cq)
            except Exception as e:  # noqa
                probe = None
                rec.count('l2_receiver_factory_failed')
            if probe is None:
                continue
            for (cmod, cqual, alias, newname, dmod, dqual, kind) in D['pairs']:
                if (cmod, cqual) != (cm, cq) or alias not in EXPR_ALIAS_ARGSETS:
                    continue
                for al, need, mk in EXPR_ALIAS_ARGSETS[alias]:
                    if (need in ('eval', 'prepared', 'deriv') and cq not in EVALUABLE) or (need == 'deriv' and cq in NO_DERIVATIVES):
                        rec.count('l2_skipped_not_safely_evaluable_in_engine')
                        continue
                    for form in (('inst', 'subclass') if need == 'any' else ('inst',)):
                        label = f'{cq}.{alias}[{al}' + (';subclass' if form == 'subclass' else '') + f']{AL}'
                        if not want(label):
                            continue

                        def build(cq=cq, need=need):
                            e = fx_expr(cq)
                            if need == 'prepared':
                                e.prepare(fx_db(), 5)
                            return dict(r=e)

                        if form == 'subclass':
                            build = _as_subclass(build, newname)

                        def co(c, mk=mk, alias=alias):
                            a, k = mk(c)
                            return getattr(c['r'], alias)(*a, **k)

                        def cn(c, mk=mk, newname=newname):
                            a, k = mk(c)
                            return getattr(c['r'], newname)(*a, **k)

                        post = _createfunction_post if alias == 'createFunction' else None
                        _pair(rec, label, newname, build, co, cn, post, lambda c: vars(c['r']),
                              dict(part='L2', group='expr', shard=task.get('shard', 0), of=task.get('of', 1), label=label, alph=_ALPH),
                              f'method:{dqual}.{alias}' + (':subclass-redefining-the-replacement' if form == 'subclass' else '' if dqual == cq else ':inherited'))
            l2_explicit(rec, cq, type(probe), want, task)
        if mine:
            rec.sample(dict(part='L2', group='expr', classes=[q for _, q in mine][:6]))
    elif group == 'KW':
        l2_keywords(rec, tier, want)
    elif group == 'uncovered':
        # bookkeeping: aliases / receiver pairs that no recipe reaches are counted, never silently skipped
        unc = []
        for dmod, attr in sorted({(d, a) for (_, a, _, d) in D['mod_aliases']}):
            if (dmod, attr) not in FR:
                unc.append(f'{dmod}.{attr}')
        decl_cov = set()
        pairs_unc = 0
        for (cmod, cqual, alias, newname, dmod, dqual, kind) in D['pairs']:
            is_expr = any(k.__name__ == 'Expression' for k in D['classes'][(cmod, cqual)].__mro__)
            if is_expr:
                try:
                    has = alias in EXPR_ALIAS_ARGSETS and fx_expr(cqual) is not None
                except Exception:  # noqa
                    has = False
            else:
                has = (cqual, alias) in MR
            if has:
                decl_cov.add((dmod, dqual, alias))
            else:
                pairs_unc += 1
        for d in D['class_decls']:
            if tuple(d) not in decl_cov:
                unc.append('.'.join(d))
        rec.count('layer2_uncovered_aliases', len(unc))
        rec.count('layer2_covered_aliases', len(D['fun_decls']) + len(D['class_decls']) - len(unc))
        rec.count('layer2_uncovered_receiver_pairs', pairs_unc)
        rec.case(None, ('uncovered', unc, pairs_unc), outcome=('L2-uncovered', len(unc)))
        rec.sample(dict(part='L2', uncovered_aliases=unc[:40], uncovered_receiver_pairs=pairs_unc))


def l2_explicit(rec, cq, R, want, task):
    """Aliases that R's class hierarchy re-declares below their declaring class (Expression.getValue under Numeric, ...):
    every explicit access path that reaches the shadowed alias, old vs new called the SAME way on a real receiver
    (only where the access-path model is decidable)."""
    for alias in sorted(EXPR_ALIAS_ARGSETS):
        newnames = []
        for k in R.__mro__:
            raw = vars(k).get(alias)
            f = _unwrap_raw(raw)[0] if raw is not None else None
            if f is not None and _is_alias(f) and _newname(f) not in newnames:
                newnames.append(_newname(f))
        for newname in newnames:
            mro, rows, _ = real_rows(R, alias, newname)
            for row in rows[1:]:
                mode, target, cands = path_expectation(rows, row)
                if mode in ('not-an-alias', 'ordinary'):
                    continue
                if mode == 'undecidable':
                    rec.count('l2_explicit_paths_undecidable')
                    continue
                form, i = row['path']
                K = mro[i]
                for al, need, mk in EXPR_ALIAS_ARGSETS[alias]:
                    if need != 'any':
                        continue
                    label = f'{cq}.{alias}[{al};{form}:{K.__name__}]@{_ALPH}'
                    if not want(label):
                        continue

                    def build(cq=cq):
                        return dict(r=fx_expr(cq))

                    def via(c, name, mk=mk, form=form, K=K):
                        a, k = mk(c)
                        if form == 'unbound':
                            return getattr(K, name)(c['r'], *a, **k)
                        return getattr(super(K, c['r']), name)(*a, **k)

                    _pair(rec, label, newname, build, lambda c, via=via, alias=alias: via(c, alias),
                          lambda c, via=via, newname=newname: via(c, newname), None, lambda c: vars(c['r']),
                          dict(part='L2', group='expr', shard=task.get('shard', 0), of=task.get('of', 1), label=label, alph=_ALPH),
                          f'method:{row["old_cls"].__name__}.{alias}:explicit-call-on-a-subclass-that-redeclares-it')
                    rec.count('l2_explicit_paired_calls')


# ---- obsolete keywords on real callables: f(old=v) vs f(new=v) (dropped keywords: f(old=v) vs f())
class Fresh:
    """A value of a keyword recipe that must be built anew for each side of a pair (one-shot iterables)."""

    def __init__(self, label, make):
        self.label, self.make = label, make


def _iterable_forms(names):
    """The same sequence of names handed over in every form an 'iterable of names' can take."""
    return [Fresh('tuple', lambda: tuple(names)), Fresh('generator', lambda: (n for n in names)), Fresh('list-iterator', lambda: iter(list(names))),
            Fresh('map-object', lambda: map(str, names)), Fresh('dict-keys', lambda: dict.fromkeys(names).keys()),
            Fresh('reversed', lambda: reversed(list(names)[::-1])), Fresh('filter-object', lambda: filter(None, names))]


def _kw_recipes():
    from biogeme.parameters import Parameters
    import biogeme.draws as dr

    un = lambda: _np([0.1, 0.9, 0.5, 0.3, 0.7, 0.2])  # noqa: E731
    R = {}
    R['biogeme.draws.get_latin_hypercube_draws'] = dict(call=lambda c, kw: dr.get_latin_hypercube_draws(2, 3, **kw), values={'uniformNumbers': [un(), Fresh('list', lambda: [0.1, 0.9, 0.5, 0.3, 0.7, 0.2]), Fresh('generator', lambda: (x for x in [0.1, 0.9, 0.5, 0.3, 0.7, 0.2]))]})
    R['biogeme.draws.get_normal_wichura_draws'] = dict(call=lambda c, kw: dr.get_normal_wichura_draws(2, 3, **kw),
                                                       values={'uniformNumbers': [_np([[0.1, 0.9, 0.5], [0.3, 0.7, 0.2]])]})
    E = 'biogeme.expressions.base_expressions.Expression.'
    ebuild = lambda: dict(r=fx_loglike())  # noqa: E731
    R[E + 'prepare'] = dict(build=ebuild, call=lambda c, kw: c['r'].prepare(fx_db(), **kw) if kw else c['r'].prepare(fx_db(), 7),
                            values={'numberOfDraws': [7]}, state=lambda c: vars(c['r']), default_new={'number_of_draws': 7})
    R[E + 'create_function'] = dict(build=ebuild, call=lambda c, kw: c['r'].create_function(database=fx_db(), **kw)(_np(_B)),
                                    values={'numberOfDraws': [5, 11]})
    R[E + 'create_objective_function'] = dict(build=ebuild, call=lambda c, kw: c['r'].create_objective_function(database=fx_db(), **kw)(_np(_B)),
                                              values={'numberOfDraws': [5]})
    R[E + 'get_value_c'] = dict(build=ebuild, call=lambda c, kw: c['r'].get_value_c(database=fx_db(), **({'prepare_ids': True} if 'prepareIds' not in kw and 'prepare_ids' not in kw else {}), **kw),
                                values={'numberOfDraws': [5], 'prepareIds': [True]})
    R[E + 'get_value_and_derivatives'] = dict(build=ebuild, call=lambda c, kw: c['r'].get_value_and_derivatives(database=fx_db(), **({'prepare_ids': True} if 'prepareIds' not in kw and 'prepare_ids' not in kw else {}), **kw),
                                              values={'numberOfDraws': [5], 'prepareIds': [True]})
    Bq = 'biogeme.biogeme.BIOGEME.'

    def mkb(c, kw):
        import biogeme.biogeme as bb
        base = dict(generate_pickle=False)
        if 'generateHtml' not in kw and 'generate_html' not in kw:
            base['generate_html'] = False
        if 'saveIterations' not in kw and 'save_iterations' not in kw:
            base['save_iterations'] = False
        if 'numberOfThreads' not in kw and 'number_of_threads' not in kw:
            base['number_of_threads'] = 1
        if 'parameter_file' not in kw and 'parameters' not in kw:
            base['parameters'] = Parameters()
        b = bb.BIOGEME(fx_db(), fx_loglike(), **base, **kw)
        return dict(vars(b), _params={n: b.biogeme_parameters.get_value(n) for n in sorted(b.biogeme_parameters.parameter_names)})

    R[Bq + '__init__'] = dict(call=mkb, values={
        'suggestScales': [True], 'numberOfThreads': [2], 'numberOfDraws': [13], 'missingData': [77777], 'parameter_file': ['PARAMS'],
        'userNotes': ['a note'], 'generateHtml': [False], 'saveIterations': [False], 'seed_param': [4321]},
        subst={'PARAMS': lambda: Parameters()})
    R[Bq + 'estimate'] = dict(build=lambda: dict(r=fx_biogeme(bootstrap_samples=3)), call=lambda c, kw: (lambda r: (r.get_beta_values(), canon(r.data.bootstrap)))(c['r'].estimate(**kw)),
                              values={'bootstrap': [True, False]})
    R[Bq + 'simulate'] = dict(build=lambda: dict(r=fx_biogeme(formulas={'ll': fx_loglike()})), call=lambda c, kw: c['r'].simulate(**kw),
                              values={'theBetaValues': [{'b1': 0.2 * _K, 'b2': 0.1}, None]})
    Rq = 'biogeme.results.bioResults.'

    def mkres(c, kw):
        import biogeme.results as res
        return res.bioResults(**kw).short_summary()

    def raw():
        return fx_results().data

    def pick():
        fn = fx_results().write_pickle()
        return fn

    R[Rq + '__init__'] = dict(call=mkres, values={'theRawResults': ['RAW'], 'pickleFile': ['PICKLE']}, subst={'RAW': raw, 'PICKLE': pick})
    rb = lambda: dict(r=fx_results())  # noqa: E731
    for m, k in (('get_latex', 'onlyRobust'), ('get_estimated_parameters', 'onlyRobust'), ('get_html', 'onlyRobust'), ('write_html', 'onlyRobust'),
                 ('get_f12', 'robustStdErr'), ('write_f12', 'robustStdErr')):
        R[Rq + m] = dict(build=rb, call=(lambda m: lambda c, kw: getattr(c['r'], m)(**kw))(m), values={k: [False, True]}, state=lambda c: vars(c['r']))
    R[Rq + 'get_beta_values'] = dict(build=rb, call=lambda c, kw: c['r'].get_beta_values(**kw),
                                     values={'myBetas': [['b1'], None] + _iterable_forms(['b2', 'b1']) + _iterable_forms([])[1:3]})
    R[Rq + 'get_betas_for_sensitivity_analysis'] = dict(build=rb, call=lambda c, kw: c['r'].get_betas_for_sensitivity_analysis(
        **({'my_betas': ['b1', 'b2']} if 'myBetas' not in kw and 'my_betas' not in kw else {}), size=4, **kw),
        values={'myBetas': [['b2'], ('b2', 'b1'), Fresh('generator', lambda: (n for n in ['b2']))], 'useBootstrap': [False, True]})
    return R


def l2_keywords(rec, tier, want):
    D = discover()
    KR = _kw_recipes()
    uncovered = []
    for entry in D['dp']:
        r = KR.get(entry['label'])
        obsolete = {}
        for _, d in entry['levels']:
            obsolete.update(d)
        if r is None:
            uncovered.extend(f'{entry["label"]}({k}=)' for k in obsolete)
            continue
        for old in sorted(obsolete):
            new = obsolete[old]
            if old not in r['values']:
                uncovered.append(f'{entry["label"]}({old}=)')
                continue
            for vi, v in enumerate(r['values'][old]):
                label = f'{entry["label"]}({old}=#{vi})@{_ALPH}'
                if not want(label):
                    continue
                build = r.get('build') or (lambda: {})

                def val(v=v, r=r):
                    if isinstance(v, Fresh):
                        return v.make()
                    return r['subst'][v]() if isinstance(v, str) and v in r.get('subst', {}) else v

                def co(c, old=old, r=r, val=val):
                    return r['call'](c, {old: val()})

                def cn(c, new=new, r=r, val=val):
                    return r['call'](c, {new: val()} if new else {})

                old_side, eo = run_side(build, co, None, r.get('state'))
                new_side, en = run_side(build, cn, None, r.get('state'))
                for e in (eo, en):
                    if type(e).__name__ == 'RuntimeError':
                        rec.retire = True
                rec.count('l2_paired_keyword_calls')
                bad = compare_sides(old_side, new_side, new or old, extra_warn_names=(old,))
                both = old_side['exc'] is None and new_side['exc'] is None
                rec.case(('L2KW', label) if both else None, (label, old_side, new_side),
                         outcome=('L2KW', tuple(sorted({b[0] for b in bad})), new_side['exc']))
                if not both:
                    rec.count('l2_keyword_pairs_where_a_side_raises')
                _viol(rec, 'L2 obsolete keyword vs new keyword', f'keyword:{entry["label"]}({old}=)', label, bad,
                      dict(part='L2', group='KW', label=label, alph=_ALPH))
    rec.count('layer2_uncovered_obsolete_keywords', len(uncovered))
    rec.sample(dict(part='L2', group='KW', uncovered_keywords=uncovered))


def l2_replay(case, rec):
    task = dict(part='L2', group=case['group'], shard=case.get('shard', 0), of=case.get('of', 1), alph=case.get('alph', _SEED % 4))
    l2_run(task, rec, only=case['label'])


def _viol(rec, layer, kindkey, label, bad, case):
    for clause, detail, expected, observed in bad:
        rec.violation(f'C20|{clause}|{kindkey}', _mask(f'[{layer}] {label}: {clause}: {detail}'), case,
                      expected=_mask(expected) if isinstance(expected, str) else expected,
                      observed=_mask(observed) if isinstance(observed, str) else observed)


def run_task(task):
    rec = Rec()
    part = task['part']
    tier = task.get('tier', 'quick')
    D = discover()
    if D['import_errors']:
        rec.count('modules_not_importable', len(D['import_errors']))
    if part == 'TS':
        n_dep, n_dp = ast_scan()
        rec.count('discovered_module_level_alias_bindings', len(D['mod_aliases']))
        rec.count('discovered_function_alias_declarations', len(D['fun_decls']))
        rec.count('discovered_class_level_alias_declarations', len(D['class_decls']))
        rec.count('discovered_class_alias_pairs', len(D['pairs']))
        rec.count('discovered_classes', len(D['classes']))
        rec.count('discovered_deprecated_parameters_callables', len(D['dp']))
        rec.count('ast_deprecated_declarations', n_dep)
        rec.count('ast_deprecated_parameters_declarations', n_dp)
        ts_all(rec)
        dp_sanity(rec)
        rec.sample(dict(part='TS', aliases=len(D['fun_decls']) + len(D['class_decls']), pairs=len(D['pairs'])))
    elif part == 'L0':
        for form, alias, newname, recvs in L0_FORMS:
            for recv in recvs:
                for shape in shapes(tier):
                    for pool in HPOOLS:
                        r = l0_probe(form, alias, newname, recv, shape, pool)
                        if r is None:
                            continue
                        bad, outcome, nod = r
                        if nod:
                            rec.count('l0_static_alias_reached_declared_not_resolved')
                        rec.case(('L0', form, recv, shape, pool), (form, recv, shape, pool, outcome), outcome=('L0',) + outcome)
                        _viol(rec, 'L0 decorator on toy family', f'decorator-level:{form}', f'{form} alias on receiver {recv}', bad,
                              dict(part='L0', form=form, alias=alias, newname=newname, recv=recv, shape=list(shape), pool=pool))
        rec.sample(dict(part='L0', forms=[f[0] for f in L0_FORMS]))
    elif part == 'L1F':
        for b in D['mod_aliases']:
            for shape in shapes(tier):
                for pool in HPOOLS:
                    r = l1_fun_probe(b, shape, pool)
                    if r is None:
                        rec.count('l1_replacement_not_swappable')
                        continue
                    bad, outcome, nt = r
                    rec.case(('L1F', b, shape, pool) if nt else None, (b, shape, pool, outcome), outcome=('L1F',) + outcome)
                    _viol(rec, 'L1 module-level alias', 'function', f'{b[0]}.{b[1]} -> {b[2]}', bad,
                          dict(part='L1F', binding=list(b), shape=[shape[0], list(shape[1]), shape[2]], pool=pool))
        rec.sample(dict(part='L1F', bindings=len(D['mod_aliases']), first=list(D['mod_aliases'][0]) if D['mod_aliases'] else None))
    elif part == 'L1':
        pairs = D['pairs'][task['shard']::task['of']]
        for pair in pairs:
            for variant in VARIANTS:
                for shape in shapes(tier):
                    for pool in (POOLS if tier == 'quick' else HPOOLS):
                        r = l1_pair_probe(pair, variant, shape, pool)
                        if r == 'n/a':
                            rec.count('l1_own_variant_not_applicable_replacement_is_a_module_function')
                            continue
                        if r is None:
                            rec.count('l1_replacement_not_swappable')
                            continue
                        bad, outcome, nt = r
                        rec.case(('L1', pair, variant, shape, pool) if nt else None, (pair, variant, shape, pool, outcome),
                                 outcome=('L1', variant != 'own') + outcome)
                        kk = _l1_kindkey(pair, variant, outcome)
                        _viol(rec, f'L1 {variant}', kk, f'{pair[1]}.{pair[2]} (declared in {pair[5]}) -> {pair[3]}', bad,
                              dict(part='L1', pair=list(pair), variant=variant, shape=[shape[0], list(shape[1]), shape[2]], pool=pool))
        if pairs:
            rec.sample(dict(part='L1', shard=task['shard'], first_pair=list(pairs[0]), pairs=len(pairs)))
        rec.count('l1_pairs_probed', len(pairs))
    elif part == 'L0H':
        specs = h_specs(tier)[task['shard']::task['of']]
        h_run(rec, task['kind'], specs, tier)
        rec.count('l0h_hierarchies', len(specs))
        if specs:
            rec.sample(dict(part='L0H', kind=task['kind'], hierarchies=len(specs), last=[list(map(str, c)) for c in specs[-1]]))
    elif part == 'L1X':
        pairs = D['pairs'][task['shard']::task['of']]
        l1x_run(rec, pairs, tier)
        rec.count('l1x_pairs_probed', len(pairs))
        if pairs:
            rec.sample(dict(part='L1X', shard=task['shard'], first_pair=list(pairs[0]), pairs=len(pairs)))
    elif part == 'DP':
        for entry in D['dp']:
            for subset, npos, extra, order in dp_cases(entry, tier):
                for pool in POOLS:
                    r = dp_probe(entry, subset, npos, extra, order, pool)
                    if r is None:
                        rec.count('dp_core_not_swappable')
                        continue
                    if r == 'collision':
                        rec.count('dp_skipped_old_and_new_keyword_together')
                        continue
                    bad, outcome, nt = r
                    rec.case(('DP', entry['label'], subset, npos, extra, order, pool) if subset else None,
                             (entry['label'], subset, npos, extra, order, pool, outcome), outcome=('DP',) + outcome)
                    _viol(rec, 'DP keyword renaming', f'keyword:{entry["label"]}' if any(b[0] == 'arguments-not-passed-through' for b in bad) else 'keyword',
                          f'{entry["label"]}(*{npos} positional, {list(subset)} + {extra})', bad,
                          dict(part='DP', label=entry['label'], subset=list(subset), npos=npos, extra=extra, order=order, pool=pool))
        for entry, old, first, npos, pool in dp_both_cases(tier):
            r = dp_both_probe(entry, old, first, npos, pool)
            if r is None:
                rec.count('dp_core_not_swappable')
                continue
            if isinstance(r, str):
                rec.count('dp_both_' + r.replace('-', '_'))
                continue
            rec.case(('DPB', entry['label'], old, first, npos, pool), (entry['label'], old, first, npos, pool, r[1]), outcome=('DPB',) + r[1])
            rec.count('dp_old_and_new_keyword_together_probes')
            _viol(rec, 'DP old and new keyword in one call', 'keyword',
                  f'{entry["label"]}({old}=..., {dict(kv for _, d in entry["levels"] for kv in d.items())[old]}=...)', r[0],
                  dict(part='DPB', label=entry['label'], old=old, first=first, npos=npos, pool=pool))
        rec.sample(dict(part='DP', callables=[e['label'] for e in D['dp']][:4], n=len(D['dp'])))
    elif part == 'DPV':
        dpv_run(rec, tier)
        rec.sample(dict(part='DPV', value_kinds=list(HOSTILE_KINDS), callables=len(dpv_entries())))
    elif part == 'RK0':
        rk0_run(rec, tier)
        rec.sample(dict(part='RK0', class_level_kinds=RK_CLASS_KINDS, instance_level_kinds=RK_INSTANCE_KINDS,
                        positions=RK0_POSITIONS, flavours=RK0_FLAVOURS))
    elif part == 'RK1':
        pairs = D['pairs'][task['shard']::task['of']]
        rk1_run(rec, pairs, tier)
        rec.count('rk1_pairs_probed', len(pairs))
        if pairs:
            rec.sample(dict(part='RK1', shard=task['shard'], first_pair=list(pairs[0]), pairs=len(pairs)))
    elif part == 'ENV0':
        env_run(rec, [(task['target'], True)], tier)
        rec.sample(dict(part='ENV0', target=task['target'], config_sets=env_config_sets(task['target'], tier, True),
                        configurations=len(env_configs(env_config_sets(task['target'], tier, True)))))
    elif part == 'ENV1':
        allt = env_pkg_targets()
        if task['shard'] == 0:
            rec.count('env_package_targets', len(allt))
        mine = allt[task['shard']::task['of']]
        env_run(rec, mine, tier)
        rec.count('env_package_targets_visited', len(mine))
        if mine:
            rec.sample(dict(part='ENV1', shard=task['shard'], targets=len(mine), first=mine[0][0],
                            configurations_first=len(env_configs(env_config_sets(mine[0][0], tier, mine[0][1])))))
    elif part == 'PENV':
        penv_run(rec, task)
        rec.sample(dict(part='PENV', env=task['env'], start=task['start'], redefined_after_import=len(task['lates'])))
    elif part == 'L2':
        l2_run(task, rec)
    return rec.result()


# =========================================================================== cross-task oracle
COLLAPSE_OVER = 3


def collapse_keys(violations):
    """A fault in the shared wrapper fails the same clause for many aliases: more than COLLAPSE_OVER per-alias keys of one
    (clause, kind) are folded into a single key '<kind>:*' (first = simplest witness kept, the others listed)."""
    groups = {}
    for v in violations:
        parts = v['key'].split('|', 2)
        if len(parts) == 3 and ':' in parts[2] and parts[2].split(':', 1)[0] in ('method', 'function', 'keyword'):
            groups.setdefault((parts[1], parts[2].split(':', 1)[0]), {}).setdefault(v['key'], []).append(v)
    out = list(violations)
    for (clause, kind), by_key in groups.items():
        if len(by_key) <= COLLAPSE_OVER:
            continue
        members = [v for vs in by_key.values() for v in vs]
        ids = {id(v) for v in members}
        out = [v for v in out if id(v) not in ids]
        first = members[0]
        names = sorted(k.split('|', 2)[2].split(':', 1)[1] for k in by_key)
        out.append(dict(first, key=f'C20|{clause}|{kind}:*',
                        what=first['what'] + f'  [same clause fails for {len(names)} aliases: {", ".join(names)[:1500]}]',
                        more=sum(1 + v.get('more', 0) for v in members) - 1))
    return out


def finalize(agg, tier, seed):
    agg.violations[:] = collapse_keys(agg.violations)
    c = agg.counts
    n_decl = c.get('discovered_function_alias_declarations', 0) + c.get('discovered_class_level_alias_declarations', 0)
    if n_decl == 0 or c.get('discovered_class_alias_pairs', 0) == 0:
        agg.harness_errors.append(('discovery found no alias: the exploration would be vacuous', {}))
    if n_decl != c.get('ast_deprecated_declarations', -1):
        agg.harness_errors.append((f'discovery found {n_decl} alias declarations, the source scan {c.get("ast_deprecated_declarations")}', {}))
    if c.get('discovered_deprecated_parameters_callables', 0) != c.get('ast_deprecated_parameters_declarations', -1):
        agg.harness_errors.append((f'discovery found {c.get("discovered_deprecated_parameters_callables")} deprecated_parameters '
                                   f'callables, the source scan {c.get("ast_deprecated_parameters_declarations")}', {}))
    if c.get('l1_pairs_probed', 0) != c.get('discovered_class_alias_pairs', 0):
        agg.harness_errors.append((f'L1 probed {c.get("l1_pairs_probed")} pairs of {c.get("discovered_class_alias_pairs")}', {}))
    if c.get('l1x_pairs_probed', 0) != c.get('discovered_class_alias_pairs', 0):
        agg.harness_errors.append((f'L1X probed {c.get("l1x_pairs_probed")} pairs of {c.get("discovered_class_alias_pairs")}', {}))
    if not c.get('l1x_paths_shadowed', 0) or not c.get('l0h_hierarchies', 0):
        agg.harness_errors.append(('no explicit call of a shadowed alias was explored: L0H / L1X would be vacuous', {}))
    if c.get('modules_not_importable', 0):
        agg.harness_errors.append(('some package modules could not be imported during discovery', {}))
    if c.get('rk1_pairs_probed', 0) != c.get('discovered_class_alias_pairs', 0):
        agg.harness_errors.append((f'RK1 probed {c.get("rk1_pairs_probed")} pairs of {c.get("discovered_class_alias_pairs")}', {}))
    if not c.get('rk0_probes', 0) or not c.get('rk1_probes', 0) or not c.get('dpv_probes', 0):
        agg.harness_errors.append(('RK0 / RK1 / DPV explored nothing: the exploration would be vacuous', {}))
    D_n = c.get('discovered_class_alias_pairs', 0) + c.get('discovered_module_level_alias_bindings', 0)
    if not c.get('env_probes', 0) or c.get('env_package_targets_visited', 0) != c.get('env_package_targets', -1) \
            or c.get('env_package_targets', 0) < D_n:
        agg.harness_errors.append((f'ENV visited {c.get("env_package_targets_visited")} of {c.get("env_package_targets")} package targets '
                                   f'({D_n} pairs + module-level aliases discovered), {c.get("env_probes")} probes: the exploration of the '
                                   f'caller\'s configuration would be vacuous', {}))
    for flag in ('env_model_disagrees_with_python', 'env_control_not_neutral', 'env_target_vanished'):
        if c.get(flag, 0):
            agg.harness_errors.append((f'{flag}: {c.get(flag)} probes - the reference side of ENV (the model of the warning filters / the '
                                       f'call of the new name) does not behave as the harness assumes', {}))
    if not c.get('penv_probes', 0) or c.get('penv_base_environment_ok', 0) != 1 or c.get('penv_child_failed', 0):
        agg.harness_errors.append((f'PENV: {c.get("penv_probes", 0)} probes in {c.get("penv_interpreters_started", 0)} fresh interpreters, base '
                                   f'environment ok = {c.get("penv_base_environment_ok", 0)}, interpreters that failed = '
                                   f'{c.get("penv_child_failed", 0)}: the exploration of the process environment would be vacuous', {}))
    for flag in ('rk_model_disagrees_with_python', 'rk_new_name_call_is_not_silent', 'rk_new_name_call_unexpected'):
        if c.get(flag, 0):
            agg.harness_errors.append((f'{flag}: {c.get(flag)} probes - the reference side of RK (the call of the new name) does not '
                                       f'behave as the harness assumes', {}))


# =========================================================================== replay
def replay(case):
    rec = Rec()
    part = case['part']
    D = discover()

    def shp(s):
        return (s[0], tuple(s[1]), s[2])

    if part == 'L0':
        r = l0_probe(case['form'], case['alias'], case['newname'], case['recv'], shp(case['shape']), case['pool'])
        if r:
            _viol(rec, 'L0 decorator on toy family', f'decorator-level:{case["form"]}', f'{case["form"]} alias on receiver {case["recv"]}', r[0], case)
    elif part == 'L1F':
        b = tuple(case['binding'])
        r = l1_fun_probe(b, shp(case['shape']), case['pool'])
        if r:
            _viol(rec, 'L1 module-level alias', 'function', f'{b[0]}.{b[1]} -> {b[2]}', r[0], case)
    elif part == 'L1':
        pair = tuple(case['pair'])
        r = l1_pair_probe(pair, case['variant'], shp(case['shape']), case['pool'])
        if r and r != 'n/a':
            kk = _l1_kindkey(pair, case['variant'], r[1])
            _viol(rec, f'L1 {case["variant"]}', kk, f'{pair[1]}.{pair[2]} (declared in {pair[5]}) -> {pair[3]}', r[0], case)
    elif part == 'L0H':
        spec = tuple((n, tuple(b), o) for n, b, o in case['spec'])
        r = h_probe(spec, case['kind'], tuple(case['path']), shp(case['shape']), case['pool'])
        if r:
            _viol(rec, 'L0H hierarchy x access path', f'decorator-level:{case["kind"]}:{r[2]}-alias',
                  f'{case["kind"]} alias, hierarchy {case["spec"]}, path {case["path"]}', r[0], case)
    elif part == 'L1X':
        pair = tuple(case['pair'])
        r = l1x_probe(pair, case['recvkind'], tuple(case['path']), shp(case['shape']), case['pool'])
        if r:
            _viol(rec, f'L1X explicit call, receiver {case["recvkind"]}', f'method:{pair[5]}.{pair[2]}:explicit-call-{r[3]}-alias',
                  f'{pair[1]}.{pair[2]} (declared in {pair[5]}) -> {pair[3]}, path {case["path"]}', r[0], case)
    elif part in ('TS', 'DPS'):
        ts_all(rec)
        dp_sanity(rec)
        want = case.get('alias') or case.get('old')
        rec.violations = [v for v in rec.violations if (v['case'].get('alias') or v['case'].get('old')) == want
                          and v['case'].get('module', v['case'].get('label')) == case.get('module', case.get('label'))]
    elif part == 'DP':
        entry = next(e for e in D['dp'] if e['label'] == case['label'])
        r = dp_probe(entry, tuple(case['subset']), case['npos'], case['extra'], case['order'], case['pool'])
        if r and r != 'collision':
            _viol(rec, 'DP keyword renaming', f'keyword:{entry["label"]}' if any(b[0] == 'arguments-not-passed-through' for b in r[0]) else 'keyword',
                  f'{entry["label"]}', r[0], case)
    elif part == 'DPB':
        entry = next(e for e in dpv_entries() if e['label'] == case['label'])
        r = dp_both_probe(entry, case['old'], case['first'], case['npos'], case['pool'])
        if r and not isinstance(r, str):
            _viol(rec, 'DP old and new keyword in one call', 'keyword',
                  f'{entry["label"]}({case["old"]}=...)', r[0], case)
    elif part == 'RK0':
        r = rk0_probe(case['form'], case['rkind'], case['position'], case['flavour'], case['path'], shp(case['shape']), case['pool'])
        if r:
            _viol(rec, 'RK0 kind of the replacement on the receiver', f'decorator-level:{case["form"]}:replacement-redefined-as-{rk_keyclass(case["rkind"])}',
                  f'{case["form"]} alias, {case["rkind"]} ({case["position"]}), flavour {case["flavour"]}, path {case["path"]}', r[0], case)
    elif part == 'RK1':
        pair = tuple(case['pair'])
        r = rk1_probe(pair, case['rkind'], case['position'], shp(case['shape']), case['pool'])
        if r and r != 'out-of-domain':
            _viol(rec, f'RK1 the receiver\'s replacement is a {case["rkind"]} ({case["position"]})', f'method:replacement-redefined-as-{rk_keyclass(case["rkind"])}',
                  f'{pair[1]}.{pair[2]} (declared in {pair[5]}) -> {pair[3]}', r[0], case)
    elif part == 'DPV':
        entry = next(e for e in dpv_entries() if e['label'] == case['label'])
        r = dpv_probe(entry, case['old'], case['vk'], case['npos'], case['comp'])
        if r and not isinstance(r, str):
            _dpv_viol(rec, f'{entry["label"]}({case["old"]}=<{case["vk"]} value>)', r[0], r[2], case)
    elif part == 'ENV':
        shape = shp(case['shape'])
        r = env_probe(case['target'], case['cfg'], shape, case['pool'])
        if r is not None and not isinstance(r, str):
            env_report(rec, case['target'], case['cfg'], shape, case['pool'], r)
    elif part == 'PENV':
        penv_replay(case, rec)
    elif part == 'L2':
        l2_replay(case, rec)
    return rec.violations
