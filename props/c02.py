"""C02 — gradient, Hessian and BHHH returned with a value are its true derivatives.

Exhaustive enumeration over the differentiable sub-language (every (parent, slot, child) triple
whose comparisons / logical operators / set memberships are parameter-free) x parameter points x
call forms, on the real engine, against exact hyper-dual derivatives (vf.refsem).  Part 'lindup':
every linear utility (bioLinearUtility) of 2..3 (thorough 2..4) terms in which one parameter is met in
several terms, on its own, under exp and inside a logit.
"""
from __future__ import annotations

import itertools
import math

from vf import refsem as R
from vf import termgen as G
from vf.rec import Rec

ID = 'C02'
LEVEL = 'exploration'
TECHNIQUE = 'bounded exhaustive enumeration of differentiable expression trees x call forms on the real engine vs exact hyper-dual derivatives of a plain-Python reference semantics'
RULE = ('one case = one (formula, parameter point, call form); formulas: every (parent kind, slot, child kind) triple of the '
        'differentiable sub-language x 2 filler rotations; call forms: get_value_and_derivatives (per-row and aggregated; '
        'flag combinations g / g+h / g+b / g+h+b; named), create_function, create_objective_function (f, f_g, f_g_h), '
        'BIOGEME.calculate_likelihood_and_derivatives (scaled on/off), tools.derivatives finite differences on a pool; '
        'bioLinearUtility term lists of length 2..3 (thorough 2..4) over all parameters x {x1, x2} in which a parameter repeats '
        '(all of them on their own; those over a core sub-alphabet also under exp and inside a logit, every call form), with '
        'lists without a repeat as controls. '
        'Non-trivial = at least one row with a non-zero reference gradient compared; distinct = distinct (formula, point, form).')
ASSUMPTIONS = [
    'derivatives compared at the alphabet grid points only; non-differentiable points (min/max ties, fragile branches) excluded and counted',
    'tolerance rel 1e-8 + abs 1e-9 on derivatives (engine and reference use different but algebraically equal formulas); '
    'cases whose reference derivative moves by more than 1e-8 under a 1e-13 input perturbation are excluded (ill-conditioned)',
    'comparisons, &, |, BelongsTo containing a free parameter are refused by the engine by design: only asserted on a small set',
]
ANCHOR_FILES = ['src/biogeme/expressions/base_expressions.py', 'src/biogeme/expressions/calculator.py',
                'src/biogeme/expressions/idmanager.py', 'src/biogeme/function_output.py', 'src/biogeme/biogeme.py',
                'src/biogeme/tools/derivatives.py']
DREL, DABS = 1e-8, 1e-9


class StopTask(Exception):
    pass


NONDIFF = {'and', 'or', '==', '!=', '<=', '>=', '<', '>', 'belongs'}


def differentiable_form(t):
    """No comparison / logical / membership node has a free parameter below it."""
    if t[0] == 'belongs':
        # the engine refuses any gradient request through BelongsTo, parameter-free or not (no number is returned)
        return False
    if t[0] in NONDIFF:
        if any(b in G.FREE for b in R.leaves(t, 'beta')):
            return False
    return all(differentiable_form(c) for c in R.children(t))


def dclose(a, b):
    if a == b:
        return True
    if not (math.isfinite(a) and math.isfinite(b)):
        return False
    return abs(a - b) <= DABS + DREL * max(abs(a), abs(b))


def ref_rows(term, full, free, rec):
    """[(row index, row, f, g, h)] for rows inside the domain and well-conditioned."""
    out = []
    for i, row in enumerate(G.ROWS):
        try:
            f, g, h = R.evaluate_hd(term, free, row, full)
        except R.OutOfDomain:
            rec.count('rows_skipped_out_of_domain')
            continue
        except R.Fragile:
            rec.count('rows_skipped_fragile_or_nondifferentiable_point')
            continue
        # conditioning of value and derivatives
        try:
            row2 = {k: R._perturb(v, 1 if j % 2 else -1) for j, (k, v) in enumerate(row.items())}
            full2 = {k: R._perturb(v, 1 if j % 2 else -1) for j, (k, v) in enumerate(full.items())}
            f2, g2, h2 = R.evaluate_hd(term, free, row2, full2, strict=False)
        except (R.OutOfDomain, R.Fragile):
            rec.count('rows_skipped_ill_conditioned')
            continue
        flat1 = [f] + list(g) + [x for r_ in h for x in r_]
        flat2 = [f2] + list(g2) + [x for r_ in h2 for x in r_]
        scale = max(1.0, max(abs(x) for x in flat1))
        if any(abs(a - b) > 1e-9 * scale for a, b in zip(flat1, flat2)) or scale > 1e7:
            rec.count('rows_skipped_ill_conditioned')
            continue
        out.append((i, row, f, g, h))
    return out


def _cmp_vec(got, want):
    return len(got) == len(want) and all(dclose(float(a), float(b)) for a, b in zip(got, want))


def _cmp_mat(got, want):
    return len(got) == len(want) and all(_cmp_vec(list(r1), list(r2)) for r1, r2 in zip(got, want))


def _symmetric(m):
    n = len(m)
    return all(dclose(float(m[i][j]), float(m[j][i])) for i in range(n) for j in range(n))


def _sum_vec(vs, n):
    return [sum(v[i] for v in vs) for i in range(n)]


def _sum_mat(ms, n):
    return [[sum(m[i][j] for m in ms) for j in range(n)] for i in range(n)]


def _outer(g):
    return [[a * b for b in g] for a in g]


def check_formula(term, rec, tag, keyname, case, forms, share=False):
    from vf.engine import make_db, make_biogeme, is_engine_error
    import numpy as np

    free = sorted(b for b in R.leaves(term, 'beta') if b in G.FREE)  # ASCII order = the library's sorted list
    n = len(free)
    if n == 0:
        rec.count('formulas_without_free_parameter')
        return
    for label, betas_arg, full in G.param_points():
        rows = ref_rows(term, full, free, rec)
        if not rows:
            rec.case(None, (tag, label, 'no-row'), outcome='no-valid-row')
            continue
        nz = any(any(x != 0.0 for x in g) for _, _, _, g, _ in rows)
        F = [r[2] for r in rows]
        Gs = [r[3] for r in rows]
        Hs = [r[4] for r in rows]
        Bs = [_outer(g) for g in Gs]
        aggF, aggG, aggH, aggB = sum(F), _sum_vec(Gs, n), _sum_mat(Hs, n), _sum_mat(Bs, n)
        db = make_db([r[1] for r in rows], G.COLUMNS)

        def fail(clause, form, expected=None, observed=None):
            if 'hessian' in clause or clause in ('create_function-output',):
                known = _matches_pow2_quirk(term, free, rows, full, observed, clause, form)
                if known:
                    rec.violation('C02|hessian|engine:PowerConstant(exponent=2)-of-a-child-with-nonzero-second-derivative',
                                  f'{clause} [{form}] for {R.show(term)} ({label}): the Hessian equals 2 g g\' + 2 h(child) '
                                  f'(engine bioExprPowerConstant.cc omits the factor f(child))',
                                  dict(case, point=label, form=form), expected=expected, observed=observed)
                    return
            kn = keyname
            if form == 'biogeme_in_model' and clause.startswith(('raised-ValueError', 'raised-BiogemeError', 'reported-', 'derivatives-size')):
                # what the model reports as its names / accepts as a vector does not depend on the kind of formula
                kn = 'any-formula'
            rec.violation(f'C02|{clause}|{form}:{kn}',
                          f'{clause} [{form}] for {R.show(term)} ({label}); free={free}',
                          dict(case, point=label, form=form), expected=expected, observed=observed)

        def guard(form, fn):
            try:
                return fn()
            except Exception as e:
                rec.case((tag, label, form), (tag, label, form, type(e).__name__), outcome='raised')
                fail(f'raised-{type(e).__name__}', form, observed=repr(e)[:300])
                if is_engine_error(e):
                    rec.retire = True
                    raise StopTask()
                return None

        for form in forms:
            expr = R.Builder(G.betas_spec(), share=share).build(term)
            key = (tag, label, form) if nz else None
            if form == 'disagg':
                res = guard(form, lambda: expr.get_value_and_derivatives(
                    betas=betas_arg, database=db, gradient=True, hessian=True, bhhh=True, aggregation=False,
                    prepare_ids=True))
                if res is None:
                    continue
                fs = [float(v) for v in res.functions]
                gs = [list(map(float, g)) for g in res.gradients]
                hs = [[list(map(float, r_)) for r_ in h] for h in res.hessians]
                bs = [[list(map(float, r_)) for r_ in h] for h in res.bhhhs]
                rec.case(key, (tag, label, form, [round(v, 8) for v in fs], [[round(x, 7) for x in g] for g in gs]),
                         outcome='ok')
                if not _cmp_vec(fs, F):
                    fail('value', form, F, fs)
                elif not all(_cmp_vec(a, b) for a, b in zip(gs, Gs)):
                    fail('gradient', form, Gs, gs)
                elif not all(_cmp_mat(a, b) for a, b in zip(hs, Hs)):
                    fail('hessian', form, Hs, hs)
                elif not all(_symmetric(h) for h in hs):
                    fail('hessian-not-symmetric', form, None, hs)
                elif not all(_cmp_mat(a, b) for a, b in zip(bs, Bs)):
                    fail('bhhh-not-outer-product-of-gradients', form, Bs, bs)
            elif form == 'disagg_named':
                res = guard(form, lambda: expr.get_value_and_derivatives(
                    betas=betas_arg, database=db, gradient=True, hessian=True, bhhh=True, aggregation=False,
                    prepare_ids=True, named_results=True))
                if res is None:
                    continue
                mp = dict(res.mapping)
                if sorted(mp, key=lambda k: mp[k]) != free or sorted(mp.values()) != list(range(n)):
                    fail('named-mapping-not-sorted-free-names', form, free, mp)
                    continue
                fs = [float(v) for v in res.functions]
                gs = [[float(g[nm]) for nm in free] for g in res.gradients]
                hs = [[[float(h[a][b]) for b in free] for a in free] for h in res.hessians]
                bs = [[[float(h[a][b]) for b in free] for a in free] for h in res.bhhhs]
                rec.case(key, (tag, label, form, [round(v, 8) for v in fs]), outcome='ok')
                if not _cmp_vec(fs, F):
                    fail('value', form, F, fs)
                elif not all(_cmp_vec(a, b) for a, b in zip(gs, Gs)):
                    fail('gradient', form, Gs, gs)
                elif not all(_cmp_mat(a, b) for a, b in zip(hs, Hs)):
                    fail('hessian', form, Hs, hs)
                elif not all(_cmp_mat(a, b) for a, b in zip(bs, Bs)):
                    fail('bhhh-not-outer-product-of-gradients', form, Bs, bs)
            elif form in ('agg', 'agg_named'):
                named = form == 'agg_named'
                res = guard(form, lambda: expr.get_value_and_derivatives(
                    betas=betas_arg, database=db, gradient=True, hessian=True, bhhh=True, aggregation=True,
                    prepare_ids=True, named_results=named))
                if res is None:
                    continue
                if named:
                    mp = dict(res.mapping)
                    if sorted(mp, key=lambda k: mp[k]) != free or sorted(mp.values()) != list(range(n)):
                        fail('named-mapping-not-sorted-free-names', form, free, mp)
                        continue
                    g = [float(res.gradient[nm]) for nm in free]
                    h = [[float(res.hessian[a][b]) for b in free] for a in free]
                    bm = [[float(res.bhhh[a][b]) for b in free] for a in free]
                else:
                    g = list(map(float, res.gradient))
                    h = [list(map(float, r_)) for r_ in res.hessian]
                    bm = [list(map(float, r_)) for r_ in res.bhhh]
                f = float(res.function)
                rec.case(key, (tag, label, form, round(f, 8), [round(x, 7) for x in g]), outcome='ok')
                if not dclose(f, aggF):
                    fail('aggregated-value-not-sum', form, aggF, f)
                elif not _cmp_vec(g, aggG):
                    fail('aggregated-gradient-not-sum', form, aggG, g)
                elif not _cmp_mat(h, aggH):
                    fail('aggregated-hessian-not-sum', form, aggH, h)
                elif not _symmetric(h):
                    fail('hessian-not-symmetric', form, None, h)
                elif not _cmp_mat(bm, aggB):
                    fail('bhhh-not-sum-of-outer-products', form, aggB, bm)
            elif form == 'agg_named_in_model':
                # the formula is one of the formulas of a BIOGEME object whose other formula has parameters of its own (one
                # sorting before, one after the formula's): the named derivatives are asked with the model's numbering
                # (prepare_ids=False); every name must carry its own derivative, the foreign names zero
                import biogeme.expressions as ex
                from vf.engine import make_biogeme
                other = ex.Beta('AA_other_first', 0.5, None, None, 0) * ex.Variable(G.COLUMNS[0]) \
                    + ex.Beta('zz_other_last', -0.5, None, None, 0)
                res = guard(form, lambda: (make_biogeme(db, {'other': other, 'formula': expr}),
                                           expr.get_value_and_derivatives(
                    betas=betas_arg, database=db, gradient=True, hessian=True, bhhh=True, aggregation=True,
                    prepare_ids=False, named_results=True))[1])
                if res is None:
                    continue
                mp = dict(res.mapping)
                allnames = sorted(set(free) | {'AA_other_first', 'zz_other_last'})
                if sorted(mp, key=lambda k: mp[k]) != allnames:
                    fail('named-mapping-not-sorted-free-names', form, allnames, mp)
                    continue
                g = [float(res.gradient[nm]) for nm in free]
                h = [[float(res.hessian[a][b]) for b in free] for a in free]
                bm = [[float(res.bhhh[a][b]) for b in free] for a in free]
                foreign = [float(res.gradient[nm]) for nm in ('AA_other_first', 'zz_other_last')] + \
                    [float(res.hessian[a][b]) for a in ('AA_other_first', 'zz_other_last') for b in allnames]
                f = float(res.function)
                rec.case(key, (tag, label, form, round(f, 8), [round(x, 7) for x in g]), outcome='ok')
                if not dclose(f, aggF):
                    fail('aggregated-value-not-sum', form, aggF, f)
                elif not _cmp_vec(g, aggG):
                    fail('named-gradient-entry-not-the-derivative-for-that-name', form, aggG, g)
                elif not _cmp_mat(h, aggH):
                    fail('named-hessian-entry-not-the-derivative-for-that-name', form, aggH, h)
                elif not _cmp_mat(bm, aggB):
                    fail('bhhh-not-sum-of-outer-products', form, aggB, bm)
                elif any(v != 0.0 for v in foreign):
                    fail('derivative-for-a-parameter-the-formula-does-not-contain', form, 0.0, foreign)
            elif form in ('flags_g', 'flags_gb', 'flags_gh'):
                hh, bb = form == 'flags_gh', form == 'flags_gb'
                res = guard(form, lambda: expr.get_value_and_derivatives(
                    betas=betas_arg, database=db, gradient=True, hessian=hh, bhhh=bb, aggregation=True,
                    prepare_ids=True))
                if res is None:
                    continue
                rec.case(key, (tag, label, form, round(float(res.function), 8)), outcome='ok')
                if not dclose(float(res.function), aggF) or not _cmp_vec(list(map(float, res.gradient)), aggG):
                    fail('value-or-gradient', form, (aggF, aggG), (float(res.function), list(map(float, res.gradient))))
                if hh and not _cmp_mat([list(map(float, r_)) for r_ in res.hessian], aggH):
                    fail('hessian', form, aggH, [list(map(float, r_)) for r_ in res.hessian])
                if bb and not _cmp_mat([list(map(float, r_)) for r_ in res.bhhh], aggB):
                    fail('bhhh', form, aggB, repr(res.bhhh))
                if (not hh and res.hessian is not None) or (not bb and res.bhhh is not None):
                    fail('unrequested-quantity-returned', form, None, (repr(res.hessian)[:80], repr(res.bhhh)[:80]))
            elif form == 'create_function':
                if label != 'defaults':
                    continue

                def run():
                    fct = expr.create_function(database=db, number_of_draws=10, gradient=True, hessian=True, bhhh=True)
                    names = list(expr.id_manager.free_betas.names)
                    x = np.array([full[nm] for nm in names], dtype=float)
                    return names, fct(x)

                out = guard(form, run)
                if out is None:
                    continue
                names, res = out
                rec.case(key, (tag, label, form, names, round(float(res.function), 8)), outcome='ok')
                if names != free:
                    fail('reported-free-names-not-sorted', form, free, names)
                    continue
                g = [float(res.gradient[nm]) for nm in free]
                h = [[float(res.hessian[a][b]) for b in free] for a in free]
                bm = [[float(res.bhhh[a][b]) for b in free] for a in free]
                if not dclose(float(res.function), aggF) or not _cmp_vec(g, aggG) or not _cmp_mat(h, aggH) \
                        or not _cmp_mat(bm, aggB):
                    fail('create_function-output', form, (aggF, aggG, aggH, aggB), (float(res.function), g, h, bm))
            elif form == 'objective':
                if label != 'defaults':
                    continue

                def run2():
                    obj = expr.create_objective_function(database=db, number_of_draws=10)
                    names = list(expr.id_manager.free_betas.names)
                    x = np.array([full[nm] for nm in names], dtype=float)
                    obj.set_variables(x)
                    f0 = float(obj.f())
                    fg = obj.f_g()
                    fgh = obj.f_g_h()
                    return names, f0, fg, fgh

                out = guard(form, run2)
                if out is None:
                    continue
                names, f0, fg, fgh = out
                rec.case(key, (tag, label, form, round(f0, 8)), outcome='ok')
                if names != free:
                    fail('reported-free-names-not-sorted', form, free, names)
                    continue
                if not (dclose(f0, aggF) and dclose(float(fg.function), aggF) and dclose(float(fgh.function), aggF)):
                    fail('objective-value', form, aggF, (f0, float(fg.function), float(fgh.function)))
                elif not _cmp_vec(list(map(float, fg.gradient)), aggG) or not _cmp_vec(list(map(float, fgh.gradient)), aggG):
                    fail('objective-gradient', form, aggG, (list(map(float, fg.gradient)), list(map(float, fgh.gradient))))
                elif not _cmp_mat([list(map(float, r_)) for r_ in fgh.hessian], aggH):
                    fail('objective-hessian', form, aggH, [list(map(float, r_)) for r_ in fgh.hessian])
            elif form in ('biogeme', 'biogeme_scaled'):
                scaled = form == 'biogeme_scaled'

                def run3():
                    b = make_biogeme(db, expr)
                    names = list(b.free_beta_names)
                    x = np.array([full[nm] for nm in names], dtype=float)
                    return names, b.calculate_likelihood_and_derivatives(x, scaled=scaled, hessian=True, bhhh=True), \
                        float(b.database.get_sample_size())

                out = guard(form, run3)
                if out is None:
                    continue
                names, res, ssize = out
                div = ssize if scaled else 1.0
                rec.case(key, (tag, label, form, names, round(float(res.function), 8)), outcome='ok')
                if names != free:
                    fail('reported-free-names-not-sorted', form, free, names)
                    continue
                g = list(map(float, res.gradient))
                h = [list(map(float, r_)) for r_ in res.hessian]
                bm = [list(map(float, r_)) for r_ in res.bhhh]
                if not dclose(float(res.function), aggF / div):
                    fail('likelihood-value', form, aggF / div, float(res.function))
                elif not _cmp_vec(g, [x / div for x in aggG]):
                    fail('likelihood-gradient', form, [x / div for x in aggG], g)
                elif not _cmp_mat(h, [[x / div for x in r_] for r_ in aggH]):
                    fail('likelihood-hessian', form, aggH, h)
                elif not _cmp_mat(bm, [[x / div for x in r_] for r_ in aggB]):
                    fail('likelihood-bhhh', form, aggB, bm)

            elif form == 'biogeme_in_model':
                # the formula is the log likelihood of a model made of several formulas; another formula (for simulation)
                # brings two parameters of its own, one sorting before and one after every parameter of the alphabet.  The
                # vector is built from the names the model reports; entry i must belong to the i-th reported name.
                own = {'AA_other_first': 0.625, 'zz_other_last': -0.375}

                def run5():
                    import biogeme.expressions as ex
                    other = ex.Beta('AA_other_first', own['AA_other_first'], None, None, 0) * ex.Variable(G.COLUMNS[0]) \
                        + ex.exp(ex.Beta('zz_other_last', own['zz_other_last'], None, None, 0))
                    b = make_biogeme(db, {'simulated': other, 'log_like': expr})
                    names = list(b.free_beta_names)
                    if any(a >= c for a, c in zip(names, names[1:])) or not set(free) <= set(names) \
                            or not set(names) <= set(free) | set(own):
                        return names, None
                    x = np.array([own[nm] if nm in own else full[nm] for nm in names], dtype=float)
                    return names, b.calculate_likelihood_and_derivatives(x, scaled=False, hessian=True, bhhh=True)

                out = guard(form, run5)
                if out is None:
                    continue
                names, res = out
                rec.case(key, (tag, label, form, names, None if res is None else round(float(res.function), 8)), outcome='ok')
                if res is None:
                    fail('reported-free-names-not-sorted', form, sorted(set(free) | set(own)), names)
                    continue
                m_ = len(names)
                g_all = np.asarray(res.gradient, dtype=float)
                h_all = np.asarray(res.hessian, dtype=float)
                b_all = np.asarray(res.bhhh, dtype=float)
                if g_all.shape != (m_,) or h_all.shape != (m_, m_) or b_all.shape != (m_, m_):
                    fail('derivatives-size-differs-from-reported-names', form, names, (g_all.shape, h_all.shape, b_all.shape))
                    continue
                pos = [names.index(nm) for nm in free]
                oth = [i for i in range(m_) if names[i] not in free]
                g = [float(g_all[p]) for p in pos]
                h = [[float(h_all[p][q]) for q in pos] for p in pos]
                bm = [[float(b_all[p][q]) for q in pos] for p in pos]
                foreign = [float(g_all[i]) for i in oth] + [float(h_all[i][j]) for i in oth for j in range(m_)] + \
                    [float(h_all[j][i]) for i in oth for j in range(m_)] + [float(b_all[i][j]) for i in oth for j in range(m_)]
                if not dclose(float(res.function), aggF):
                    fail('likelihood-value', form, aggF, float(res.function))
                elif not _cmp_vec(g, aggG):
                    fail('gradient-entry-i-not-the-derivative-for-the-i-th-reported-name', form, dict(zip(free, aggG)),
                         dict(zip(names, map(float, g_all))))
                elif not _cmp_mat(h, aggH):
                    fail('likelihood-hessian', form, aggH, h)
                elif not _cmp_mat(bm, aggB):
                    fail('likelihood-bhhh', form, aggB, bm)
                elif any(v != 0.0 for v in foreign):
                    fail('derivative-for-a-parameter-the-formula-does-not-contain', form, 0.0, foreign)

            elif form == 'biogeme_history':
                if label != 'defaults':
                    continue

                def run4():
                    import biogeme.expressions as ex
                    b1 = make_biogeme(db, expr)
                    names = list(b1.free_beta_names)
                    x = np.array([full[nm] for nm in names], dtype=float)
                    r1 = b1.calculate_likelihood_and_derivatives(x, scaled=False, hessian=True, bhhh=True)
                    kept = [np.array(r1.gradient, dtype=float, copy=True), np.array(r1.hessian, dtype=float, copy=True),
                            np.array(r1.bhhh, dtype=float, copy=True)]
                    # 1. a later evaluation at another point must not change what an earlier call returned
                    b1.calculate_likelihood_and_derivatives(x * 0.5 + 0.0625, scaled=False, hessian=True, bhhh=True)
                    unchanged = (np.array_equal(kept[0], np.asarray(r1.gradient, dtype=float))
                                 and np.array_equal(kept[1], np.asarray(r1.hessian, dtype=float))
                                 and np.array_equal(kept[2], np.asarray(r1.bhhh, dtype=float)))
                    # 2. a second model re-uses the same expression object and adds a parameter that sorts first
                    extra = ex.Beta('A0_first', 0.25, None, None, 0)
                    b2 = make_biogeme(db, {'log_like': expr + extra})
                    b2.calculate_likelihood(np.array(b2.id_manager.free_betas_values, dtype=float), scaled=False)
                    r3 = b1.calculate_likelihood_and_derivatives(x, scaled=False, hessian=True, bhhh=True)
                    return names, unchanged, r3

                out = guard(form, run4)
                if out is None:
                    continue
                names, unchanged, r3 = out
                rec.case(key, (tag, label, form, unchanged, round(float(r3.function), 8)), outcome='ok')
                if not unchanged:
                    fail('earlier-output-changed-by-a-later-call', form, None, 'arrays returned by the first call were overwritten')
                g = list(map(float, r3.gradient))
                h = [list(map(float, r_)) for r_ in r3.hessian]
                bm = [list(map(float, r_)) for r_ in r3.bhhh]
                if names != free:
                    fail('reported-free-names-not-sorted', form, free, names)
                elif not dclose(float(r3.function), aggF) or not _cmp_vec(g, aggG):
                    fail('likelihood-gradient-after-a-second-model-was-built-on-the-same-formula', form, (aggF, aggG), (float(r3.function), g))
                elif not _cmp_mat(h, aggH):
                    fail('likelihood-hessian', form, aggH, h)
                elif not _cmp_mat(bm, aggB):
                    fail('likelihood-bhhh-after-a-second-model-was-built-on-the-same-formula', form, aggB, bm)


def _matches_pow2_quirk(term, free, rows, full, observed, clause, form):
    """True when the observed Hessian(s) equal the reference computed with the engine's known defect in
    PowerConstant(exponent 2) mimicked - and differ from the true one only through it."""
    try:
        n = len(free)
        Hq = []
        for (_, row, _, _, _) in rows:
            _, _, h = R.evaluate_hd(term, free, row, full, strict=False, quirks=('pow2_hessian',))
            Hq.append(h)
        agg = _sum_mat(Hq, n)
        obs = observed
        if clause == 'create_function-output':
            obs = observed[2]
        if isinstance(obs, str):
            return _parse_and_cmp(obs, agg)
        if form in ('disagg', 'disagg_named'):
            return all(_cmp_mat(a, b) for a, b in zip(obs, Hq))
        if form in ('biogeme_scaled',):
            return _cmp_mat(obs, [[x / len(rows) for x in r_] for r_ in agg])
        return _cmp_mat(obs, agg)
    except Exception:
        return False


def _parse_and_cmp(obs, agg):
    import re
    nums = [float(x) for x in re.findall(r'-?\d+\.?\d*(?:e[-+]?\d+)?', obs)]
    flat = [x for r_ in agg for x in r_]
    return len(nums) == len(flat) and all(dclose(a, b) for a, b in zip(nums, flat))


ALL_FORMS = ['disagg', 'disagg_named', 'agg', 'agg_named', 'agg_named_in_model', 'flags_g', 'flags_gb', 'flags_gh', 'create_function', 'objective',
             'biogeme', 'biogeme_scaled', 'biogeme_in_model', 'biogeme_history']


def triple_list():
    out = []
    for p, s, q in G.triples():
        out.append((p, s, q))
    return out


def pool():
    return [
        ('loglogit', ('var', 'choice'), ((1, ('*', ('beta', 'b_z'), ('var', 'x1')), None),
                                         (2, ('+', ('beta', 'b_a'), ('*', ('beta', 'B2'), ('var', 'x2'))), ('var', 'av2')),
                                         (3, ('*', ('beta', 'B2'), ('var', 'x1')), None))),
        ('-', ('*', ('beta', 'b10'), ('exp', ('*', ('beta', 'b_z'), ('var', 'x2')))), ('**', ('beta', 'b_a'), ('num', 2.0))),
        ('log', ('+', ('num', 1.0), ('**', ('*', ('beta', 'b_z'), ('var', 'x1')), ('num', 2.0)))),
        ('ncdf', ('+', ('*', ('beta', 'B2'), ('var', 'x2')), ('beta', 'b10'))),
    ]


def shared_av_terms():
    """Logit formulas in which ONE Variable object serves as availability (or choice) and also appears in a utility;
    the logit's own audit evaluates those parts on their own.  Columns x2 (position 0) and choice (position 1) sit at
    positions smaller than the number of free parameters."""
    x2v, chv, avv = ('var', 'x2'), ('var', 'choice'), ('var', 'av2')
    return [
        ('loglogit', ('var', 'choice'), ((1, ('*', ('beta', 'b_z'), x2v), None), (2, ('*', ('beta', 'B2'), ('var', 'x1')), x2v),
                                         (3, ('+', ('beta', 'b10'), ('*', ('beta', 'b_a'), x2v)), None))),
        ('loglogit', chv, ((1, ('*', ('beta', 'b_z'), chv), None), (2, ('*', ('beta', 'B2'), ('var', 'x1')), None),
                           (3, ('beta', 'b10'), None))),
        ('logit', ('var', 'choice'), ((1, ('*', ('beta', 'b_z'), ('var', 'x1')), None), (2, ('*', ('beta', 'B2'), avv), avv),
                                      (3, ('*', ('beta', 'b10'), ('var', 'x2')), None))),
    ]


def tasks(tier, seed):
    t = []
    tri = triple_list()
    chunk = 40
    rots = (0, 3)
    for rot in rots:
        for i in range(0, len(tri), chunk):
            t.append(dict(part='triple', lo=i, hi=min(i + chunk, len(tri)), rot=rot, tier=tier))
    t.append(dict(part='findiff'))
    for pi in range(len(pool())):
        nfd = len(list(_fd_space(tier, pi)))
        for lo in range(0, nfd, 8):
            t.append(dict(part='findiff_scaled', pool=pi, tier=tier, lo=lo, hi=min(lo + 8, nfd)))
        for config in MODEL_CONFIGS:
            t.append(dict(part='model_formulas', pool=pi, config=config))
    t.append(dict(part='named_api'))
    t.append(dict(part='integrate'))
    for pi in range(len(pool())):
        t.append(dict(part='function_history', pool=pi))
    t.append(dict(part='shared_av'))
    t.append(dict(part='nodb'))
    for i in range(3):
        t.append(dict(part='refusal', which=i, fresh=True))
    nld = len(_lindup_space(tier))
    for lo in range(0, nld, LINDUP_CHUNK):
        t.append(dict(part='lindup', tier=tier, lo=lo, hi=min(lo + LINDUP_CHUNK, nld)))
    if tier == 'thorough':
        n1 = len(list(G.trees(1)))
        for a in range(n1):
            t.append(dict(part='trees', first=a))
    return t


def forms_for(rot, tier):
    if rot == 0:
        return ALL_FORMS
    return ['disagg', 'disagg_named', 'agg', 'agg_named', 'agg_named_in_model'] if tier == 'quick' else ALL_FORMS


def run_task(task):
    rec = Rec()
    try:
        part = task['part']
        if part == 'triple':
            tri = triple_list()
            for idx in range(task['lo'], task['hi']):
                p, s, q = tri[idx]
                term = G.triple_term(p, s, q, task['rot'])
                if not differentiable_form(term):
                    rec.count('formulas_outside_differentiable_sublanguage')
                    continue
                tag = f'{p}[{G.slot_name(p, s)}]<-{q}/r{task["rot"]}'
                if idx == task['lo']:
                    rec.sample(dict(triple=tag, formula=R.show(term)))
                check_formula(term, rec, tag, f'{p}[{G.slot_name(p, s)}]',
                              dict(part='triple', p=p, s=s, q=q, rot=task['rot']), forms_for(task['rot'], task['tier']))
        elif part == 'trees':
            sub = list(G.trees(1))
            a = sub[task['first']]
            for u in G.UNARY:
                term = G.KINDS[u][1]([a])
                if differentiable_form(term):
                    check_formula(term, rec, f'tree:{R.show(term)}', f'tree-root:{u}', dict(part='tree', term=term),
                                  ['disagg', 'agg'])
            for b in G.BINARY:
                for c in sub:
                    term = G.KINDS[b][1]([a, c])
                    if differentiable_form(term):
                        check_formula(term, rec, f'tree:{R.show(term)}', f'tree-root:{b}', dict(part='tree', term=term),
                                      ['disagg', 'agg'])
        elif part == 'findiff':
            _findiff(rec)
        elif part == 'findiff_scaled':
            for sub, mag, signs in list(_fd_space(task['tier'], task['pool']))[task['lo']:task['hi']]:
                _findiff_scaled(rec, task['pool'], sub, mag, signs)
        elif part == 'model_formulas':
            for order in MODEL_ORDERS:
                for point in MODEL_POINTS:
                    _model_formulas(rec, task['pool'], task['config'], order, point)
        elif part == 'named_api':
            _named_api(rec)
        elif part == 'integrate':
            _integrate_derivatives(rec)
        elif part == 'function_history':
            _function_history(task, rec)
        elif part == 'shared_av':
            for i, term in enumerate(shared_av_terms()):
                check_formula(term, rec, f'shared-av#{i}', 'logit-with-a-variable-shared-by-availability-and-utility',
                              dict(part='shared_av'), ['disagg', 'disagg_named', 'agg', 'biogeme', 'biogeme_history'], share=True)
        elif part == 'nodb':
            _nodb(rec)
        elif part == 'refusal':
            _refusal(task, rec)
        elif part == 'lindup':
            _lindup(task, rec)
    except StopTask:
        rec.count('task_stopped_after_engine_error')
    return rec.result()




FH_OPS = ['fa', 'fb', 'bad', 'gd', 'gn', 'cf2', 'ob_f', 'ob_p']


def _function_history(task, rec):
    """Histories on one formula and the function made from it (create_function): every sequence of three operations over
    {call the function at point a, at point b, call it with a vector that is too long (refused), evaluate the formula with
    a dictionary of values and the numbering in place, evaluate it without values}.  Every accepted call must report value,
    gradient, Hessian and BHHH of the right shape and equal to the reference at the point it was asked for (for the
    evaluation without values: at one of the points supplied so far or the declared values).  Two more operations number
    ANOTHER formula for good - one that shares this formula's parameter objects under other ranks - through create_function
    (ob_f) or prepare (ob_p): the first function must keep answering for its own formula."""
    import numpy as np
    from biogeme.exceptions import BiogemeError
    from vf.engine import make_db
    term = pool()[task['pool']]
    free = sorted(b for b in R.leaves(term, 'beta') if b in G.FREE)
    n = len(free)
    base = dict(G.PARAMS)
    pts = {'init': dict(base), 'a': dict(base), 'b': dict(base), 'c': dict(base)}
    for k, nm in enumerate(free):
        pts['a'][nm] = base[nm] + 0.125 * (k + 1)
        pts['b'][nm] = base[nm] - 0.0625 * (k + 2)
        pts['c'][nm] = base[nm] * 0.5 + 0.25
    refs = {}
    rows_ok = None
    for pname, full in pts.items():
        rr = ref_rows(term, full, free, rec)
        idx = {r[0] for r in rr}
        rows_ok = idx if rows_ok is None else rows_ok & idx
    if not rows_ok:
        rec.count('function_history_no_common_valid_row')
        return
    keep = sorted(rows_ok)
    for pname, full in pts.items():
        rr = [r for r in ref_rows(term, full, free, rec) if r[0] in rows_ok]
        refs[pname] = (sum(r[2] for r in rr), _sum_vec([r[3] for r in rr], n), _sum_mat([r[4] for r in rr], n),
                       _sum_mat([[[gi * gj for gj in r[3]] for gi in r[3]] for r in rr], n))
    data = [G.ROWS[i] for i in keep]

    def judge(hist, step, what, res, candidates):
        f = float(res.function)
        g = np.asarray(res.gradient, dtype=float)
        h = np.asarray(res.hessian, dtype=float)
        bm = np.asarray(res.bhhh, dtype=float)
        case = dict(part='function_history', pool=task['pool'], history=list(hist[:step + 1]))
        if g.shape != (n,) or h.shape != (n, n) or bm.shape != (n, n):
            rec.violation(f'C02|derivatives-of-wrong-shape|function-history:{what}',
                          f'history {hist[:step + 1]}: shapes {g.shape}, {h.shape}, {bm.shape} for the {n} free parameters {free}', case)
            return False
        for cand in candidates:
            rf, rg, rh, rb = refs[cand]
            if dclose(f, rf) and _cmp_vec(list(g), rg) and _cmp_mat(h.tolist(), rh) and _cmp_mat(bm.tolist(), rb):
                return True
        rec.violation(f'C02|function-output-not-the-derivatives-at-the-requested-point|function-history:{what}',
                      f'history {hist[:step + 1]}: value {f}, gradient {g.tolist()} are not those of the reference at {candidates} '
                      f'(e.g. {refs[candidates[0]][0]}, {refs[candidates[0]][1]})', case)
        return False

    for hist in itertools.product(FH_OPS, repeat=3):
        if not any(o in ('bad', 'gd', 'gn', 'cf2', 'ob_f', 'ob_p') for o in hist) or hist[-1] in ('bad', 'ob_f', 'ob_p'):
            continue
        try:
            expr = R.Builder(G.betas_spec()).build(term)
            db = make_db(data, G.COLUMNS)
            fct = expr.create_function(database=db, number_of_draws=10, gradient=True, hessian=True, bhhh=True)
            names = list(expr.id_manager.free_betas.names)
        except Exception as e:
            rec.violation(f'C02|raised-{type(e).__name__}|function-history:create', str(e)[:200], dict(part='function_history', pool=task['pool']))
            return
        supplied = ['init']
        key = ('function_history', task['pool'], hist)
        ok = True
        fh_foreign = False
        cur_db = db      # the table of the numbering the formula carries now (a call of a function re-installs that function's own)
        for step, op in enumerate(hist):
            try:
                if op in ('fa', 'fb'):
                    p = op[1]
                    res = fct(np.array([pts[p][nm] for nm in names], dtype=float))
                    cur_db = db
                    fh_foreign = False
                    supplied.append(p)
                    ok = judge(hist, step, 'function-call', res.function_output if hasattr(res, 'function_output') else res, [p]) and ok
                elif op == 'bad':
                    try:
                        fct(np.array([pts['c'][nm] for nm in names] + [0.5], dtype=float))
                        rec.count('function_history_too_long_vector_accepted')
                    except BiogemeError:
                        pass
                elif op == 'cf2':
                    # a second function made from the same formula for another Database object holding the same rows with its
                    # columns in the reverse order; it is called at point b (the first function stays in use afterwards)
                    db2 = make_db(data, list(reversed(G.COLUMNS)))
                    fct2 = expr.create_function(database=db2, number_of_draws=10, gradient=True, hessian=True, bhhh=True)
                    res = fct2(np.array([pts['b'][nm] for nm in names], dtype=float))
                    cur_db = db2
                    supplied.append('b')
                    ok = judge(hist, step, 'second-function-on-a-table-with-other-column-order',
                               res.function_output if hasattr(res, 'function_output') else res, ['b']) and ok
                elif op in ('ob_f', 'ob_p'):
                    # ANOTHER formula that shares the parameter objects of this one (and brings one more, whose name sorts before
                    # all of them, so that every shared parameter has another rank there) is numbered for good: a function is made
                    # from it and called (ob_f), or it is prepared (ob_p).  The first function stays in use afterwards; the formula
                    # itself is then evaluated with the numbering left in place only through its own function (cur_db unchanged:
                    # 'gd' / 'gn' after this step are given the numbering back by a call of the function first - not enumerated).
                    import biogeme.expressions as ex
                    from biogeme.expressions.elementary_types import TypeOfElementaryExpression as T
                    shared_b = expr.dict_of_elementary_expression(T.FREE_BETA)
                    other = ex.Beta('A0_first', 0.25, None, None, 0) * ex.Variable(G.COLUMNS[0])
                    for nm in sorted(shared_b):
                        other = other + shared_b[nm] * 0.5
                    if op == 'ob_f':
                        f_o = other.create_function(database=db, number_of_draws=10, gradient=True, hessian=False, bhhh=False)
                        onames = list(other.id_manager.free_betas.names)
                        f_o(np.array([0.1 * (k + 1) for k in range(len(onames))], dtype=float))
                    else:
                        other.prepare(database=db, number_of_draws=10)
                    fh_foreign = True
                elif op in ('gd', 'gn') and fh_foreign:
                    rec.count('function_history_formula_evaluation_after_a_foreign_numbering_not_enumerated')
                elif op == 'gd':
                    res = expr.get_value_and_derivatives(betas={nm: pts['c'][nm] for nm in names}, database=cur_db, gradient=True, hessian=True,
                                                         bhhh=True, aggregation=True, prepare_ids=False)
                    supplied.append('c')
                    ok = judge(hist, step, 'formula-with-dictionary', res, ['c']) and ok
                else:
                    res = expr.get_value_and_derivatives(database=cur_db, gradient=True, hessian=True, bhhh=True, aggregation=True,
                                                         prepare_ids=False)
                    ok = judge(hist, step, 'formula-without-values', res, list(dict.fromkeys(reversed(supplied)))) and ok
            except Exception as e:
                rec.violation(f'C02|raised-{type(e).__name__}|function-history:{op}', f'history {hist[:step + 1]}: {str(e)[:200]}',
                              dict(part='function_history', pool=task['pool'], history=list(hist[:step + 1])))
                ok = False
                from vf.engine import is_engine_error
                if is_engine_error(e):
                    rec.retire = True
                    return
                break
        rec.case(key, (task['pool'], hist, ok), outcome=('function-history', ok))


def _integrate_derivatives(rec):
    """Derivatives of a numerical integral: Integrate(exp(c * omega) * phi(omega), omega) = exp(c^2 / 2) with c linear in one,
    two or three free parameters (closed form: gradient c f a, Hessian f (1 + c^2) a a^T, a = dc/dparameters), every row,
    two parameter points, per observation."""
    import math
    import biogeme.expressions as ex
    from vf.engine import make_db
    rows = [dict(x=1.0), dict(x=2.0), dict(x=0.5)]
    db = make_db(rows, ['x'])
    coef = [lambda x: 0.1 * x, lambda x: 0.2, lambda x: 0.05 * x * x]
    for npar in (1, 2, 3):
        names = ['ia', 'ib', 'ic'][:npar]
        for pi, vals in enumerate(([0.5, -0.75, 0.25], [-0.25, 0.5, 1.0])):
            vals = vals[:npar]
            betas = [ex.Beta(nm, v, None, None, 0) for nm, v in zip(names, vals)]
            om = ex.RandomVariable('omega')
            c_expr = betas[0] * ex.Variable('x') * 0.1
            if npar >= 2:
                c_expr = c_expr + betas[1] * 0.2
            if npar >= 3:
                c_expr = c_expr + betas[2] * ex.Variable('x') * ex.Variable('x') * 0.05
            phi = ex.exp(-0.5 * om * om) * (1.0 / math.sqrt(2.0 * math.pi))
            expr = ex.Integrate(ex.exp(c_expr * om) * phi, 'omega')
            case = dict(part='integrate', npar=npar, point=pi)
            key = ('integrate', npar, pi)
            try:
                res = expr.get_value_and_derivatives(database=db, gradient=True, hessian=True, bhhh=True, aggregation=False, prepare_ids=True)
                fs = [float(v) for v in res.functions]
                gs = [[float(v) for v in g] for g in res.gradients]
                hs = [[[float(v) for v in r_] for r_ in h] for h in res.hessians]
            except Exception as e:
                rec.case(key, ('raised', type(e).__name__), outcome='raised')
                rec.violation(f'C02|raised-{type(e).__name__}|integrate', f'{npar} parameters: {str(e)[:200]}', case)
                return
            rec.case(key, (npar, pi, [round(v, 8) for v in fs]), outcome=('integrate', npar))
            for ri, row in enumerate(rows):
                a = [coef[k](row['x']) for k in range(npar)]
                c = sum(ak * vk for ak, vk in zip(a, vals))
                f = math.exp(c * c / 2.0)
                wg = [c * f * ak for ak in a]
                wh = [[f * (1.0 + c * c) * ai * aj for aj in a] for ai in a]

                def ok(u, w):
                    return abs(u - w) <= 1e-6 * max(1.0, abs(w))
                if not ok(fs[ri], f):
                    rec.violation('C02|value|integrate', f'{npar} parameters, row {ri}: value {fs[ri]} expected {f}', case)
                elif not all(ok(u, w) for u, w in zip(gs[ri], wg)):
                    rec.violation('C02|gradient|integrate', f'{npar} parameters, row {ri}: gradient {gs[ri]} expected {wg}', case)
                elif not all(ok(u, w) for ru, rw in zip(hs[ri], wh) for u, w in zip(ru, rw)):
                    rec.violation('C02|hessian|engine:Integrate-with-two-or-more-free-parameters' if npar >= 2 else 'C02|hessian|integrate',
                                  f'{npar} parameters, row {ri}: Hessian {hs[ri]} expected {wh}', case, expected=wh, observed=hs[ri])


def _named_api(rec):
    """The classes that attach names to derivatives (function_output.convert_to_dict, NamedFunctionOutput,
    NamedBiogemeFunctionOutput, NamedBiogemeDisaggregateFunctionOutput) given every name->index mapping over 3 (and partial
    ones over 4) positions: every insertion order of the dictionary x every assignment of indices.  Entry `name` must be
    the array entry at the index the mapping stores for that name - the dictionary's own order is irrelevant."""
    import numpy as np
    import itertools
    import biogeme.function_output as fo
    names = ['scale', 'asc', 'b_time']
    n = 4
    g = np.array([1.5, -2.25, 3.125, 7.0])
    h = np.array([[(i + 1) * 10.0 + (j + 1) for j in range(n)] for i in range(n)])
    bh = h * 0.5 + 100.0
    for k in (3, 2):
        for idx in itertools.permutations(range(n), k):
            for order in itertools.permutations(range(k)):
                mapping = {names[i]: idx[i] for i in order}
                case = dict(part='named_api', mapping=list(mapping.items()))
                key = ('named_api', tuple(mapping.items()))
                try:
                    d = fo.convert_to_dict(list(g), dict(mapping))
                    out = fo.NamedBiogemeFunctionOutput(
                        fo.BiogemeFunctionOutput(function=1.0, gradient=g.copy(), hessian=h.copy(), bhhh=bh.copy()), dict(mapping))
                    dis = fo.NamedBiogemeDisaggregateFunctionOutput(
                        fo.BiogemeDisaggregateFunctionOutput(functions=np.array([1.0, 2.0]), gradients=np.array([g, 2 * g]),
                                                             hessians=np.array([h, 2 * h]), bhhhs=np.array([bh, 2 * bh])), dict(mapping))
                except Exception as e:
                    rec.case(key, ('raised', type(e).__name__), outcome='raised')
                    rec.violation(f'C02|named-output-raised-{type(e).__name__}|named-api', f'mapping {mapping}: {str(e)[:200]}', case)
                    continue
                rec.case(key, (tuple(mapping.items()), tuple(sorted(d.items()))), outcome=('named', k))
                ok = all(d[nm] == g[i] and out.gradient[nm] == g[i] and dis.gradients[1][nm] == 2 * g[i] for nm, i in mapping.items())
                ok = ok and all(out.hessian[a][b] == h[i][j] and out.bhhh[a][b] == bh[i][j] and dis.hessians[1][a][b] == 2 * h[i][j]
                                and dis.bhhhs[0][a][b] == bh[i][j]
                                for a, i in mapping.items() for b, j in mapping.items())
                if not ok:
                    rec.violation('C02|named-entry-not-the-array-entry-at-the-index-of-that-name|named-api',
                                  f'mapping {mapping} on gradient {list(g)}: convert_to_dict -> {d}, named gradient {out.gradient}', case)


def _findiff(rec):
    """The finite-difference self-check offered to users agrees with the reference derivatives."""
    for pi, term in enumerate(pool()):
        # two points: the declared values, and a point made of whole numbers handed over with an integer dtype (what
        # np.asarray([1, 1]) gives; BIOGEME.likelihood_finite_difference_hessian passes np.asarray(x) on as it is)
        for point in ('declared', 'integers'):
            _findiff_one(rec, pi, term, point)


def _findiff_one(rec, pi, term, point):
    import numpy as np
    from vf.engine import make_db
    import biogeme.tools.derivatives as td
    free = sorted(b for b in R.leaves(term, 'beta') if b in G.FREE)
    full = dict(G.PARAMS)
    if point == 'integers':
        full.update({nm: 1.0 for nm in free})
    rows = ref_rows(term, full, free, rec)
    if not rows:
        return
    tag = f'pool{pi}' + ('' if point == 'declared' else '|integer-dtype-point')
    n = len(free)
    aggF = sum(r[2] for r in rows)
    aggG = _sum_vec([r[3] for r in rows], n)
    aggH = _sum_mat([r[4] for r in rows], n)
    db = make_db([r[1] for r in rows], G.COLUMNS)
    expr = R.Builder(G.betas_spec()).build(term)
    fct = expr.create_function(database=db, number_of_draws=10, gradient=True, hessian=True, bhhh=False)
    names = list(expr.id_manager.free_betas.names)
    if point == 'declared':
        x = np.array([full[nm] for nm in names], dtype=float)
    else:
        x = np.asarray([int(full[nm]) for nm in names])

    def f_only(xx):
        return fct(xx).function_output

    case = dict(part='findiff', pool=pi, point=point)
    try:
        g_fd = td.findiff_g(f_only, x)
        h_fd = td.findiff_h(f_only, x)
        out = td.check_derivatives(f_only, x, names=names, logg=False)
    except Exception as e:
        rec.violation(f'C02|findiff-raised-{type(e).__name__}|{tag}', f'{type(e).__name__}: {e}', case)
        return
    rec.case(('findiff', pi, point), (pi, [round(float(v), 5) for v in g_fd]), outcome='ok')

    def fclose(a, b):
        return abs(a - b) <= 1e-4 * max(1.0, abs(a), abs(b))

    if not all(fclose(float(a), b) for a, b in zip(g_fd, aggG)):
        rec.violation(f'C02|findiff_g-disagrees-with-reference|{tag}', f'{list(g_fd)} vs {aggG}', case,
                      expected=aggG, observed=list(map(float, g_fd)))
    if not all(fclose(float(h_fd[i][j]), aggH[i][j]) for i in range(n) for j in range(n)):
        rec.violation(f'C02|findiff_h-disagrees-with-reference|{tag}', f'{h_fd} vs {aggH}', case,
                      expected=aggH, observed=repr(h_fd))
    f0, g0, h0, gdiff, hdiff = out
    if not dclose(float(f0), aggF) or not _cmp_vec(list(map(float, g0)), aggG):
        rec.violation(f'C02|check_derivatives-analytical-part|{tag}', 'f/g returned by check_derivatives differ from the reference',
                      case, expected=(aggF, aggG), observed=(float(f0), list(map(float, g0))))
    if not all(abs(float(d)) <= 1e-4 * max(1.0, abs(w)) for d, w in zip(gdiff, aggG)):
        rec.violation(f'C02|check_derivatives-gdiff-not-small|{tag}', f'gdiff={list(gdiff)}', case,
                      observed=list(map(float, gdiff)))


# ------------------------------------------------------------------ models made of several formulas
# parameters that only the *other* formulas of a model contain: one sorting before every parameter of the alphabet, one
# between them ('B2' < 'b10' < 'b5_own_mid' < 'b_a' < 'b_z' in ASCII order), one after them; and a fixed one
OWN = {'A0_own_first': 0.375, 'b5_own_mid': -0.625, 'zz_own_last': 0.875}
OWN_FIXED = ('A1_own_fixed', 1.75)
# configuration -> (list of extra formulas, each a tuple of own-parameter names ('@reuse' = only a parameter of the log
#                   likelihood, '@fixed' = a fixed parameter of its own), weight formula or None)
MODEL_CONFIGS = {
    'dict-of-one-formula': ([], None),
    'other-formula-reusing-a-parameter': ([('@reuse',)], None),
    'other-formula-with-a-fixed-parameter-of-its-own': ([('@fixed', '@reuse')], None),
    'other-formula-with-own-parameter-sorting-first': ([('A0_own_first', '@reuse')], None),
    'other-formula-with-own-parameter-sorting-in-between': ([('b5_own_mid',)], None),
    'other-formula-with-own-parameter-sorting-last': ([('zz_own_last', '@reuse')], None),
    'two-other-formulas-with-own-parameters': ([('zz_own_last', 'A0_own_first'), ('b5_own_mid', '@reuse')], None),
    'weight': ([], 'var'),
    'weight-and-other-formula-with-own-parameters': ([('A0_own_first', 'zz_own_last')], 'var'),
    'weight-with-a-fixed-parameter': ([('b5_own_mid',)], 'fixed'),
}
MODEL_ORDERS = ('likelihood-first', 'likelihood-last')
MODEL_POINTS = ('declared', 'shifted')


def _model_formulas(rec, pi, config, order, point):
    """A BIOGEME object built from a dictionary of formulas: the log likelihood, and other formulas (for simulation; the
    weight) that bring parameters of their own into the model, sorting before / between / after those of the log
    likelihood.  The vector is built from the list of names the object reports; entry i of what
    calculate_likelihood_and_derivatives (scaled or not) and check_derivatives return must be the derivative of the
    reported value with respect to the i-th reported name (zero for a parameter the log likelihood does not contain)."""
    import numpy as np
    import biogeme.expressions as ex
    from vf.engine import make_db, make_biogeme, is_engine_error
    term = pool()[pi]
    free = sorted(b for b in R.leaves(term, 'beta') if b in G.FREE)
    extras, weight = MODEL_CONFIGS[config]
    values = dict(G.PARAMS)
    values.update(OWN)
    if point == 'shifted':
        for k, nm in enumerate(sorted(values)):
            if nm not in G.FIXED:
                values[nm] = values[nm] + 0.0625 * (k + 1) * (1 if k % 2 else -1)
    rows = ref_rows(term, values, free, rec)
    case = dict(part='model_formulas', pool=pi, config=config, order=order, point=point)
    key = ('model_formulas', pi, config, order, point)
    if not rows:
        rec.case(None, key + ('no-row',), outcome='no-valid-row')
        return
    wcol = 'x1'   # positive in every table
    wfix = 2.0
    ws = [1.0 if weight is None else (r[1][wcol] if weight == 'var' else r[1][wcol] * wfix) for r in rows]
    n = len(free)
    aggF = sum(w * r[2] for w, r in zip(ws, rows))
    aggG = [sum(w * r[3][i] for w, r in zip(ws, rows)) for i in range(n)]
    aggH = [[sum(w * r[4][i][j] for w, r in zip(ws, rows)) for j in range(n)] for i in range(n)]
    aggB = _sum_mat([_outer(r[3]) for r in rows], n) if weight is None else None
    nz = any(x != 0.0 for x in aggG)
    db = make_db([r[1] for r in rows], G.COLUMNS)

    def fail(clause, expected=None, observed=None, what=''):
        rec.violation(f'C02|{clause}|model-of-several-formulas:{config}',
                      f'{clause} for a model {{{order}}} whose log likelihood is {R.show(term)} ({point} values){what}',
                      case, expected=expected, observed=observed)

    def build():
        loglike = R.Builder(G.betas_spec()).build(term)
        others = {}
        for k, spec in enumerate(extras):
            f = ex.Variable(G.COLUMNS[0]) * 0.5
            for j, nm in enumerate(spec):
                if nm == '@reuse':
                    v = G.PARAMS[free[(k + j) % n]]
                    b = ex.Beta(free[(k + j) % n], v, None, None, 0)
                elif nm == '@fixed':
                    b = ex.Beta(OWN_FIXED[0], OWN_FIXED[1], None, None, 1)
                else:
                    b = ex.Beta(nm, OWN[nm], None, None, 0)
                f = f + b * ex.Variable('x1') if j % 2 == 0 else f * ex.exp(b * 0.25)
            others[f'simulated_{k}'] = f
        if weight == 'var':
            others['weight'] = ex.Variable(wcol)
        elif weight == 'fixed':
            others['weights'] = ex.Variable(wcol) * ex.Beta('A2_weight_fixed', wfix, None, None, 1)
        if order == 'likelihood-first':
            d = {'log_like': loglike}
            d.update(others)
        else:
            d = dict(others)
            d['loglike'] = loglike
        return make_biogeme(db, d)

    try:
        b = build()
        names = list(b.free_beta_names)
    except Exception as e:
        rec.case(key, key + (type(e).__name__,), outcome='raised')
        fail(f'raised-{type(e).__name__}', observed=repr(e)[:300], what=': building the model')
        if is_engine_error(e):
            rec.retire = True
            raise StopTask()
        return
    own_expected = sorted({nm for spec in extras for nm in spec if not nm.startswith('@')})
    rec.case(key if nz else None, key + (tuple(names),), outcome=('model', len(names) - n))
    if any(a >= c for a, c in zip(names, names[1:])) or not set(free) <= set(names):
        fail('reported-free-names-not-sorted-or-without-a-parameter-of-the-likelihood', sorted(set(free) | set(own_expected)), names)
        return
    unknown = [nm for nm in names if nm not in values or nm in G.FIXED]
    if unknown:
        fail('reported-free-names-contain-a-name-that-is-no-free-parameter', sorted(set(free) | set(own_expected)), names)
        return
    x = np.array([values[nm] for nm in names], dtype=float)
    m = len(names)
    pos = [names.index(nm) for nm in free]
    foreign = [i for i in range(m) if names[i] not in free]

    def embed_vec(v, div):
        out = [0.0] * m
        for i, p in enumerate(pos):
            out[p] = v[i] / div
        return out

    def embed_mat(mt, div):
        out = [[0.0] * m for _ in range(m)]
        for i, p in enumerate(pos):
            for j, q in enumerate(pos):
                out[p][q] = mt[i][j] / div
        return out

    ssize = float(len(rows))
    for scaled in (False, True):
        form = 'scaled' if scaled else 'unscaled'
        div = ssize if scaled else 1.0
        try:
            res = b.calculate_likelihood_and_derivatives(x, scaled=scaled, hessian=True, bhhh=True)
            f = float(res.function)
            g = np.asarray(res.gradient, dtype=float)
            h = np.asarray(res.hessian, dtype=float)
            bm = np.asarray(res.bhhh, dtype=float)
        except Exception as e:
            fail(f'raised-{type(e).__name__}', observed=repr(e)[:300],
                 what=f': calculate_likelihood_and_derivatives ({form}) refuses the vector built from the {m} reported names {names}')
            if is_engine_error(e):
                rec.retire = True
                raise StopTask()
            return
        if g.shape != (m,) or h.shape != (m, m) or bm.shape != (m, m):
            fail('derivatives-size-differs-from-reported-names', names, (g.shape, h.shape, bm.shape), what=f' [{form}]')
            return
        if not dclose(f, aggF / div):
            fail('likelihood-value', aggF / div, f, what=f' [{form}]')
        elif not _cmp_vec(list(g), embed_vec(aggG, div)):
            fail('gradient-entry-i-not-the-derivative-for-the-i-th-reported-name', dict(zip(names, embed_vec(aggG, div))),
                 dict(zip(names, map(float, g))), what=f' [{form}]')
        elif not _cmp_mat(h.tolist(), embed_mat(aggH, div)):
            if not _matches_pow2_quirk_model(term, free, rows, ws, values, h.tolist(), pos, m, div):
                fail('hessian-entry-ij-not-the-derivative-for-the-reported-names', embed_mat(aggH, div), h.tolist(), what=f' [{form}]')
        elif not _symmetric(h.tolist()):
            fail('hessian-not-symmetric', None, h.tolist(), what=f' [{form}]')
        elif aggB is not None and not _cmp_mat(bm.tolist(), embed_mat(aggB, div)):
            fail('bhhh-not-sum-of-outer-products', embed_mat(aggB, div), bm.tolist(), what=f' [{form}]')
        elif aggB is None and (not _symmetric(bm.tolist()) or any(bm[i][j] != 0.0 for i in foreign for j in range(m))):
            fail('bhhh-not-symmetric-or-non-zero-for-a-parameter-the-likelihood-does-not-contain', None, bm.tolist(), what=f' [{form}]')
    # the model's own self-check and its value-only entry point, at the same vector
    try:
        f1 = float(b.calculate_likelihood(x, scaled=False))
        f0, g0, h0, gdiff, hdiff = b.check_derivatives(x)
        g0 = np.asarray(g0, dtype=float)
        gdiff = np.asarray(gdiff, dtype=float)
    except Exception as e:
        fail(f'raised-{type(e).__name__}', observed=repr(e)[:300], what=': calculate_likelihood / check_derivatives at the vector '
             f'built from the reported names {names}')
        if is_engine_error(e):
            rec.retire = True
            raise StopTask()
        return
    if not dclose(f1, aggF) or not dclose(float(f0), aggF):
        fail('likelihood-value', aggF, (f1, float(f0)), what=' [calculate_likelihood / check_derivatives]')
    elif g0.shape != (m,) or gdiff.shape != (m,) or not _cmp_vec(list(g0), embed_vec(aggG, 1.0)):
        fail('gradient-entry-i-not-the-derivative-for-the-i-th-reported-name', dict(zip(names, embed_vec(aggG, 1.0))),
             list(map(float, g0)), what=' [check_derivatives]')
    else:
        S = max([1.0, abs(aggF)] + [abs(v) * max(1.0, abs(values[nm])) for v, nm in zip(aggG, free)])
        if any(abs(float(d)) * max(1.0, abs(float(xi))) > 1e-4 * S for d, xi in zip(gdiff, x)):
            fail('check_derivatives-gdiff-not-small', None, list(map(float, gdiff)), what=' [check_derivatives]')


def _matches_pow2_quirk_model(term, free, rows, ws, values, observed, pos, m, div):
    """The engine's known PowerConstant(2) defect, mimicked (see _matches_pow2_quirk)."""
    try:
        n = len(free)
        agg = [[0.0] * m for _ in range(m)]
        for w, (_, row, _, _, _) in zip(ws, rows):
            _, _, h = R.evaluate_hd(term, free, row, values, strict=False, quirks=('pow2_hessian',))
            for i in range(n):
                for j in range(n):
                    agg[pos[i]][pos[j]] += w * h[i][j] / div
        return _cmp_mat(observed, agg)
    except Exception:
        return False


# ------------------------------------------------------------------ finite differences at points of every magnitude and sign
FD_MAGNITUDES_QUICK = (1.0, 1e3, 1e6, 1e9, 1e12)
FD_MAGNITUDES_THOROUGH = (1.0, 1e1, 1e2, 1e3, 1e4, 1e5, 1e6, 1e7, 1e8, 1e9, 1e10, 1e11, 1e12, 1e13, 1e14, 1e15)


def _fd_space(tier, pi):
    """(scaled parameters, magnitude, signs): one parameter of the formula - in the thorough tier also every pair - is
    expressed in another unit (the formula multiplies it by 1/magnitude, its value is sign * magnitude * |declared value|)."""
    term = pool()[pi]
    free = sorted(b for b in R.leaves(term, 'beta') if b in G.FREE)
    mags = FD_MAGNITUDES_QUICK if tier == 'quick' else FD_MAGNITUDES_THOROUGH
    subsets = [(p,) for p in free]
    if tier != 'quick':
        subsets += list(itertools.combinations(free, 2))
    for sub in subsets:
        for mag in mags:
            for signs in itertools.product((1, -1), repeat=len(sub)):
                yield list(sub), mag, list(signs)


def _findiff_scaled(rec, pi, scaled_params, mag, signs):
    """The finite-difference tools (tools.derivatives.findiff_g / findiff_h / check_derivatives on the function made from a
    formula; BIOGEME.check_derivatives and BIOGEME.likelihood_finite_difference_hessian on a model) at a point where some
    parameters are large or small, positive or negative.  Oracle, in the dimensionless coordinates t_i = x_i / max(1, |x_i|):
    the finite-difference gradient and Hessian agree with the exact ones within 1e-4 of the largest dimensionless quantity
    (what a forward difference with a step of the order of sqrt(machine precision) relative to the size of each parameter
    achieves with a margin of three orders of magnitude), and the discrepancies reported by the self-checks for these
    exact derivatives are that small."""
    import numpy as np
    from vf.engine import make_db, make_biogeme, is_engine_error
    import biogeme.tools.derivatives as td
    base = pool()[pi]
    free = sorted(b for b in R.leaves(base, 'beta') if b in G.FREE)
    n = len(free)
    values = dict(G.PARAMS)
    mapping = {}
    for p, sg in zip(scaled_params, signs):
        mapping[('beta', p)] = ('*', ('num', 1.0 / mag), ('beta', p))
        values[p] = sg * mag * abs(G.PARAMS[p])
    term = R.subst(base, mapping) if mag != 1.0 else base
    if mag == 1.0:
        mapping = {}
    rows = ref_rows(term, values, free, rec)
    label = '/'.join(f'{p}:{"+" if sg > 0 else "-"}' for p, sg in zip(scaled_params, signs)) + f'@{mag:g}'
    key = ('findiff_scaled', pi, label)
    case = dict(part='findiff_scaled', pool=pi, params=list(scaled_params), mag=mag, signs=list(signs))
    if not rows:
        rec.case(None, key + ('no-row',), outcome='no-valid-row')
        return
    aggF = sum(r[2] for r in rows)
    aggG = _sum_vec([r[3] for r in rows], n)
    aggH = _sum_mat([r[4] for r in rows], n)
    sc = [max(1.0, abs(values[nm])) for nm in free]
    Gd = [aggG[i] * sc[i] for i in range(n)]
    Hd = [[aggH[i][j] * sc[i] * sc[j] for j in range(n)] for i in range(n)]
    S = max([1.0, abs(aggF)] + [abs(v) for v in Gd] + [abs(v) for r_ in Hd for v in r_])
    tol = 1e-4 * S
    sign_class = 'negative' if any(sg < 0 for sg in signs) else 'positive'
    mag_class = 'ordinary-magnitude' if mag == 1.0 else 'large-magnitude'
    wit = f'{sign_class}-parameter-of-{mag_class}'
    nzk = key if any(v != 0.0 for v in aggG) else None

    def fail(clause, entry, expected=None, observed=None):
        rec.violation(f'C02|{clause}|{entry}:{wit}',
                      f'{clause} [{entry}] for {R.show(term)} at {dict((nm, values[nm]) for nm in free)}; in dimensionless '
                      f'coordinates the tolerance is {tol:.3g}', case, expected=expected, observed=observed)

    def g_ok(gv):
        return len(gv) == n and all(math.isfinite(float(a)) and abs(float(a) - w) * s <= tol for a, w, s in zip(gv, aggG, sc))

    def h_ok(hv):
        return all(math.isfinite(float(hv[i][j])) and abs(float(hv[i][j]) - aggH[i][j]) * sc[i] * sc[j] <= tol
                   for i in range(n) for j in range(n))

    db = make_db([r[1] for r in rows], G.COLUMNS)
    # 1. the function made from the formula
    try:
        expr = R.Builder(G.betas_spec()).build(term)
        fct = expr.create_function(database=db, number_of_draws=10, gradient=True, hessian=True, bhhh=False)
        names = list(expr.id_manager.free_betas.names)
        x = np.array([values[nm] for nm in names], dtype=float)

        def f_only(xx):
            return fct(xx).function_output

        g_fd = td.findiff_g(f_only, x)
        h_fd = td.findiff_h(f_only, x)
        f0, g0, h0, gdiff, hdiff = td.check_derivatives(f_only, x, names=names, logg=False)
    except Exception as e:
        rec.case(nzk, key + ('raised', type(e).__name__), outcome='raised')
        fail(f'findiff-raised-{type(e).__name__}', 'tools.derivatives', observed=repr(e)[:300])
        if is_engine_error(e):
            rec.retire = True
            raise StopTask()
        return
    rec.case(nzk, key + ([float(f'{float(v) * s:.4g}') for v, s in zip(g_fd, sc)],), outcome=('findiff', mag_class, sign_class))
    if names != free:
        fail('reported-free-names-not-sorted', 'create_function', free, names)
        return
    exact_ok = dclose(float(f0), aggF) and all(abs(float(a) - w) * s <= 1e-8 * S for a, w, s in zip(g0, aggG, sc)) \
        and all(abs(float(h0[i][j]) - aggH[i][j]) * sc[i] * sc[j] <= 1e-8 * S for i in range(n) for j in range(n))
    if not exact_ok:
        if not _matches_pow2_quirk(term, free, rows, values, [list(map(float, r_)) for r_ in h0], 'hessian', 'agg'):
            fail('check_derivatives-analytical-part', 'tools.derivatives', (aggF, aggG, aggH),
                 (float(f0), list(map(float, g0)), [list(map(float, r_)) for r_ in h0]))
        return
    if not g_ok(g_fd):
        fail('findiff_g-disagrees-with-the-exact-gradient', 'tools.derivatives', aggG, list(map(float, g_fd)))
    if not h_ok(h_fd):
        fail('findiff_h-disagrees-with-the-exact-hessian', 'tools.derivatives', aggH, [list(map(float, r_)) for r_ in h_fd])
    if not all(abs(float(d)) * s <= tol for d, s in zip(gdiff, sc)):
        fail('check_derivatives-gdiff-not-small', 'tools.derivatives', None, list(map(float, gdiff)))
    if not all(abs(float(hdiff[i][j])) * sc[i] * sc[j] <= tol for i in range(n) for j in range(n)):
        fail('check_derivatives-hdiff-not-small', 'tools.derivatives', None, [list(map(float, r_)) for r_ in hdiff])
    # 2. the same formula as the log likelihood of a model
    try:
        b = make_biogeme(db, R.Builder(G.betas_spec()).build(term))
        bnames = list(b.free_beta_names)
        xb = np.array([values[nm] for nm in bnames], dtype=float)
        bf0, bg0, bh0, bgdiff, bhdiff = b.check_derivatives(xb)
        bh_fd = b.likelihood_finite_difference_hessian(xb)
    except Exception as e:
        fail(f'findiff-raised-{type(e).__name__}', 'BIOGEME', observed=repr(e)[:300])
        if is_engine_error(e):
            rec.retire = True
            raise StopTask()
        return
    if bnames != free:
        fail('reported-free-names-not-sorted', 'BIOGEME', free, bnames)
        return
    if not all(abs(float(d)) * s <= tol for d, s in zip(bgdiff, sc)):
        fail('check_derivatives-gdiff-not-small', 'BIOGEME.check_derivatives', None, list(map(float, bgdiff)))
    if not all(abs(float(bhdiff[i][j])) * sc[i] * sc[j] <= tol for i in range(n) for j in range(n)):
        fail('check_derivatives-hdiff-not-small', 'BIOGEME.check_derivatives', None, [list(map(float, r_)) for r_ in bhdiff])
    if not h_ok(bh_fd):
        fail('findiff_h-disagrees-with-the-exact-hessian', 'BIOGEME.likelihood_finite_difference_hessian', aggH,
             [list(map(float, r_)) for r_ in bh_fd])


def _nodb(rec):
    """Derivatives of variable-free formulas without a database."""
    from vf.engine import is_engine_error
    for pi, term in enumerate(pool()):
        row = G.ROWS[1]
        t2 = R.subst(term, {('var', c): ('num', row[c]) for c in G.COLUMNS})
        free = sorted(b for b in R.leaves(t2, 'beta') if b in G.FREE)
        full = dict(G.PARAMS)
        try:
            f, g, h = R.evaluate_hd(t2, free, {}, full)
        except (R.OutOfDomain, R.Fragile):
            continue
        case = dict(part='nodb', pool=pi)
        for form, kw in (('nodb_g', dict(gradient=True, hessian=False, bhhh=False)),
                         ('nodb_gh', dict(gradient=True, hessian=True, bhhh=False)),
                         ('nodb_ghb', dict(gradient=True, hessian=True, bhhh=True))):
            expr = R.Builder(G.betas_spec()).build(t2)
            try:
                res = expr.get_value_and_derivatives(prepare_ids=True, aggregation=False, **kw)
                ok = dclose(float(res.function), f) and _cmp_vec(list(map(float, res.gradient)), g)
                if kw['hessian']:
                    ok = ok and _cmp_mat([list(map(float, r_)) for r_ in res.hessian], h)
                rec.case(('nodb', pi, form), (pi, form, round(float(res.function), 8)), outcome=ok)
                if not ok:
                    rec.violation(f'C02|no-database-derivatives|{form}', f'{R.show(t2)}: {res.function}, {res.gradient}',
                                  dict(case, form=form), expected=(f, g, h), observed=repr((res.function, res.gradient)))
            except Exception as e:
                rec.case(('nodb', pi, form), (pi, form, type(e).__name__), outcome='raised')
                rec.violation(f'C02|no-database-derivatives-raised-{type(e).__name__}|{form}',
                              f'get_value_and_derivatives without database ({form}) raised {type(e).__name__}: {str(e)[:200]} '
                              f'for {R.show(t2)}', dict(case, form=form), observed=repr(e)[:300])
                if is_engine_error(e):
                    rec.retire = True
                    raise StopTask()


REFUSALS = [
    ('>', ('beta', 'b_z'), ('var', 'x1')),
    ('and', ('beta', 'b_z'), ('var', 'av2')),
    ('belongs', ('beta', 'b10'), (0, 1)),
]


def on_abort(task, info):
    """Where the engine is expected to refuse (a gradient of a comparison / logical operator containing a free parameter) the
    pre-built engine occasionally takes the whole process down instead of raising: no number was returned, so nothing false
    was reported; counted, not a violation.  Anywhere else a dying worker is a harness error."""
    if task.get('part') == 'refusal':
        return {}
    return None


def _refusal(task, rec):
    """By design the engine refuses to differentiate a comparison / logical operator that contains a
    free parameter; the refusal itself is asserted (no number may come back)."""
    from vf.engine import make_db
    term = REFUSALS[task['which']]
    db = make_db(G.ROWS, G.COLUMNS)
    expr = R.Builder(G.betas_spec()).build(term)
    rec.retire = True
    try:
        res = expr.get_value_and_derivatives(database=db, gradient=True, hessian=False, bhhh=False, aggregation=True,
                                             prepare_ids=True)
        g = list(map(float, res.gradient))
        rec.case(('refusal', task['which']), (task['which'], 'returned'), outcome='returned')
        rec.violation(f'C02|gradient-of-nondifferentiable-node-returned|{term[0]}',
                      f'gradient {g} returned for {R.show(term)} which is not differentiable in its free parameter',
                      dict(part='refusal', which=task['which']), observed=g)
    except Exception as e:
        rec.case(('refusal', task['which']), (task['which'], type(e).__name__), outcome='refused')


# ------------------------------------------------------------------ linear utilities in which a parameter repeats
# bioLinearUtility([(beta_1, x_1), ..., (beta_k, x_k)]) with ONE parameter in TWO or more terms: the value is the sum of all
# terms, so the derivative with respect to that parameter is the sum of the variables of all of its terms.
LINDUP_KEY = 'C02|gradient|engine:bioLinearUtility-with-one-parameter-in-several-terms'
LINDUP_QUIRK = 'linutil_last_partner'
LINDUP_VARS = ('x1', 'x2')
LINDUP_WRAPS = ('bare', 'exp', 'logit')
# sub-alphabet on which every wrapper x every call form is explored: two free parameters whose order of appearance in the
# alphabet is the reverse of their sorted order ('B2' < 'b_z'), and a fixed one
LINDUP_CORE = ('b_z', 'B2', 'a_fix')
LINDUP_FORMS = ['disagg', 'agg', 'agg_g', 'create_function', 'biogeme', 'biogeme_scaled']
LINDUP_LIGHT = ['disagg', 'agg']
LINDUP_CONTROL_FORMS = ['disagg', 'agg', 'biogeme']
LINDUP_CHUNK = 24


def _lindup_lists(params, lengths, repeated):
    """Every term list of the given lengths over params x {x1, x2} in which some parameter occurs twice (repeated=True) /
    no parameter occurs twice (False) and at least one parameter is free; shortest first."""
    pairs = [(p, v) for p in params for v in LINDUP_VARS]
    out = []
    for n_terms in lengths:
        for lst in itertools.product(pairs, repeat=n_terms):
            names = [p for p, _ in lst]
            if (len(set(names)) < n_terms) == repeated and any(p in G.FREE for p in names):
                out.append(tuple(lst))
    return out


def _lindup_partner(lst):
    """The second utility of the logit wrapper: the terms in reverse order (another term is the last one of a repeated
    parameter), every free parameter replaced by the next free one of the alphabet and every fixed one by the next fixed
    one (so the two utilities never cancel); it repeats a parameter exactly where the list does."""
    ring, fixed = list(G.FREE), list(G.FIXED)

    def nxt(p):
        grp = ring if p in ring else fixed
        return grp[(grp.index(p) + 1) % len(grp)]

    return tuple((nxt(p), v) for p, v in reversed(lst))


def _lindup_term(lst, wrap):
    u = ('linutil', tuple((p, v) for p, v in lst))
    if wrap == 'bare':
        return u
    if wrap == 'exp':
        return ('exp', u)
    if wrap == 'logit':
        return ('loglogit', ('var', 'choice'), ((1, u, None), (2, ('linutil', _lindup_partner(lst)), None),
                                                (3, ('num', 0.0), None)))
    raise ValueError(wrap)


def _lindup_forms(sub, wrap, tier):
    """Call forms of a sub-space.  The logit audits its utilities with several engine runs of its own at every call (about
    five times the cost of the other formulas): in the quick tier it gets the per-observation and the model form only, and
    the scaled likelihood (the same engine output divided by the sample size) is left to the thorough tier."""
    if sub == 'full':
        return ['disagg'] if tier == 'quick' else LINDUP_LIGHT
    if tier != 'quick':
        return LINDUP_CONTROL_FORMS if sub == 'control' else LINDUP_FORMS
    if sub == 'control':
        return ['disagg'] if wrap == 'logit' else LINDUP_CONTROL_FORMS
    return ['disagg', 'biogeme'] if wrap == 'logit' else [f for f in LINDUP_FORMS if f != 'biogeme_scaled']


_LINDUP_SPACES = {}


def _lindup_space(tier):
    if tier not in _LINDUP_SPACES:
        _LINDUP_SPACES[tier] = _lindup_space_build(tier)
    return _LINDUP_SPACES[tier]


def _lindup_space_build(tier):
    """[(term list, wrapper, call forms)], deterministic, simplest first.  Every sub-space is enumerated completely:
      control   lists of length 2..3 over the core sub-alphabet WITHOUT a repeated parameter x every wrapper;
      core      every list of length 2..3 over the core sub-alphabet with a repeated parameter x every wrapper x every form;
      full      every other list of length 2..3 (thorough: 2..4) over all parameters of the alphabet (free and fixed) with a
                repeated parameter, on its own, per observation (thorough: and aggregated; lengths 2..3 also in every wrapper)."""
    full = list(G.FREE) + list(G.FIXED)
    out = []
    for lst in _lindup_lists(LINDUP_CORE, (2, 3), False):
        for wrap in LINDUP_WRAPS:
            out.append((lst, wrap, _lindup_forms('control', wrap, tier)))
    for lst in _lindup_lists(LINDUP_CORE, (2, 3), True):
        for wrap in LINDUP_WRAPS:
            out.append((lst, wrap, _lindup_forms('core', wrap, tier)))
    for lst in _lindup_lists(full, (2, 3) if tier == 'quick' else (2, 3, 4), True):
        if all(p in LINDUP_CORE for p, _ in lst) and len(lst) <= 3:
            continue
        for wrap in (('bare',) if tier == 'quick' or len(lst) > 3 else LINDUP_WRAPS):
            out.append((lst, wrap, _lindup_forms('full', wrap, tier)))
    return out


def _lindup_refs(term, free, rows, full, quirks=()):
    """Reference value / gradient / Hessian / BHHH per row and summed; with ``quirks`` the engine's known defect is mimicked."""
    n = len(free)
    if quirks:
        per = [R.evaluate_hd(term, free, row, full, strict=False, quirks=quirks) for (_, row, _, _, _) in rows]
    else:
        per = [(f, g, h) for (_, _, f, g, h) in rows]
    F = [p[0] for p in per]
    Gs = [p[1] for p in per]
    Hs = [p[2] for p in per]
    Bs = [_outer(g) for g in Gs]
    return dict(F=F, G=Gs, H=Hs, B=Bs, aggF=sum(F), aggG=_sum_vec(Gs, n), aggH=_sum_mat(Hs, n), aggB=_sum_mat(Bs, n))


def _lindup_judge(obs, ref):
    """First clause of the property that the observation breaks with respect to a reference, or None."""
    if obs['kind'] == 'rows':
        if not _cmp_vec(obs['f'], ref['F']):
            return 'value'
        if len(obs['g']) != len(ref['G']) or not all(_cmp_vec(a, b) for a, b in zip(obs['g'], ref['G'])):
            return 'gradient'
        if len(obs['h']) != len(ref['H']) or not all(_cmp_mat(a, b) for a, b in zip(obs['h'], ref['H'])):
            return 'hessian'
        if not all(_symmetric(h) for h in obs['h']):
            return 'hessian-not-symmetric'
        if len(obs['b']) != len(ref['B']) or not all(_cmp_mat(a, b) for a, b in zip(obs['b'], ref['B'])):
            return 'bhhh-not-outer-product-of-gradients'
        return None
    div = obs['div']
    if not dclose(obs['f'], ref['aggF'] / div):
        return 'aggregated-value-not-sum'
    if not _cmp_vec(obs['g'], [x / div for x in ref['aggG']]):
        return 'aggregated-gradient-not-sum'
    if obs['h'] is not None:
        if not _cmp_mat(obs['h'], [[x / div for x in r_] for r_ in ref['aggH']]):
            return 'aggregated-hessian-not-sum'
        if not _symmetric(obs['h']):
            return 'hessian-not-symmetric'
    if obs['b'] is not None and not _cmp_mat(obs['b'], [[x / div for x in r_] for r_ in ref['aggB']]):
        return 'bhhh-not-sum-of-outer-products'
    return None


def check_lindup(lst, wrap, rec, forms, points=None):
    """One linear utility (on its own / under exp / in a logit) x parameter points x call forms against the exact
    derivatives.  A disagreement is the KNOWN engine defect only when everything observed (value, gradient, Hessian, BHHH)
    equals the reference in which that defect is mimicked (derivative of a linear utility with respect to a parameter =
    the variable of the LAST term carrying it); anything else is reported under a key of its own."""
    from vf.engine import make_db, make_biogeme, is_engine_error
    import numpy as np

    lst = tuple((p, v) for p, v in lst)
    term = _lindup_term(lst, wrap)
    free = sorted(b for b in R.leaves(term, 'beta') if b in G.FREE)   # ASCII order = the library's sorted list
    n = len(free)
    if n == 0:
        rec.count('formulas_without_free_parameter')
        return
    names_in = [p for p, _ in lst]
    repeated = len(set(names_in)) < len(names_in)
    shown = '+'.join(f'{p}*{v}' for p, v in lst)
    tag = f'lindup:{wrap}:{shown}'
    keyname = f'linear-utility-{"with-a" if repeated else "without"}-repeated-parameter[{wrap}]'
    for label, betas_arg, full in G.param_points():
        if points is not None and label not in points:
            continue
        rows = ref_rows(term, full, free, rec)
        if not rows:
            rec.case(None, (tag, label, 'no-row'), outcome='no-valid-row')
            continue
        ref = _lindup_refs(term, free, rows, full)
        try:
            qref = _lindup_refs(term, free, rows, full, quirks=(LINDUP_QUIRK,))
        except (R.OutOfDomain, R.Fragile):
            qref = None
        nz = any(any(x != 0.0 for x in g) for g in ref['G'])
        db = make_db([r[1] for r in rows], G.COLUMNS)
        ssize = float(len(rows))

        def vec(v):
            return [float(x) for x in v]

        def mat(m):
            return [[float(x) for x in r_] for r_ in m]

        def observe(form, expr):
            """Normalised observation, or (clause, expected, observed) for a failure that needs no reference."""
            if form == 'disagg':
                res = expr.get_value_and_derivatives(betas=betas_arg, database=db, gradient=True, hessian=True, bhhh=True,
                                                     aggregation=False, prepare_ids=True)
                return dict(kind='rows', f=vec(res.functions), g=[vec(g) for g in res.gradients],
                            h=[mat(h) for h in res.hessians], b=[mat(h) for h in res.bhhhs])
            if form in ('agg', 'agg_g'):
                hb = form == 'agg'
                res = expr.get_value_and_derivatives(betas=betas_arg, database=db, gradient=True, hessian=hb, bhhh=hb,
                                                     aggregation=True, prepare_ids=True)
                if not hb and (res.hessian is not None or res.bhhh is not None):
                    return ('unrequested-quantity-returned', None, (repr(res.hessian)[:80], repr(res.bhhh)[:80]))
                return dict(kind='agg', div=1.0, f=float(res.function), g=vec(res.gradient),
                            h=mat(res.hessian) if hb else None, b=mat(res.bhhh) if hb else None)
            if form == 'create_function':
                fct = expr.create_function(database=db, number_of_draws=10, gradient=True, hessian=True, bhhh=True)
                names = list(expr.id_manager.free_betas.names)
                if names != free:
                    return ('reported-free-names-not-sorted', free, names)
                res = fct(np.array([full[nm] for nm in names], dtype=float))
                return dict(kind='agg', div=1.0, f=float(res.function), g=[float(res.gradient[nm]) for nm in free],
                            h=[[float(res.hessian[a][b]) for b in free] for a in free],
                            b=[[float(res.bhhh[a][b]) for b in free] for a in free])
            if form in ('biogeme', 'biogeme_scaled'):
                scaled = form == 'biogeme_scaled'
                bg = make_biogeme(db, expr)
                names = list(bg.free_beta_names)
                if names != free:
                    return ('reported-free-names-not-sorted', free, names)
                res = bg.calculate_likelihood_and_derivatives(np.array([full[nm] for nm in names], dtype=float),
                                                              scaled=scaled, hessian=True, bhhh=True)
                return dict(kind='agg', div=ssize if scaled else 1.0, f=float(res.function), g=vec(res.gradient),
                            h=mat(res.hessian), b=mat(res.bhhh))
            raise ValueError(form)

        for form in forms:
            key = (tag, label, form) if nz else None
            case = dict(part='lindup', terms=[list(pv) for pv in lst], wrap=wrap, point=label, form=form)

            def fail(clause, expected=None, observed=None):
                rec.violation(f'C02|{clause}|{form}:{keyname}',
                              f'{clause} [{form}] for {R.show(term)} ({label}); free={free}', case,
                              expected=expected, observed=observed)

            try:
                obs = observe(form, R.Builder(G.betas_spec()).build(term))
            except Exception as e:
                rec.case(key, (tag, label, form, type(e).__name__), outcome='raised')
                fail(f'raised-{type(e).__name__}', observed=repr(e)[:300])
                if is_engine_error(e):
                    rec.retire = True
                    raise StopTask()
                continue
            if isinstance(obs, tuple):
                rec.case(key, (tag, label, form, obs[0]), outcome=obs[0])
                fail(*obs)
                continue
            digest = (tag, label, form, [round(v, 8) for v in (obs['f'] if obs['kind'] == 'rows' else [obs['f']])],
                      [[round(x, 7) for x in g] for g in (obs['g'] if obs['kind'] == 'rows' else [obs['g']])])
            clause = _lindup_judge(obs, ref)
            if clause is None:
                rec.case(key, digest, outcome=('ok', repeated))
                continue
            rows_form = obs['kind'] == 'rows'
            expected = dict(gradient=ref['G'] if rows_form else [x / obs['div'] for x in ref['aggG']])
            observed = dict(gradient=obs['g'])
            if 'gradient' not in clause:
                expected = dict(expected, value=ref['F'] if rows_form else ref['aggF'] / obs['div'],
                                hessian=ref['H'] if rows_form else ref['aggH'], bhhh=ref['B'] if rows_form else ref['aggB'])
                observed = dict(observed, value=obs['f'], hessian=obs['h'], bhhh=obs['b'])
            if repeated and qref is not None and 'gradient' in clause and _lindup_judge(obs, qref) is None:
                # exactly the known defect: every quantity returned is what follows from the last-partner derivative
                rec.case(key, digest, outcome='known-engine-defect-mimicked-exactly')
                rec.count('lindup_cases_equal_to_the_mimicked_engine_defect')
                rec.violation(LINDUP_KEY,
                              f'{clause} [{form}] for {R.show(term)} ({label}); free={free}: the derivative of the linear utility '
                              f'with respect to a parameter met in several terms is the variable of the LAST term carrying it '
                              f'instead of the sum over its terms (engine bioExprLinearUtility.cc keeps one partner per literal); '
                              f'value, gradient, Hessian and BHHH returned equal the reference with exactly that defect mimicked',
                              case, expected=expected, observed=observed)
                continue
            rec.case(key, digest, outcome=('mismatch', clause))
            fail(clause, expected, observed)


def _lindup(task, rec):
    space = _lindup_space(task['tier'])
    for idx in range(task['lo'], min(task['hi'], len(space))):
        lst, wrap, forms = space[idx]
        if idx == task['lo']:
            rec.sample(dict(lindup=R.show(_lindup_term(lst, wrap)), forms=list(forms)))
        check_lindup(lst, wrap, rec, forms)


def replay(case):
    rec = Rec()
    try:
        part = case['part']
        if part == 'triple':
            term = G.triple_term(case['p'], case['s'], case['q'], case['rot'])
            check_formula(term, rec, 'replay', f'{case["p"]}[{G.slot_name(case["p"], case["s"])}]', case,
                          [case['form']] if case.get('form') in ALL_FORMS else ALL_FORMS)
        elif part == 'tree':
            term = _tuplify(case['term'])
            check_formula(term, rec, 'replay', f'tree-root:{term[0]}', case, ['disagg', 'agg'])
        elif part == 'findiff':
            _findiff(rec)
        elif part == 'findiff_scaled':
            _findiff_scaled(rec, case['pool'], case['params'], case['mag'], case['signs'])
        elif part == 'model_formulas':
            _model_formulas(rec, case['pool'], case['config'], case['order'], case['point'])
        elif part == 'named_api':
            _named_api(rec)
        elif part == 'integrate':
            _integrate_derivatives(rec)
        elif part == 'function_history':
            _function_history(case, rec)
        elif part == 'shared_av':
            for i, term in enumerate(shared_av_terms()):
                check_formula(term, rec, f'shared-av#{i}', 'logit-with-a-variable-shared-by-availability-and-utility',
                              dict(part='shared_av'), ['disagg', 'disagg_named', 'agg', 'biogeme', 'biogeme_history'], share=True)
        elif part == 'nodb':
            _nodb(rec)
        elif part == 'refusal':
            _refusal(case, rec)
        elif part == 'lindup':
            check_lindup([tuple(pv) for pv in case['terms']], case['wrap'], rec,
                         [case['form']] if case.get('form') in LINDUP_FORMS else LINDUP_FORMS,
                         points=[case['point']] if case.get('point') else None)
    except StopTask:
        pass
    return rec.violations


def _tuplify(x):
    if isinstance(x, list):
        return tuple(_tuplify(y) for y in x)
    return x
