"""C04 — the sample log likelihood is the weighted sum of per-observation values.

Exhaustive enumeration on real BIOGEME objects of: tables (subsets of a 6-row pool, in pool order)
x all row permutations x all thread counts 1..N+2 and 0 (hence every static row partition the engine
can form for N rows) x weight variants {none, a positive column, the constant 2} x all two-part
splits x parameter points x 2 models.  Oracles: LL = sum_i w_i * simulate_i (and simulate_i = the
plain-Python reference value), scaled = LL / sample size, invariance under permutation / thread
count / split, and the same aggregation for gradient, Hessian and BHHH (reference: hyper-dual numbers).
"""
from __future__ import annotations

import itertools
import os

from vf import refsem as R
from vf.rec import Rec

ID = 'C04'
LEVEL = 'exploration'
TECHNIQUE = 'bounded exhaustive enumeration of tables x row permutations x thread counts x splits x weights on real BIOGEME objects vs a plain-Python per-row reference'
RULE = ('one case = one (model, table, permutation, thread count, weight variant, parameter point) likelihood evaluation, or one '
        '(table, split) additivity check; non-trivial = N >= 2 rows (a sum is formed); distinct = distinct tuples.')
ASSUMPTIONS = [
    "thread *interleavings* inside the pre-built engine are not controlled: the thread count fixes the static row partition "
    "(ceil(N/T) contiguous blocks), every such partition for N <= 6 is enumerated, and the engine's threads are assumed to "
    'write disjoint memory and aggregate after join',
    'values at grid points only; tolerance rel 1e-11 for invariances (summation order), 1e-9 against the reference',
]
ANCHOR_FILES = ['src/biogeme/biogeme.py', 'src/biogeme/database.py', 'src/biogeme/expressions/calculator.py',
                'src/biogeme/negative_likelihood.py']

_SEED = int(os.environ.get('VERIF_SEED', '0') or 0)
_POOLS = [
    dict(x1=[1.0, 2.0, 0.5, 3.0, 1.5, 2.5], x2=[-1.0, 0.5, 2.0, -0.25, 1.0, -2.0], y=[1, 0, 1, 1, 0, 0],
         choice=[1, 2, 3, 1, 2, 3], av2=[1, 1, 0, 0, 1, 1], w=[0.5, 2.0, 1.0, 1.5, 3.0, 0.25]),
    dict(x1=[0.5, 1.5, 2.5, 1.0, 3.5, 2.0], x2=[1.0, -0.5, 0.25, 2.0, -1.5, 0.75], y=[0, 1, 1, 0, 1, 0],
         choice=[3, 1, 2, 2, 1, 3], av2=[0, 1, 1, 1, 0, 1], w=[2.0, 0.25, 1.25, 0.5, 1.0, 4.0]),
    dict(x1=[2.0, 0.25, 1.0, 1.75, 0.75, 3.0], x2=[2.0, 1.5, -1.5, 0.25, -0.75, -1.0], y=[1, 1, 0, 0, 1, 0],
         choice=[2, 1, 2, 3, 1, 3], av2=[1, 0, 1, 0, 0, 1], w=[1.0, 3.0, 0.5, 2.5, 0.75, 1.5]),
]
POOL = _POOLS[_SEED % len(_POOLS)]
COLS = ['x2', 'choice', 'w', 'x1', 'av2', 'y']
POOL_ROWS = [{c: float(POOL[c][i]) for c in COLS} for i in range(6)]
PARAMS = [dict(b1=0.5, b2=-0.75, asc=0.25), dict(b1=-0.25, b2=1.25, asc=-1.0)]
if _SEED % 2:
    PARAMS = [dict(b1=1.0, b2=0.5, asc=-0.5), dict(b1=0.75, b2=-1.5, asc=0.125)]

MODELS = {
    'logit3': ('loglogit', ('var', 'choice'),
               ((1, ('*', ('beta', 'b1'), ('var', 'x1')), None),
                (2, ('+', ('beta', 'asc'), ('*', ('beta', 'b2'), ('var', 'x2'))), ('var', 'av2')),
                (3, ('*', ('beta', 'b2'), ('var', 'x1')), None))),
    'smooth': ('-', ('*', ('var', 'y'), ('+', ('*', ('beta', 'b1'), ('var', 'x1')), ('*', ('beta', 'b2'), ('var', 'x2')))),
               ('log', ('+', ('num', 1.0), ('exp', ('+', ('*', ('beta', 'b1'), ('var', 'x1')),
                                                      ('*', ('beta', 'b2'), ('var', 'x2'))))))),
}
WEIGHTS = {'none': None, 'column': ('var', 'w'), 'const2': ('num', 2.0)}


def close(a, b, rel):
    return a == b or abs(a - b) <= 1e-12 + rel * max(abs(a), abs(b))


# the accepted spellings of the two dictionary keys (biogeme.py: log_like_valid_names, weight_valid_names)
KEY_VARIANTS = [('log_like', 'weight'), ('loglike', 'weights'), ('log_like', 'weights'), ('loglike', 'weight')]


def build(model, weight, rows, threads, keys=('log_like', 'weight')):
    from vf.engine import make_db, make_biogeme
    spec = {n: (v, None, None, 0) for n, v in PARAMS[0].items()}
    ll = R.Builder(spec).build(MODELS[model])
    formulas = {keys[0]: ll}
    wt = WEIGHTS[weight]
    if wt is not None:
        formulas[keys[1]] = R.Builder(spec).build(wt)
    db = make_db(rows, COLS)
    return make_biogeme(db, formulas if wt is not None else ll, number_of_threads=threads)


def reference(model, weight, rows, params, free):
    """(LL, g, H, BHHH, per-row values, per-row weights)"""
    n = len(free)
    tot, g, h, bh = 0.0, [0.0] * n, [[0.0] * n for _ in range(n)], [[0.0] * n for _ in range(n)]
    vals, ws = [], []
    for row in rows:
        f, gi, hi = R.evaluate_hd(MODELS[model], free, row, params)
        w = 1.0 if WEIGHTS[weight] is None else R.evaluate(WEIGHTS[weight], row, params)
        vals.append(f)
        ws.append(w)
        tot += w * f
        for i in range(n):
            g[i] += w * gi[i]
            for j in range(n):
                h[i][j] += w * hi[i][j]
                bh[i][j] += w * gi[i] * gi[j]
    return tot, g, h, bh, vals, ws


def evaluate_all(b, x):
    """LL, scaled LL, derivatives, simulate columns of one BIOGEME object at x (dict name->value)."""
    import numpy as np
    names = list(b.free_beta_names)
    xv = np.array([x[nm] for nm in names], dtype=float)
    ll = float(b.calculate_likelihood(xv, scaled=False))
    lls = float(b.calculate_likelihood(xv, scaled=True))
    d = b.calculate_likelihood_and_derivatives(xv, scaled=False, hessian=True, bhhh=True)
    ds = b.calculate_likelihood_and_derivatives(xv, scaled=True, hessian=True, bhhh=True)
    ds2 = b.calculate_likelihood_and_derivatives(xv, scaled=True, hessian=False, bhhh=True)     # BHHH asked without Hessian
    ds3 = b.calculate_likelihood_and_derivatives(xv, scaled=False, hessian=False, bhhh=True)
    # the caller keeps the results and reads them only after the same object has been asked about ANOTHER point (derivatives
    # collected at several points and compared afterwards): what was reported for x stays what was reported for x
    b.calculate_likelihood_and_derivatives(xv + 0.125, scaled=False, hessian=True, bhhh=True)
    b.calculate_likelihood_and_derivatives(xv - 0.25, scaled=True, hessian=True, bhhh=True)
    return dict(names=names, ll=ll, lls=lls, f=float(d.function), g=[float(v) for v in d.gradient],
                h=[[float(v) for v in r_] for r_ in d.hessian], bh=[[float(v) for v in r_] for r_ in d.bhhh],
                fs=float(ds.function), gs=[float(v) for v in ds.gradient],
                hs=[[float(v) for v in r_] for r_ in ds.hessian], bhs=[[float(v) for v in r_] for r_ in ds.bhhh],
                bhs2=[[float(v) for v in r_] for r_ in ds2.bhhh], bh3=[[float(v) for v in r_] for r_ in ds3.bhhh])


def simulate_rows(model, weight, rows, x):
    """Per-row values of the log likelihood and weight formulas through BIOGEME.simulate."""
    from vf.engine import make_db, make_biogeme
    spec = {n: (v, None, None, 0) for n, v in PARAMS[0].items()}
    formulas = {'ll': R.Builder(spec).build(MODELS[model])}
    if WEIGHTS[weight] is not None:
        formulas['wt'] = R.Builder(spec).build(WEIGHTS[weight])
    b = make_biogeme(make_db(rows, COLS), formulas)
    out = b.simulate({nm: x[nm] for nm in b.free_beta_names})
    ll = [float(v) for v in out['ll']]
    wt = [float(v) for v in out['wt']] if 'wt' in formulas else [1.0] * len(rows)
    return ll, wt


def tables(tier):
    maxn = 4 if tier == 'quick' else 6
    out = []
    for n in range(1, maxn + 1):
        combos = list(itertools.combinations(range(6), n))
        if tier == 'quick':
            combos = combos[:: max(1, len(combos) // 4)][:4]  # a fixed spread of subsets per size
        out += combos
    return out


def _panel(task, rec):
    """On panel data the sample size is the number of individuals: scaled = LL / individuals at both entry points,
    for every thread count, and LL = sum over individuals of the simulated per-individual values."""
    import numpy as np
    from vf.engine import make_db, make_biogeme
    comps = [(1, 2), (2, 1, 2), (3, 1), (2, 2, 2), (1, 1, 1)]
    spec = {n: (v, None, None, 0) for n, v in PARAMS[0].items()}
    inner = ('exp', MODELS['smooth'])
    formula = ('log', ('traj', inner))
    for comp in comps:
        rows, k = [], 0
        for i, cnt in enumerate(comp):
            for _ in range(cnt):
                rows.append(dict(POOL_ROWS[k], id=float(10 - 3 * i)))
                k += 1
        nind = len(comp)
        for T in list(range(1, nind + 3)) + [0]:
            for pi, x in enumerate(PARAMS):
                case = dict(part='panel', comp=list(comp), threads=T, point=pi)
                try:
                    db = make_db(rows, COLS + ['id'])
                    db.panel('id')
                    b = make_biogeme(db, R.Builder(spec).build(formula), number_of_threads=T)
                    names = list(b.free_beta_names)
                    xv = np.array([x[nm] for nm in names], dtype=float)
                    ll = float(b.calculate_likelihood(xv, scaled=False))
                    lls = float(b.calculate_likelihood(xv, scaled=True))
                    d = b.calculate_likelihood_and_derivatives(xv, scaled=False, hessian=False, bhhh=False)
                    ds = b.calculate_likelihood_and_derivatives(xv, scaled=True, hessian=False, bhhh=False)
                    bs = make_biogeme(db, {'v': R.Builder(spec).build(formula)}, number_of_threads=T)
                    sim = [float(v) for v in bs.simulate({nm: x[nm] for nm in bs.free_beta_names})['v']]
                except Exception as e:
                    rec.violation(f'C04|raised-{type(e).__name__}|panel', f'{type(e).__name__}: {str(e)[:200]} comp={comp} T={T}', case)
                    continue
                want = 0.0
                for idv in sorted({r['id'] for r in rows}):
                    mine = [r for r in rows if r['id'] == idv]
                    want += R.evaluate(formula, row=mine[0], params=x, rows=mine)
                rec.case(('panel', comp, T, pi), (comp, T, pi, round(ll, 9)), outcome=('panel', nind))
                if not close(ll, want, 1e-9) or not close(ll, sum(sim), 1e-11) or len(sim) != nind:
                    rec.violation('C04|ll-not-sum-of-simulate|panel', f'LL={ll!r} reference={want!r} sum simulate={sum(sim)!r} comp={comp} T={T}', case)
                if not close(lls, ll / nind, 1e-12) or not close(float(ds.function), float(d.function) / nind, 1e-12) \
                        or not all(close(float(a), float(c) / nind, 1e-12) for a, c in zip(ds.gradient, d.gradient)):
                    rec.violation('C04|scaled-not-ll-over-sample-size|panel',
                                  f'panel with {nind} individuals / {len(rows)} rows, T={T}: scaled={lls!r}, {float(ds.function)!r}; LL={ll!r}', case)


# ------------------------------------------------------------------ operation histories on one Database
H_OPS = ['new', 'new_big', 'll', 'sim', 'remove', 'boot', 'init0', 'init_half', 'thr1', 'thr3', 'refused']


def _history_rows(nrows):
    rows = []
    for k in range(nrows):
        base = dict(POOL_ROWS[k % 6])
        base['x1'] = base['x1'] + 0.125 * (k // 6)
        base['w'] = base['w'] + 0.25 * ((k // 6) % 3)
        rows.append(base)
    return rows


def _run_history(hist, rec):
    """Replays one history on a fresh Database / fresh BIOGEME objects; after every step that reports a log likelihood the
    value must be the weighted sum of the per-observation values on the table as it is now."""
    import multiprocessing as mp
    import numpy as np
    import numpy.random as npr
    from vf.engine import make_db, make_biogeme
    big_t = 2 * mp.cpu_count() + 1
    nrows = 3 * big_t if 'new_big' in hist else 8
    rows = _history_rows(nrows)
    model, weight = 'smooth', 'column'
    spec = {n: (v, None, None, 0) for n, v in PARAMS[0].items()}
    db = make_db(rows, COLS)
    b = None
    created_after_remove = True
    free = sorted(R.leaves(MODELS[model], 'beta'))
    case = dict(part='history', history=list(hist))
    x = PARAMS[0]

    def ref_sum(params):
        return sum(R.evaluate(WEIGHTS[weight], r, params) * R.evaluate(MODELS[model], r, params) for r in rows)

    for step, op in enumerate(hist):
        key = ('history', tuple(hist[:step + 1]))
        try:
            if op in ('new', 'new_big'):
                ll_e = R.Builder(spec).build(MODELS[model])
                w_e = R.Builder(spec).build(WEIGHTS[weight])
                b = make_biogeme(db, {'log_like': ll_e, 'weight': w_e}, number_of_threads=big_t if op == 'new_big' else 2,
                                 bootstrap_samples=1, max_iterations=6)
                b.modelName = 'c04h'
                created_after_remove = True
            elif op == 'remove':
                cond = R.Builder(spec).build(('>', ('var', 'x1'), ('num', 2.25)))
                db.remove(cond)
                rows = [r for r in rows if not r['x1'] > 2.25]
                created_after_remove = False       # (kept for the record: the model object now predates the removal)
            elif op == 'scale':
                # Database.scale_column on a column the model reads, possibly while a model object is alive
                db.scale_column('x1', 0.5)
                for r in rows:
                    r['x1'] = r['x1'] * 0.5
            elif op == 'addcol':
                # a new column computed from the table (Database.add_column); the model does not read it
                n_extra = sum(1 for o in hist[:step] if o == 'addcol')
                db.add_column(R.Builder(spec).build(('*', ('var', 'x1'), ('num', 2.0))), f'extra{n_extra}')
            elif b is None:
                rec.count('history_steps_not_applicable')
                return
            elif op == 'refused':
                # three requests the library refuses (each must raise; nothing may be left behind by them)
                n_ref = 0
                for bad in (lambda: b.calculate_likelihood(np.array([0.1] * (len(b.free_beta_names) + 1)), scaled=False),
                            lambda: b.simulate(None),
                            lambda: b.simulate({list(b.free_beta_names)[0]: 0.1}) if len(b.free_beta_names) > 1 else b.simulate(None),
                            lambda: b.calculate_likelihood_and_derivatives(np.array([0.1] * (len(b.free_beta_names) + 2)), scaled=False)):
                    try:
                        bad()
                    except Exception:
                        n_ref += 1
                rec.case(key, (hist[:step + 1], n_ref), outcome=('refused', n_ref))
            elif op in ('thr1', 'thr3'):
                # the thread count is changed on the live object (number_of_threads setter), as a user does between two uses
                b.number_of_threads = int(op[3:])
            elif op == 'll':
                names = list(b.free_beta_names)
                xv = np.array([x[nm] for nm in names], dtype=float)
                got = float(b.calculate_likelihood(xv, scaled=False))
                gots = float(b.calculate_likelihood(xv, scaled=True))
                d = b.calculate_likelihood_and_derivatives(xv, scaled=False, hessian=False, bhhh=False)
                want = ref_sum(x)
                rec.case(key, (hist[:step + 1], round(got, 9)), outcome=('ll', len(rows)))
                if not close(got, want, 1e-9) or not close(float(d.function), want, 1e-9) or not close(gots, want / len(rows), 1e-9):
                    rec.violation(f'C04|ll-not-weighted-sum-after-history|{"big-threads" if "new_big" in hist[:step + 1] else "small"}',
                                  f'history {hist[:step + 1]}: LL={got!r} / {float(d.function)!r}, scaled={gots!r}; weighted sum over the '
                                  f'{len(rows)} current rows = {want!r}', case, expected=want, observed=got)
                    return
            elif op == 'lld':
                # the derivatives entry point asked FIRST (no plain likelihood before it)
                names = list(b.free_beta_names)
                xv = np.array([x[nm] for nm in names], dtype=float)
                d = b.calculate_likelihood_and_derivatives(xv, scaled=False, hessian=False, bhhh=False)
                ds = b.calculate_likelihood_and_derivatives(xv, scaled=True, hessian=False, bhhh=False)
                want = ref_sum(x)
                rec.case(key, (hist[:step + 1], round(float(d.function), 9)), outcome=('lld', len(rows)))
                if not close(float(d.function), want, 1e-9) or not close(float(ds.function), want / len(rows), 1e-9):
                    rec.violation(f'C04|ll-not-weighted-sum-after-history|{"big-threads" if "new_big" in hist[:step + 1] else "small"}',
                                  f'history {hist[:step + 1]}: calculate_likelihood_and_derivatives reports {float(d.function)!r}, scaled '
                                  f'{float(ds.function)!r}; weighted sum over the {len(rows)} current rows = {want!r}', case,
                                  expected=want, observed=float(d.function))
                    return
            elif op == 'sim':
                out = b.simulate({nm: x[nm] for nm in b.free_beta_names})
                ll = [float(v) for v in out['log_like']]
                want = [R.evaluate(MODELS[model], r, x) for r in rows]
                rec.case(key, (hist[:step + 1], len(ll)), outcome=('sim', len(rows)))
                if len(ll) != len(want) or any(not close(a, c, 1e-9) for a, c in zip(ll, want)):
                    rec.violation('C04|simulate-differs-from-reference|history', f'history {hist[:step + 1]}: {ll[:4]}... expected {want[:4]}...', case)
                    return
            elif op == 'boot':
                saved = npr.randint
                npr.randint = lambda low, high=None, size=None, **kw: np.arange(len(rows) - 1, -1, -1) // 2
                try:
                    b.estimate(run_bootstrap=True)
                finally:
                    npr.randint = saved
                rec.case(key, (hist[:step + 1], 'boot'), outcome='boot')
            elif op == 'initll':
                # the likelihood "at the initial values" without any change: the values the formulas hold now (after an
                # estimation: the estimates)
                cur = b.get_beta_values()
                got = float(b.calculate_init_likelihood())
                try:
                    want = ref_sum({nm: cur[nm] for nm in free})
                except (R.OutOfDomain, R.Fragile):
                    # the estimates of a run cut short may lie where the reference refuses to evaluate (exp overflow region)
                    rec.count('history_initll_estimates_outside_the_reference_domain')
                    continue
                rec.case(key, (hist[:step + 1], round(got, 9)), outcome=('initll',))
                if not close(got, want, 1e-9):
                    rec.violation('C04|init-likelihood-not-weighted-sum-at-current-values|history',
                                  f'history {hist[:step + 1]}: calculate_init_likelihood()={got!r}; weighted sum at the values the formulas hold '
                                  f'{cur} = {want!r}', case, expected=want, observed=got)
                    return
            elif op in ('init0', 'init_half'):
                val = 0.0 if op == 'init0' else 0.5
                b.change_init_values({nm: val for nm in b.free_beta_names})
                cur = b.get_beta_values()
                got = float(b.calculate_init_likelihood())
                want = ref_sum({nm: cur[nm] for nm in free})
                rec.case(key, (hist[:step + 1], round(got, 9)), outcome=('init', val))
                if any(cur[nm] != val for nm in free):
                    rec.violation('C04|change_init_values-not-applied|history', f'history {hist[:step + 1]}: get_beta_values()={cur}', case)
                    return
                if not close(got, want, 1e-9):
                    rec.violation('C04|init-likelihood-not-weighted-sum-at-current-values|history',
                                  f'history {hist[:step + 1]}: calculate_init_likelihood()={got!r}; weighted sum at the current values {cur} = {want!r}',
                                  case, expected=want, observed=got)
                    return
        except Exception as e:
            rec.case(key, (hist[:step + 1], type(e).__name__), outcome='raised')
            rec.violation(f'C04|history-raised-{type(e).__name__}|op={op}', f'history {hist[:step + 1]}: {type(e).__name__}: {str(e)[:200]}', case)
            return


def history_list(tier):
    depth = 4 if tier == 'quick' else 5
    out = []
    for n in range(2, depth + 1):
        for h in itertools.product(H_OPS, repeat=n):
            if h[0] not in ('new', 'new_big'):
                continue
            if h[-1] not in ('ll', 'init0', 'init_half', 'sim'):
                continue               # a history ends with an observation
            if sum(1 for o in h if o == 'new_big') > 1 or sum(1 for o in h if o == 'boot') > 1 or sum(1 for o in h if o == 'remove') > 1:
                continue
            if 'new_big' in h and tier == 'quick' and len(h) > 3 and not set(h[1:]) <= {'ll', 'sim'}:
                continue
            out.append(list(h))
    # the table is edited through the Database interface (scale a column, add a column, remove rows) between the uses of a
    # model object: depth 2..4 (quick) / 5 (thorough) over that sub-alphabet, at least one edit
    for n in range(2, (4 if tier == 'quick' else 5) + 1):
        for h in itertools.product(['new', 'scale', 'addcol', 'remove', 'll', 'lld', 'sim'], repeat=n):
            if h[0] not in ('new', 'scale', 'addcol') or h[-1] not in ('ll', 'lld', 'sim') or 'new' not in h:
                continue
            if not ({'scale', 'addcol'} & set(h)) or h.count('remove') > 1 or h.count('new') > 2:
                continue
            out.append(list(h))
    # the likelihood at the values the formulas hold, asked for after estimations / changes of values
    for n in range(2, 5):
        for h in itertools.product(['new', 'boot', 'init_half', 'initll', 'll', 'remove'], repeat=n):
            if h[0] != 'new' or h[-1] != 'initll' or h.count('boot') > 1 or h.count('remove') > 1 or h.count('new') > 1:
                continue
            out.append(list(h))
    if tier == 'quick':
        # depth 5 over the sub-alphabet that changes what the engine holds (new model, remove, bootstrap) + the observation
        for h in itertools.product(['new', 'remove', 'boot', 'll', 'sim'], repeat=5):
            if h[0] != 'new' or h[-1] != 'll' or h.count('boot') > 1 or h.count('remove') > 1:
                continue
            out.append(list(h))
        # depth 5 over the sub-alphabet around the thread count of a live object
        for h in itertools.product(['new', 'thr1', 'thr3', 'll', 'sim', 'boot', 'refused'], repeat=5):
            if h[0] != 'new' or h[-1] not in ('ll', 'sim') or h.count('boot') > 1 or not any(o.startswith('thr') or o == 'refused' for o in h):
                continue
            out.append(list(h))
    return out


def _dbsplit(task, rec):
    """Database.split (the partition the library itself makes for validation): for every answer of the shuffle it asks for
    (all row permutations for 5 rows; rotations and the reversal for 7 and 9 rows) and every number of slices, the
    validation sets are disjoint and cover the table, every (estimation, validation) pair partitions the table, and
    LL / gradient of the two parts add up to those of the whole table."""
    import numpy as np
    import pandas as pd
    import biogeme.database as bdb
    from vf.engine import make_biogeme
    n, tier = task['n'], task['tier']
    model, weight = 'smooth', 'column'
    rows = _history_rows(n)
    free = sorted(R.leaves(MODELS[model], 'beta'))
    x = PARAMS[0]
    spec = {nm: (v, None, None, 0) for nm, v in PARAMS[0].items()}
    if n <= 5:
        perms = list(itertools.permutations(range(n)))
    else:
        perms = [tuple(range(n)), tuple(reversed(range(n)))] + [tuple(list(range(k, n)) + list(range(k))) for k in range(1, n)]

    def ll_grad(frame):
        if len(frame) == 0:
            return 0.0, [0.0] * len(free)
        d = bdb.Database('part', frame.copy())
        ll_e = R.Builder(spec).build(MODELS[model])
        w_e = R.Builder(spec).build(WEIGHTS[weight])
        b = make_biogeme(d, {'log_like': ll_e, 'weight': w_e}, number_of_threads=2)
        names = list(b.free_beta_names)
        out = b.calculate_likelihood_and_derivatives(np.array([x[nm] for nm in names]), scaled=False, hessian=False, bhhh=False)
        return float(out.function), [float(v) for v in out.gradient]

    ref = reference(model, weight, rows, x, free)
    frame0 = pd.DataFrame({c: [float(r[c]) for r in rows] for c in COLS})
    frame0['grp'] = [k // 2 for k in range(n)]
    saved_sample, saved_shuffle = pd.DataFrame.sample, np.random.shuffle
    for grouped in (False, True):
        nunits = n if not grouped else (n + 1) // 2
        for slices in range(2, min(nunits, 5) + 1):
            for perm in (perms if not grouped else list(itertools.permutations(range(nunits)))):
                case = dict(part='dbsplit', n=n, slices=slices, perm=list(perm), grouped=grouped, tier=tier)
                key = ('dbsplit', n, slices, perm, grouped)

                def bad(clause, what):
                    rec.violation(f'C04|database-split:{clause}|{"groups" if grouped else "rows"}', what + f' [{n} rows, {slices} slices, shuffle answer {perm}]', case)

                db = bdb.Database('whole', frame0.copy())
                pd.DataFrame.sample = lambda self, *a, **kw: self.iloc[list(perm)]

                def shuffle(arr, _perm=perm):
                    arr[:] = np.asarray(arr)[list(_perm)]
                np.random.shuffle = shuffle
                try:
                    folds = db.split(slices, groups='grp' if grouped else None)
                except Exception as e:
                    rec.case(key, ('raised', type(e).__name__), outcome='raised')
                    bad(f'raised-{type(e).__name__}', str(e)[:200])
                    continue
                finally:
                    pd.DataFrame.sample, np.random.shuffle = saved_sample, saved_shuffle
                allidx = sorted(frame0.index)
                val_idx = sorted(i for f in folds for i in f.validation.index)
                rec.case(key, (n, slices, perm, grouped, [sorted(f.validation.index) for f in folds]), outcome=('split', slices, grouped))
                if len(folds) != slices:
                    bad('number-of-folds', f'{len(folds)} folds')
                    continue
                if val_idx != allidx:
                    bad('validation-sets-do-not-partition-the-table', f'rows in the validation sets: {val_idx}; rows of the table: {allidx}')
                    continue
                for k, f in enumerate(folds):
                    both = sorted(list(f.validation.index) + list(f.estimation.index))
                    if both != allidx:
                        bad('estimation-and-validation-do-not-partition-the-table', f'fold {k}: estimation+validation rows {both}')
                        break
                    l1, g1 = ll_grad(f.estimation)
                    l2, g2 = ll_grad(f.validation)
                    if not close(l1 + l2, ref[0], 1e-9) or not all(close(a + c, w, 1e-8) for a, c, w in zip(g1, g2, ref[1])):
                        bad('parts-do-not-add-up', f'fold {k}: LL {l1}+{l2} vs {ref[0]}; gradient {g1}+{g2} vs {ref[1]}')
                        break


def tasks(tier, seed):
    t = [dict(part='panel')]
    for n in ((5, 7) if tier == 'quick' else (5, 7, 9)):
        t.append(dict(part='dbsplit', n=n, tier=tier))
    hl = history_list(tier)
    for i in range(0, len(hl), 12):
        t.append(dict(part='history', lo=i, hi=min(i + 12, len(hl)), tier=tier))
    for model in MODELS:
        for weight in WEIGHTS:
            for tab in tables(tier):
                t.append(dict(model=model, weight=weight, table=list(tab), tier=tier))
    return t


def run_task(task):
    rec = Rec()
    if task.get('part') == 'panel':
        _panel(task, rec)
        return rec.result()
    if task.get('part') == 'dbsplit':
        _dbsplit(task, rec)
        return rec.result()
    if task.get('part') == 'history':
        hl = history_list(task['tier'])
        for h in hl[task['lo']:task['hi']]:
            _run_history(h, rec)
        rec.sample(dict(part='history', first=hl[task['lo']]))
        return rec.result()
    model, weight, tab, tier = task['model'], task['weight'], task['table'], task['tier']
    rows0 = [POOL_ROWS[i] for i in tab]
    n = len(rows0)
    free = sorted(R.leaves(MODELS[model], 'beta'))
    maxperm = 4 if tier == 'quick' else 5
    perms = list(itertools.permutations(range(n))) if n <= maxperm else \
        [tuple(range(n)), tuple(reversed(range(n)))] + [tuple(list(range(k, n)) + list(range(k))) for k in range(1, n)]
    threads = list(range(1, n + 3)) + [0]
    rec.sample(dict(model=model, weight=weight, rows=tab, permutations=len(perms), thread_counts=threads))
    case0 = dict(model=model, weight=weight, table=tab, tier=tier)

    def bad(clause, what, **kw):
        rec.violation(f'C04|{clause}|{model}:weight={weight}', what, dict(case0, **kw))

    for pi, x in enumerate(PARAMS):
        ref_ll, ref_g, ref_h, ref_bh, ref_vals, ref_ws = reference(model, weight, rows0, x, free)
        # per-row simulation = reference; LL = sum w * simulate
        sim_ll, sim_w = simulate_rows(model, weight, rows0, x)
        if not all(close(a, b, 1e-9) for a, b in zip(sim_ll, ref_vals)) or not all(close(a, b, 1e-12) for a, b in zip(sim_w, ref_ws)):
            bad('simulate-differs-from-reference', f'simulate {sim_ll},{sim_w} vs reference {ref_vals},{ref_ws} rows={tab} point={pi}', point=pi)
        weighted_sum = sum(w * v for w, v in zip(sim_w, sim_ll))
        base = None
        for perm in perms:
            rows = [rows0[i] for i in perm]
            for T in threads:
                try:
                    # the spelling of the dictionary keys rotates with the case (all four accepted combinations are met)
                    kv = KEY_VARIANTS[(len(perm) + sum(perm[:1]) + T) % 4]
                    b = build(model, weight, rows, T, keys=kv)
                    ev = evaluate_all(b, x)
                except Exception as e:
                    rec.case((model, weight, tuple(tab), perm, T, pi), ('raised', type(e).__name__), outcome='raised')
                    bad(f'raised-{type(e).__name__}', f'{type(e).__name__}: {str(e)[:200]} rows={tab} perm={perm} T={T}',
                        perm=list(perm), threads=T, point=pi)
                    continue
                rec.case((model, weight, tuple(tab), perm, T, pi) if n >= 2 else None,
                         (tab, perm, T, pi, round(ev['ll'], 9)), outcome=(n, T >= n))
                kw = dict(perm=list(perm), threads=T, point=pi)
                if ev['names'] != free:
                    bad('free-names', f'{ev["names"]} != {free}', **kw)
                    continue
                if not close(ev['ll'], weighted_sum, 1e-11):
                    bad('ll-not-weighted-sum-of-simulate', f'LL={ev["ll"]!r} but sum w*simulate={weighted_sum!r} rows={tab} perm={perm} T={T}', **kw)
                if not close(ev['ll'], ref_ll, 1e-9) or not close(ev['f'], ref_ll, 1e-9):
                    bad('ll-differs-from-reference', f'LL={ev["ll"]!r}/{ev["f"]!r} reference={ref_ll!r} rows={tab} perm={perm} T={T}', **kw)
                if not close(ev['lls'], ev['ll'] / n, 1e-12) or not close(ev['fs'], ev['f'] / n, 1e-12):
                    bad('scaled-not-ll-over-sample-size', f'scaled={ev["lls"]!r}/{ev["fs"]!r} LL={ev["ll"]!r} N={n} T={T}', **kw)
                if not all(close(a, c / n, 1e-12) for a, c in zip(ev['gs'], ev['g'])):
                    bad('scaled-gradient', f'{ev["gs"]} vs {ev["g"]}/N', **kw)
                if not all(close(a, c / n, 1e-12) for ra, rc in zip(ev['hs'], ev['h']) for a, c in zip(ra, rc)):
                    bad('scaled-hessian', f'{ev["hs"]} vs {ev["h"]}/N', **kw)
                if not all(close(a, c / n, 1e-12) for ra, rc in zip(ev['bhs'], ev['bh']) for a, c in zip(ra, rc)) \
                        or not all(close(a, c / n, 1e-12) for ra, rc in zip(ev['bhs2'], ev['bh']) for a, c in zip(ra, rc)):
                    bad('scaled-bhhh', f'{ev["bhs"]} / without Hessian {ev["bhs2"]} vs {ev["bh"]}/N', **kw)
                if not all(close(a, c, 1e-12) for ra, rc in zip(ev['bh3'], ev['bh']) for a, c in zip(ra, rc)):
                    bad('bhhh-depends-on-hessian-flag', f'{ev["bh3"]} vs {ev["bh"]}', **kw)
                if not all(close(a, c, 1e-8) for a, c in zip(ev['g'], ref_g)):
                    bad('gradient-not-weighted-sum', f'g={ev["g"]} reference={ref_g} rows={tab} perm={perm} T={T}', **kw)
                if not all(close(ev['h'][i][j], ref_h[i][j], 1e-8) for i in range(len(free)) for j in range(len(free))):
                    bad('hessian-not-weighted-sum', f'H={ev["h"]} reference={ref_h} rows={tab} perm={perm} T={T}', **kw)
                if not all(close(ev['bh'][i][j], ref_bh[i][j], 1e-8) for i in range(len(free)) for j in range(len(free))):
                    bad('bhhh-not-weighted-sum-of-outer-products', f'BHHH={ev["bh"]} reference={ref_bh} rows={tab} perm={perm} T={T}', **kw)
                if base is None:
                    base = ev
                else:
                    same = close(ev['ll'], base['ll'], 1e-11) and all(close(a, c, 1e-10) for a, c in zip(ev['g'], base['g'])) \
                        and all(close(ev['h'][i][j], base['h'][i][j], 1e-10) and close(ev['bh'][i][j], base['bh'][i][j], 1e-10)
                                for i in range(len(free)) for j in range(len(free)))
                    if not same:
                        bad('depends-on-row-order-or-thread-count',
                            f'perm={perm} T={T}: LL={ev["ll"]!r} g={ev["g"]} vs identity/T=1: LL={base["ll"]!r} g={base["g"]}', **kw)
        # all two-part splits: the values of the parts add up to the whole
        if base is not None and n >= 2:
            for mask in range(1, 2 ** n - 1):
                part1 = [rows0[i] for i in range(n) if mask >> i & 1]
                part2 = [rows0[i] for i in range(n) if not mask >> i & 1]
                for T in (1, 2):
                    try:
                        e1 = evaluate_all(build(model, weight, part1, T), x)
                        e2 = evaluate_all(build(model, weight, part2, T), x)
                    except Exception as e:
                        bad(f'raised-{type(e).__name__}', f'split {mask}: {e}', split=mask, threads=T, point=pi)
                        continue
                    rec.case((model, weight, tuple(tab), 'split', mask, T, pi), (tab, mask, T, pi, round(e1['ll'] + e2['ll'], 9)),
                             outcome=('split', True))
                    ok = close(e1['ll'] + e2['ll'], base['ll'], 1e-11) and \
                        all(close(a + c, d, 1e-10) for a, c, d in zip(e1['g'], e2['g'], base['g'])) and \
                        all(close(e1['h'][i][j] + e2['h'][i][j], base['h'][i][j], 1e-10) and
                            close(e1['bh'][i][j] + e2['bh'][i][j], base['bh'][i][j], 1e-10)
                            for i in range(len(free)) for j in range(len(free)))
                    if not ok:
                        bad('parts-do-not-add-up', f'split mask={mask} T={T}: {e1["ll"]}+{e2["ll"]} != {base["ll"]}',
                            split=mask, threads=T, point=pi)
    return rec.result()


def replay(case):
    if case.get('part') == 'panel':
        return run_task(dict(part='panel'))['violations']
    if case.get('part') == 'history':
        rec = Rec()
        _run_history(case['history'], rec)
        return rec.violations
    if case.get('part') == 'dbsplit':
        return [v for v in run_task(dict(part='dbsplit', n=case['n'], tier=case['tier']))['violations']
                if v['case'].get('perm') == case['perm'] and v['case'].get('slices') == case['slices']
                and v['case'].get('grouped') == case['grouped']]
    r = run_task(dict(model=case['model'], weight=case['weight'], table=case['table'], tier=case['tier']))
    return r['violations']
