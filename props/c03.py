"""C03 — parameters are identified by name everywhere, never by position of appearance.

Differential exploration: 4 model skeletons x ALL injective renamings of their <=3 parameters into a
5-name pool whose ASCII order, 'natural' order and order of appearance all differ x term orders (so
parameters are met in every order) x status assignments {free, free with distinct bounds, fixed} x
all 2^k partial name->value dictionaries.  Everything the library reports is mapped back through the
bijection and must equal what the plain-Python reference computes for the original skeleton.

Values reported under names / read back by name: the file of saved iterations (written by every evaluation with derivatives of
a model that saves its iterations - histories of 2 or 3 points on one object - and read by the next estimate(): hand-written
files = every subset of names x every order of the lines, and round trips between models meeting the parameters in different
orders), report_array, standard errors and variance-covariance tables against the reference's own Hessian / BHHH, draws for
sensitivity analysis requested for every ordered selection of names (normal draws with an owned random source, bootstrap
estimates with an owned resampler).

Written form of the declared values (part 'forms'): the value of a parameter may be written in its declaration as a Python int
(1) or as a float (1.0); it is the same value.  Whole-number values, ALL 2^3 assignments of the written forms {int, float} to the
three parameters x the status assignments x all 2^3 name->value dictionaries (non-integer values) given to the live model by
change_init_values (thorough: also fix_betas and get_value_c(betas=...)): the model, its simulation and its formula hold one value
per parameter, the one the reference computes from values alone.  Bound: 3 parameters, forms {int, float}, one dictionary per
object, 1 order-reversing renaming (thorough: 2).
"""
from __future__ import annotations

import itertools
import os

from vf import refsem as R
from vf.rec import Rec

ID = 'C03'
LEVEL = 'exploration'
TECHNIQUE = 'bounded exhaustive enumeration of renamings x term orders x status assignments x partial dictionaries; differential oracle through the renaming bijection against a plain-Python reference'
RULE = ('one case = one (skeleton, renaming, term order, status assignment) model on which log likelihood, gradient-by-name, bounds, '
        'simulation with full and partial dictionaries are compared; estimation cases = one estimate() per (skeleton, renaming, status) of the '
        'estimation family; duplicate cases = one per (kind pair, entry point). Non-trivial = the renaming is not the identity or the term order '
        'is not the canonical one; distinct = distinct tuples. Written values: one case per (model, prefix of a sequence of evaluated points) '
        'with the saved-iterations file read back; iterfile cases = one estimate() per (renaming, status, term order, subset of names, order of '
        'the lines of a hand-written file) and one per ordered pair of term orders (round trip). Written forms: one case per (skeleton, renaming, '
        'status assignment, assignment of the written forms int/float to the whole-number declared values of the 3 parameters, subset of names '
        'in the dictionary given to the live model); all 8 x 8 combinations per status assignment are enumerated; distinct = distinct tuples.')
ASSUMPTIONS = [
    'estimates compared up to optimiser tolerance (1e-4 relative) on strictly concave problems with a unique interior optimum',
    'a name->value dictionary that names a FIXED parameter does not change it (statement: fixed parameters keep exactly the value they were given)',
    'the sources of randomness behind the draws for sensitivity analysis are owned: numpy.random.multivariate_normal answers mean + (k+1)/2 for '
    'the k-th draw, Database.sample_with_replacement answers a menu of 4 row multisets in turn; statistics compared at 5e-3 relative',
    'which of the evaluated points the saved-iterations file keeps is not checked (only that it is one of them, name by name)',
]
ANCHOR_FILES = ['src/biogeme/expressions/idmanager.py', 'src/biogeme/expressions/beta_parameters.py',
                'src/biogeme/expressions/base_expressions.py', 'src/biogeme/biogeme.py', 'src/biogeme/results.py']

_SEED = int(os.environ.get('VERIF_SEED', '0') or 0)
NAME_POOLS = [
    ['b_z', 'B2', 'b10', 'b_a', 'a_c'],
    ['beta_2', 'beta_10', 'Beta_1', 'asc', 'ZETA'],
    ['p9', 'p10', 'P1', 'q_', 'a'],
]
NAMES = NAME_POOLS[_SEED % len(NAME_POOLS)]
DATA = [
    dict(x1=[1.0, 2.0, 0.5, 3.0, 1.5, 2.5], x2=[-1.0, 0.5, 2.0, -0.25, 1.0, -2.0], y=[1.5, 0.25, 2.0, 3.5, 0.5, 1.0],
         choice=[1, 2, 3, 1, 2, 3], av2=[1, 1, 0, 0, 1, 1], c2=[1, 2, 2, 1, 1, 2]),
    dict(x1=[0.5, 1.5, 2.5, 1.0, 3.5, 2.0], x2=[1.0, -0.5, 0.25, 2.0, -1.5, 0.75], y=[0.5, 2.5, 1.0, 0.75, 3.0, 2.0],
         choice=[3, 1, 2, 2, 1, 3], av2=[0, 1, 1, 1, 0, 1], c2=[2, 1, 1, 2, 2, 1]),
][(_SEED // 3) % 2]
COLS = ['x2', 'choice', 'y', 'x1', 'av2', 'c2']
ROWS = [{c: float(DATA[c][i]) for c in COLS} for i in range(6)]

# original parameter identities and their reference values
ORIG = {'p0': 0.5, 'p1': -0.75, 'p2': 1.25}
POINT = {'p0': 0.25, 'p1': 0.5, 'p2': -0.5}     # the point at which likelihoods are compared
BOUNDS = {'p0': (-11.0, 12.0), 'p1': (-21.0, 22.0), 'p2': (-31.0, 32.0)}  # distinct per parameter, inactive


def B(n):
    return ('beta', n)


def V(n):
    return ('var', n)


def _sq(t):
    return ('**', t, ('num', 2.0))


# skeleton -> list of equivalent term orders (first = canonical); parameters are met in different orders
SKELETONS = {
    'binlogit': [
        ('loglogit', V('c2'), ((1, ('+', ('*', B('p0'), V('x1')), B('p1')), None), (2, ('*', B('p2'), V('x2')), None))),
        ('loglogit', V('c2'), ((2, ('*', V('x2'), B('p2')), None), (1, ('+', B('p1'), ('*', V('x1'), B('p0'))), None))),
        ('loglogit', V('c2'), ((1, ('+', B('p1'), ('*', B('p0'), V('x1'))), None), (2, ('*', B('p2'), V('x2')), None))),
    ],
    'logit3': [
        ('loglogit', V('choice'), ((1, ('*', B('p0'), V('x1')), None), (2, ('+', B('p1'), ('*', B('p2'), V('x2'))), V('av2')),
                                   (3, ('*', B('p2'), V('x1')), None))),
        ('loglogit', V('choice'), ((3, ('*', V('x1'), B('p2')), None), (2, ('+', ('*', B('p2'), V('x2')), B('p1')), V('av2')),
                                   (1, ('*', V('x1'), B('p0')), None))),
    ],
    'regression': [
        ('neg', _sq(('-', ('-', V('y'), B('p0')), ('+', ('*', B('p1'), V('x1')), ('*', B('p2'), V('x2')))))),
        ('neg', _sq(('-', ('-', V('y'), ('+', ('*', V('x2'), B('p2')), ('*', V('x1'), B('p1')))), B('p0')))),
        ('neg', _sq(('-', ('-', ('-', V('y'), ('*', B('p2'), V('x2'))), ('*', B('p1'), V('x1'))), B('p0')))),
    ],
    'linutil': [
        ('+', ('linutil', (('p0', 'x1'), ('p1', 'x2'))), ('exp', ('*', B('p2'), ('num', 0.25)))),
        ('+', ('exp', ('*', ('num', 0.25), B('p2'))), ('linutil', (('p1', 'x2'), ('p0', 'x1')))),
    ],
}
ESTIMABLE = ['regression']   # strictly concave with a unique interior optimum on DATA


def renamings(k=3):
    """All injective maps of (p0,p1,p2) into the name pool."""
    return list(itertools.permutations(NAMES, k))


STATUSES = ['free', 'bounded', 'fixed']


def status_assignments(tier):
    allst = [s for s in itertools.product(STATUSES, repeat=3) if any(x != 'fixed' for x in s)]
    if tier == 'quick':
        keep = [('free', 'free', 'free'), ('bounded', 'free', 'fixed'), ('fixed', 'bounded', 'bounded'),
                ('free', 'fixed', 'bounded'), ('bounded', 'bounded', 'free')]
        return keep
    return allst


def rename(term, mapping):
    return R.subst(term, {('beta', o): ('beta', n) for o, n in mapping.items()})


def spec_for(mapping, statuses, values=None):
    values = ORIG if values is None else values
    spec = {}
    for (o, n), st in zip(mapping.items(), statuses):
        lb, ub = BOUNDS[o] if st == 'bounded' else (None, None)
        spec[n] = (values[o], lb, ub, 1 if st == 'fixed' else 0)
    return spec


def ref_values(term, params):
    return [R.evaluate(term, row, params) for row in ROWS]


def ref_ll_grad(term, free_orig, params):
    tot, g = 0.0, [0.0] * len(free_orig)
    for row in ROWS:
        f, gi, _ = R.evaluate_hd(term, free_orig, row, params)
        tot += f
        g = [a + b for a, b in zip(g, gi)]
    return tot, g


def close(a, b, rel=1e-9):
    return a == b or abs(a - b) <= 1e-11 + rel * max(abs(a), abs(b))


def tasks(tier, seed):
    t = []
    rn = renamings()
    for sk in SKELETONS:
        for i in range(0, len(rn), 6):
            t.append(dict(part='diff', skeleton=sk, lo=i, hi=min(i + 6, len(rn)), tier=tier))
    # estimations
    est_rn = rn if tier == 'thorough' else [rn[0], tuple(reversed(rn[0])), rn[7], rn[23], rn[41], rn[59]]
    for sk in ESTIMABLE:
        for r in est_rn:
            t.append(dict(part='estimate', skeleton=sk, renaming=list(r), tier=tier))
    t.append(dict(part='duplicates'))
    # histories of partial dictionaries on ONE expression object that keeps its id manager
    hist_rn = [rn[0], rn[59], rn[23]] if tier == 'quick' else rn[::4]
    for sk in SKELETONS:
        for r in hist_rn:
            t.append(dict(part='history', skeleton=sk, renaming=list(r), tier=tier))
    # dictionaries handed to a live BIOGEME object (change_init_values) and to a formula (fix_betas), naming fixed
    # parameters as well as free ones; sequences of two dictionaries
    set_rn = [rn[0], rn[59], rn[23], rn[41]] if tier == 'quick' else rn[::3]
    for sk in SKELETONS:
        for r in set_rn:
            t.append(dict(part='setvalues', skeleton=sk, renaming=list(r), tier=tier))
    for lo in range(0, 64, 4):
        t.append(dict(part='exotic', tier=tier, lo=lo, hi=lo + 4, fresh=True))
    # the way the value of a parameter is WRITTEN in its declaration (1 or 1.0): all 2^3 assignments of written forms to
    # whole-number values x status assignments (one task each) x all 2^3 dictionaries given to the live model (thorough: also
    # to the formula and to one evaluation of it)
    forms_rn = [rn[59]] if tier == 'quick' else [rn[59], rn[23]]
    for sk in SKELETONS:
        for r in forms_rn:
            for si in range(len(status_assignments(tier))):
                t.append(dict(part='forms', skeleton=sk, renaming=list(r), tier=tier, status=si))
    # the file of saved iterations as an input of estimate(): hand-written files (subsets of names x line orders) and round trips
    for sk in ESTIMABLE:
        for r in (rn if tier == 'thorough' else rn[::3]):
            t.append(dict(part='iterfile', skeleton=sk, renaming=list(r), tier=tier))
    return t


def on_abort(task, info):
    if task.get('part') == 'exotic':
        pool = EXOTIC_NAMES
        windows = [tuple(pool[(i + k) % len(pool)] for k in range(3)) for i in range(len(pool))]
        windows += [tuple(reversed(w)) for w in windows]
        return dict(key='C03|name-neither-handled-nor-refused-process-abort|exotic-names',
                    what=f"the process died (exit {info.get('exitcode')}) while a model with parameters named as one of "
                         f"{windows[task['lo']:task['hi']]} was built or evaluated: {str(info.get('log_tail', ''))[-160:]}",
                    case={k: v for k, v in task.items() if k != 'fresh'})
    return None


def run_task(task):
    rec = Rec()
    if task['part'] == 'diff':
        rn = renamings()
        for r in rn[task['lo']:task['hi']]:
            _diff_one(task['skeleton'], r, task['tier'], rec)
    elif task['part'] == 'estimate':
        _estimate(task, rec)
    elif task['part'] == 'duplicates':
        _duplicates(rec)
    elif task['part'] == 'history':
        _history(task, rec)
    elif task['part'] == 'setvalues':
        _setvalues(task, rec)
    elif task['part'] == 'exotic':
        _exotic(task, rec)
    elif task['part'] == 'iterfile':
        _iterfile(task, rec)
    elif task['part'] == 'forms':
        _forms(task, rec)
    return rec.result()


def _diff_one(sk, r, tier, rec):
    import numpy as np
    from vf.engine import make_db, make_biogeme
    mapping = dict(zip(['p0', 'p1', 'p2'], r))
    inv = {n: o for o, n in mapping.items()}
    canonical = SKELETONS[sk][0]
    for oi, variant in enumerate(SKELETONS[sk]):
        for statuses in status_assignments(tier):
            st = dict(zip(['p0', 'p1', 'p2'], statuses))
            free_orig = [o for o in ['p0', 'p1', 'p2'] if st[o] != 'fixed']
            # reference point: free parameters at POINT, fixed at their given value
            params = {o: (ORIG[o] if st[o] == 'fixed' else POINT[o]) for o in ORIG}
            want_ll, want_g = ref_ll_grad(canonical, free_orig, params)
            want_rows = ref_values(canonical, params)
            case = dict(part='diff', skeleton=sk, renaming=list(r), order=oi, statuses=list(statuses), tier=tier)
            nontriv = (list(r) != NAMES[:3]) or oi != 0
            key = ('diff', sk, r, oi, statuses)

            def bad(clause, what, **kw):
                rec.violation(f'C03|{clause}|{sk}', what + f' [renaming {mapping}, order {oi}, statuses {st}]', dict(case, **kw))

            try:
                spec = spec_for(mapping, statuses)
                expr = R.Builder(spec).build(rename(variant, mapping))
                db = make_db(ROWS, COLS)
                b = make_biogeme(db, expr)
                names = list(b.free_beta_names)
            except Exception as e:
                rec.case(key, ('raised', type(e).__name__), outcome='raised')
                bad(f'raised-{type(e).__name__}', f'{type(e).__name__}: {str(e)[:200]}')
                continue
            if sorted(names) != sorted(mapping[o] for o in free_orig):
                bad('free-parameter-set', f'free_beta_names={names}')
                continue
            x = np.array([POINT[inv[nm]] for nm in names], dtype=float)
            ll = float(b.calculate_likelihood(x, scaled=False))
            d = b.calculate_likelihood_and_derivatives(x, scaled=False, hessian=False, bhhh=False)
            gmap = {inv[nm]: float(v) for nm, v in zip(names, d.gradient)}
            rec.case(key if nontriv else None, (sk, r, oi, statuses, round(ll, 9)), outcome=('ll', len(free_orig)))
            if not close(ll, want_ll):
                bad('log-likelihood-changes-under-renaming', f'LL={ll!r} expected {want_ll!r}', expected=want_ll, observed=ll)
            if not all(close(gmap[o], w, 1e-8) for o, w in zip(free_orig, want_g)):
                bad('gradient-entry-attached-to-wrong-name', f'gradient by original name {gmap} expected {dict(zip(free_orig, want_g))}')
            # values REPORTED under names by a live model: the file of saved iterations (lines 'name = value', written by
            # every evaluation with derivatives of a model that saves its iterations) and the one-line report of a vector
            _written_values(sk, mapping, inv, variant, spec, db, free_orig, tier, bad, rec, key if nontriv else None)
            # bounds by name and by position
            for i, nm in enumerate(names):
                o = inv[nm]
                wantb = BOUNDS[o] if st[o] == 'bounded' else (None, None)
                gotb = tuple(b.get_bounds_on_beta(nm))
                posb = tuple(b.id_manager.bounds[i])
                if gotb != wantb or posb != wantb:
                    bad('bounds-attached-to-wrong-parameter', f'bounds of {nm} (orig {o}): by name {gotb}, by position {posb}, expected {wantb}')
            # random starting values: every parameter is drawn within ITS OWN bounds (the random source is owned: it answers
            # with the upper end of the interval it is asked for, so the value tells which interval was used)
            if any(st[o] == 'bounded' for o in free_orig):
                import numpy.random as npr
                saved_uniform = npr.uniform
                npr.uniform = lambda low=0.0, high=1.0, size=None: high
                try:
                    b.set_random_init_values(default_bound=100.0 + len(names))
                    rnd = {inv[nm]: float(v) for nm, v in b.get_beta_values().items() if nm in inv}
                except Exception as e:
                    bad(f'set_random_init_values-raised-{type(e).__name__}', str(e)[:200])
                    rnd = None
                finally:
                    npr.uniform = saved_uniform
                if rnd is not None:
                    want_rnd = {o: (BOUNDS[o][1] if st[o] == 'bounded' else 100.0 + len(names)) for o in free_orig}
                    if rnd != want_rnd:
                        bad('bounds-attached-to-wrong-parameter', f'set_random_init_values: upper ends used by original name {rnd}, expected {want_rnd}')
                b.change_init_values({mapping[o]: ORIG[o] for o in free_orig})
            # dictionary -> list conversion offered to users: values by name, in the reported (sorted) order, whatever the
            # insertion order of the dictionary; without a dictionary: the values the parameters have now
            try:
                given = {mapping[o]: POINT[o] for o in reversed(free_orig)}
                lst = [float(v) for v in b.beta_values_dict_to_list(dict(given))]
                lst0 = [float(v) for v in b.beta_values_dict_to_list()]
            except Exception as e:
                bad(f'beta_values_dict_to_list-raised-{type(e).__name__}', str(e)[:200])
            else:
                if lst != [POINT[inv[nm]] for nm in names]:
                    bad('dictionary-to-list-not-by-name', f'beta_values_dict_to_list({given}) = {lst} for names {names}')
                if lst0 != [ORIG[inv[nm]] for nm in names]:
                    bad('dictionary-to-list-not-by-name', f'beta_values_dict_to_list() = {lst0}; current values by name '
                        f'{[ORIG[inv[nm]] for nm in names]} for names {names}')
            # simulate with a full dictionary (insertion order of the dictionary = reverse sorted, irrelevant by statement)
            full = {mapping[o]: POINT[o] for o in reversed(free_orig)}
            try:
                fexpr = R.Builder(spec).build(rename(variant, mapping))
                bs = make_biogeme(db, {'f': fexpr})
                # history: every sub-formula that contains a proper, non-empty subset of the parameters is first evaluated
                # alone (which numbers it on its own); the values given by name must still reach the right parameters
                for node in _subformulas(fexpr):
                    try:
                        node.get_value_c(database=db, prepare_ids=True)
                    except Exception:
                        pass
                sim = [float(v) for v in bs.simulate(full)['f']]
                if not all(close(a, w) for a, w in zip(sim, want_rows)):
                    bad('simulate-dictionary-matched-by-position', f'simulate={sim} expected {want_rows}')
            except Exception as e:
                bad(f'simulate-raised-{type(e).__name__}', str(e)[:200])
            # all partial dictionaries through the expression-level entry point
            allnames = [mapping[o] for o in ['p0', 'p1', 'p2']]
            for mask in range(8):
                named = [o for i, o in enumerate(['p0', 'p1', 'p2']) if mask >> i & 1]
                dct = {mapping[o]: POINT[o] + 0.125 for o in named}
                # reference: named FREE parameters take the dictionary value; fixed ones keep theirs; others at initial value
                pr = {o: (ORIG[o] if (st[o] == 'fixed' or o not in named) else POINT[o] + 0.125) for o in ORIG}
                want = ref_values(canonical, pr)
                try:
                    e2 = R.Builder(spec).build(rename(variant, mapping))
                    got = [float(v) for v in e2.get_value_c(database=db, betas=dct, prepare_ids=True)]
                except Exception as e:
                    bad(f'partial-dictionary-raised-{type(e).__name__}', f'{dct}: {str(e)[:200]}', mask=mask)
                    continue
                rec.case(('partial', sk, r, oi, statuses, mask) if nontriv else None, (mask, [round(v, 9) for v in got]),
                         outcome=('partial', mask))
                if not all(close(a, w) for a, w in zip(got, want)):
                    bad('partial-dictionary-overrides-wrong-parameters', f'betas={dct}: {got} expected {want}', mask=mask)
    rec.sample(dict(skeleton=sk, renaming=mapping))


THIRD = {'p0': -0.375, 'p1': 1.5, 'p2': 0.75}     # a third point (no permutation of one point is another point)


class _scratch:
    """Private empty working directory (the file of saved iterations is written in / read from the working directory)."""

    def __enter__(self):
        import tempfile
        self.back = os.getcwd()
        self.dir = tempfile.mkdtemp(prefix='c03_', dir='/dev/shm' if os.path.isdir('/dev/shm') else None)
        os.chdir(self.dir)
        return self

    def __exit__(self, *a):
        import shutil
        os.chdir(self.back)
        shutil.rmtree(self.dir, ignore_errors=True)
        return False


def read_iter_file(file_name):
    """name -> value as written by the library: lines 'name = value'."""
    out = {}
    with open(file_name, encoding='utf-8') as f:
        for line in f:
            if line.strip():
                name, _, value = line.rstrip('\n').rpartition(' = ')
                out[name] = float(value)
    return out


def write_iter_file(file_name, pairs):
    with open(file_name, 'w', encoding='utf-8') as f:
        for name, value in pairs:
            f.write(f'{name} = {value!r}\n')


def _written_values(sk, mapping, inv, variant, spec, db, free_orig, tier, bad, rec, key):
    """A model that saves its iterations is evaluated (with derivatives) at a sequence of points given in the library's own
    order of the free parameters.  After every evaluation the file __<model>.iter holds, NAME BY NAME, one of the points
    evaluated so far (the only one after the first evaluation; which one is kept later is not this property's business),
    for exactly the free parameters.  report_array(x) pairs the same vector with names."""
    import numpy as np
    from vf.engine import make_biogeme
    pts = [POINT, ORIG, THIRD]
    # thorough: every order of the three points for the status assignments of the quick tier, both orders of two points for
    # the other assignments
    full = tier == 'thorough' and tuple('fixed' if o not in free_orig else 'bounded' if spec[mapping[o]][1] is not None else 'free'
                                        for o in ('p0', 'p1', 'p2')) in status_assignments('quick')
    seqs = list(itertools.permutations(range(3))) if full else [(0, 1), (1, 0)]
    for seq in seqs:
        try:
            with _scratch():
                bi = make_biogeme(db, R.Builder(spec).build(rename(variant, mapping)), save_iterations=True)
                bi.modelName = 'c03w'
                names = list(bi.free_beta_names)
                seen = []
                for step, pi in enumerate(seq):
                    pt = {o: pts[pi][o] for o in free_orig}
                    seen.append(pt)
                    x = np.array([pt[inv[nm]] for nm in names], dtype=float)
                    bi.calculate_likelihood_and_derivatives(x, scaled=False, hessian=False, bhhh=False)
                    on_file = read_iter_file('__c03w.iter')
                    got = {inv.get(nm, nm): v for nm, v in on_file.items()}
                    rec.case(('written',) + key[1:] + (seq[:step + 1],) if key else None, (seq[:step + 1], sorted(on_file.items())),
                             outcome=('written', step, len(free_orig)))
                    if got not in seen or (step == 0 and got != pt):
                        bad('iteration-file-values-under-wrong-names',
                            f'after evaluating at {[{mapping[o]: v for o, v in p.items()} for p in seen]} (by name) the file of saved '
                            f'iterations holds {on_file}', seq=list(seq))
                        break
                if seq == seqs[0]:
                    rep = bi.report_array(x)
                    got = dict(item.rpartition('=')[::2] for item in rep.split(', '))
                    want = {nm: f'{pt[inv[nm]]:.2g}' for nm in names}
                    if got != want:
                        bad('report_array-values-under-wrong-names', f'report_array of the point {want} (by name): {rep!r}')
        except Exception as e:
            bad(f'iteration-file-raised-{type(e).__name__}', f'sequence {seq}: {str(e)[:200]}', seq=list(seq))


def _history(task, rec):
    """All sequences (depth 2; thorough 3) of partial name->value dictionaries evaluated on one expression object
    whose id manager persists between calls (prepare_ids=False), through three holders: a prepared stand-alone
    expression, the log likelihood owned by a BIOGEME object, and create_function followed by dictionaries.
    Every evaluation must be history-free: named free parameters take the dictionary value, all others their own
    initial value, fixed ones keep theirs."""
    import numpy as np
    from vf.engine import make_db, make_biogeme
    sk, r, tier = task['skeleton'], tuple(task['renaming']), task['tier']
    mapping = dict(zip(['p0', 'p1', 'p2'], r))
    canonical = SKELETONS[sk][0]
    depth = 2 if tier == 'quick' else 3
    for statuses in (('free', 'free', 'free'), ('free', 'fixed', 'bounded')):
        st = dict(zip(['p0', 'p1', 'p2'], statuses))
        spec = spec_for(mapping, statuses)

        def ref(mask, shift):
            named = [o for i, o in enumerate(['p0', 'p1', 'p2']) if mask >> i & 1]
            pr = {o: (ORIG[o] if (st[o] == 'fixed' or o not in named) else POINT[o] + shift) for o in ORIG}
            return ref_values(canonical, pr)

        def dct(mask, shift):
            return {mapping[o]: POINT[o] + shift for i, o in enumerate(['p0', 'p1', 'p2']) if mask >> i & 1}

        for holder in ('prepared', 'biogeme', 'after_function'):
            for seq in itertools.product(range(8), repeat=depth):
                db = make_db(ROWS, COLS)
                expr = R.Builder(spec).build(rename(SKELETONS[sk][-1], mapping))
                case = dict(part='history', skeleton=sk, renaming=list(r), tier=tier)
                try:
                    if holder == 'prepared':
                        expr.prepare(db, 10)
                    elif holder == 'biogeme':
                        b = make_biogeme(db, expr)
                        b.calculate_likelihood(np.array([0.1 * (i + 1) for i in range(len(b.free_beta_names))]), scaled=False)
                    else:
                        f = expr.create_function(database=db, number_of_draws=10, gradient=False, hessian=False, bhhh=False)
                        f(np.array([0.3 * (i + 1) for i in range(len(expr.id_manager.free_betas_values))]))
                    bad_at = None
                    for step, mask in enumerate(seq):
                        shift = 0.125 * (step + 1)
                        got = [float(v) for v in expr.get_value_c(database=db, betas=dct(mask, shift), prepare_ids=False)]
                        want = ref(mask, shift)
                        if not all(close(a, w) for a, w in zip(got, want)):
                            bad_at = (step, mask, got, want)
                            break
                except Exception as e:
                    rec.case(('hist', sk, r, statuses, holder, seq), ('raised', type(e).__name__), outcome='raised')
                    rec.violation(f'C03|history-raised-{type(e).__name__}|{holder}:{sk}', f'{type(e).__name__}: {str(e)[:200]} seq={seq}', case)
                    continue
                rec.case(('hist', sk, r, statuses, holder, seq), (sk, r, statuses, holder, seq, bad_at is None), outcome=(holder, bad_at is None))
                if bad_at:
                    step, mask, got, want = bad_at
                    rec.violation(f'C03|dictionary-evaluation-depends-on-earlier-evaluations|{holder}',
                                  f'{holder} expression of {sk}, sequence of dictionaries (masks) {seq}: step {step} with {dct(mask, 0.125 * (step + 1))} gave {got}, '
                                  f'expected {want} [renaming {mapping}, statuses {st}]', case, expected=want, observed=got)
    rec.sample(dict(part='history', skeleton=sk, renaming=mapping, depth=depth))


EXOTIC_NAMES = ['b,2', 'a"q', 'p[1]', 'q{3}', 'r(4)', 's<5>', 't 6', "u'7", 'β_x', 'v=1', 'w;x', 'y|z', 'k#1', '2x', 'm,', '"n"',
                'o\\p', 'x%s', 'b{0}', 'c:d', 'e/f', 'g.h', 'i-j', 'k+l', 'm*n', 'p?', '~q', 'r@s', 't$', 'u&v', 'None', 'nan']


def _exotic(task, rec):
    """Renamings into names made of unusual characters (every window of three consecutive names of a 32-name pool, in both
    directions).  A name the library cannot handle may be refused with the library's own error; if the model is accepted,
    log likelihood, gradient (by name), simulation and the dictionary forms must be those of the reference."""
    import numpy as np
    from biogeme.exceptions import BiogemeError
    from vf.engine import make_db, make_biogeme, is_engine_error
    pool = EXOTIC_NAMES
    windows = [tuple(pool[(i + k) % len(pool)] for k in range(3)) for i in range(len(pool))]
    windows += [tuple(reversed(w)) for w in windows]
    windows = windows[task.get('lo', 0):task.get('hi', len(windows))]
    for sk in ('regression', 'binlogit'):
        canonical = SKELETONS[sk][0]
        variant = SKELETONS[sk][-1]
        for r in windows:
            mapping = dict(zip(['p0', 'p1', 'p2'], r))
            inv = {n: o for o, n in mapping.items()}
            statuses = ('free', 'free', 'fixed') if sum(map(len, r)) % 2 else ('free', 'free', 'free')
            st = dict(zip(['p0', 'p1', 'p2'], statuses))
            free_orig = [o for o in ['p0', 'p1', 'p2'] if st[o] != 'fixed']
            params = {o: (ORIG[o] if st[o] == 'fixed' else POINT[o]) for o in ORIG}
            want_ll, want_g = ref_ll_grad(canonical, free_orig, params)
            case = dict(part='exotic', skeleton=sk, renaming=list(r), tier=task['tier'], lo=task.get('lo', 0), hi=task.get('hi', 64))
            key = ('exotic', sk, r)

            def bad(clause, what):
                rec.violation(f'C03|{clause}|exotic-names:{sk}', what + f' [renaming {mapping}, statuses {st}]', case)

            try:
                expr = R.Builder(spec_for(mapping, statuses)).build(rename(variant, mapping))
                b = make_biogeme(make_db(ROWS, COLS), expr)
                names = list(b.free_beta_names)
                x = np.array([POINT[inv[nm]] for nm in names], dtype=float)
                ll = float(b.calculate_likelihood(x, scaled=False))
                d = b.calculate_likelihood_and_derivatives(x, scaled=False, hessian=False, bhhh=False)
                sim = float(sum(b.simulate({nm: POINT[inv[nm]] for nm in names})['log_like']))
            except BiogemeError as e:
                rec.case(key, (sk, r, 'refused'), outcome='refused')
                continue
            except Exception as e:
                rec.case(key, (sk, r, type(e).__name__), outcome='raised')
                bad(f'name-neither-handled-nor-refused-{type(e).__name__}', f'{type(e).__name__}: {str(e)[:160]}')
                if is_engine_error(e):
                    rec.retire = True
                    return
                continue
            gmap = {inv[nm]: float(v) for nm, v in zip(names, d.gradient)}
            rec.case(key, (sk, r, round(ll, 9)), outcome='accepted')
            if sorted(names) != sorted(mapping[o] for o in free_orig):
                bad('free-parameter-set', f'free_beta_names={names}')
            elif not close(ll, want_ll) or not close(sim, want_ll):
                bad('log-likelihood-changes-under-renaming', f'LL={ll!r}, sum of simulated values {sim!r}, expected {want_ll!r}')
            elif not all(close(gmap[o], w, 1e-8) for o, w in zip(free_orig, want_g)):
                bad('gradient-entry-attached-to-wrong-name', f'gradient by original name {gmap} expected {dict(zip(free_orig, want_g))}')


def _setvalues(task, rec):
    """Name->value dictionaries given to a live BIOGEME object (change_init_values: all 2^3 dictionaries, and all
    ordered pairs of them) and to a formula (fix_betas: all ordered pairs of the 2^3 dictionaries), for every status
    assignment, the dictionaries naming fixed parameters as well as free ones.

    change_init_values: a named free parameter takes the dictionary value, every other free parameter keeps the value it
    had; a fixed parameter that is not named keeps its value.  For a NAMED fixed parameter the statement can be read both
    ways (it keeps the value it was given / the dictionary overrides it), so both are accepted for it -- but nothing else
    may move.
    fix_betas: documented as "fix all the parameters appearing in the dictionary" at the value given there: afterwards the
    named parameters are fixed at the dictionary values (the later dictionary wins), the others are untouched."""
    from vf.engine import make_db, make_biogeme
    sk, r, tier = task['skeleton'], tuple(task['renaming']), task['tier']
    mapping = dict(zip(['p0', 'p1', 'p2'], r))
    inv = {n: o for o, n in mapping.items()}
    canonical = SKELETONS[sk][0]
    variant = SKELETONS[sk][-1]
    origs = ['p0', 'p1', 'p2']
    db = make_db(ROWS, COLS)

    def dict_for(mask, shift):
        # the first named parameter gets exactly 0.0 (a value, not "nothing given") when the mask is odd-sized
        named = [o for i, o in enumerate(origs) if mask >> i & 1]
        out = {mapping[o]: POINT[o] + shift for o in named}
        if len(named) % 2 == 1:
            out[mapping[named[0]]] = 0.0 if shift > 0 else 0
        return out

    for statuses in status_assignments(tier):
        st = dict(zip(origs, statuses))
        free_orig = [o for o in origs if st[o] != 'fixed']
        fixed_orig = [o for o in origs if st[o] == 'fixed']
        spec = spec_for(mapping, statuses)
        case0 = dict(part='setvalues', skeleton=sk, renaming=list(r), statuses=list(statuses), tier=tier)

        def bad(clause, what, **kw):
            rec.violation(f'C03|{clause}|{sk}', what + f' [renaming {mapping}, statuses {st}]', dict(case0, **kw))

        # ---- change_init_values on a live BIOGEME object: one dictionary, then a second one
        second = [None] + (list(range(1, 8)) if tier == 'thorough' else [1, 2, 4, 7])
        for m1 in range(1, 8):
            for m2 in second:
                seq = [dict_for(m1, 0.125)] + ([dict_for(m2, -0.375)] if m2 is not None else [])
                key = ('civ', sk, r, statuses, m1, m2)
                try:
                    expr = R.Builder(spec).build(rename(variant, mapping))
                    b = make_biogeme(db, expr)
                    for dct in seq:
                        b.change_init_values(dict(dct))
                    cur = {nm: float(v) for nm, v in b.get_beta_values().items()}
                    ll = float(b.calculate_init_likelihood())
                    sim_ll = float(sum(b.simulate(b.get_beta_values())['log_like'])) if tier == 'thorough' or (m1 + (m2 or 0)) % 3 == 0 else None
                    alone = float(sum(expr.get_value_c(database=db, prepare_ids=True)))
                except Exception as e:
                    rec.case(key, ('raised', type(e).__name__), outcome='raised')
                    bad(f'change_init_values-raised-{type(e).__name__}', f'{seq}: {str(e)[:200]}', m1=m1, m2=m2)
                    continue
                # whichever way a named fixed parameter is read, the model object and the formula it was built on hold ONE
                # value for every parameter: the likelihood of the model, its simulation, and the formula evaluated on
                # its own (which reads the values stored in the formula) agree
                if not close(ll, alone) or (sim_ll is not None and not close(sim_ll, alone)):
                    bad('model-and-its-formula-hold-different-values-after-change_init_values',
                        f'change_init_values{seq}: the model reports log likelihood {ll!r} (simulated: {sim_ll!r}) while the formula '
                        f'it was built on, evaluated on its own, gives {alone!r}', m1=m1, m2=m2)
                    continue
                want_free = {o: ORIG[o] for o in free_orig}
                fixed_options = {o: {ORIG[o]} for o in fixed_orig}
                for dct in seq:
                    for nm, v in dct.items():
                        if inv[nm] in want_free:
                            want_free[inv[nm]] = v
                        else:
                            fixed_options[inv[nm]].add(v)
                rec.case(key, (m1, m2, statuses, round(ll, 9)), outcome=('civ', len(seq), len(fixed_orig)))
                got_free = {inv[nm]: v for nm, v in cur.items() if nm in inv}
                if got_free != want_free:
                    bad('dictionary-overrides-a-parameter-it-does-not-name',
                        f'change_init_values{seq}: free parameters now {got_free} (by original name), expected {want_free}', m1=m1, m2=m2)
                    continue
                allowed = []
                for combo in itertools.product(*[sorted(fixed_options[o]) for o in fixed_orig]):
                    params = dict(want_free)
                    params.update(dict(zip(fixed_orig, combo)))
                    allowed.append(sum(ref_values(canonical, params)))
                if not any(close(ll, w) for w in allowed):
                    bad('dictionary-overrides-a-parameter-it-does-not-name',
                        f'change_init_values{seq}: log likelihood at the current values {ll!r}; expected one of {allowed} '
                        f'(free parameters {want_free}, fixed ones at their given or named value)', m1=m1, m2=m2)

        # ---- fix_betas on a formula: all ordered pairs of dictionaries
        for m1 in range(1, 8):
            for m2 in second:
                seq = [dict_for(m1, 0.125)] + ([dict_for(m2, -0.375)] if m2 is not None else [])
                key = ('fix', sk, r, statuses, m1, m2)
                try:
                    expr = R.Builder(spec).build(rename(variant, mapping))
                    for dct in seq:
                        expr.fix_betas(dict(dct))
                    got = [float(v) for v in expr.get_value_c(database=db, prepare_ids=True)]
                    still_free = sorted(expr.set_of_elementary_expression(_beta_free_type()))
                except Exception as e:
                    rec.case(key, ('raised', type(e).__name__), outcome='raised')
                    bad(f'fix_betas-raised-{type(e).__name__}', f'{seq}: {str(e)[:200]}', m1=m1, m2=m2)
                    continue
                params = dict(ORIG)
                named = set()
                for dct in seq:
                    for nm, v in dct.items():
                        params[inv[nm]] = v
                        named.add(inv[nm])
                want = ref_values(canonical, params)
                want_free = sorted(mapping[o] for o in free_orig if o not in named)
                rec.case(key, (m1, m2, statuses, [round(v, 9) for v in got]), outcome=('fix', len(seq), len(fixed_orig)))
                if not all(close(a, w) for a, w in zip(got, want)):
                    bad('fix_betas-value-not-the-one-named', f'fix_betas{seq}: values {got}, expected {want} (parameters {params} by original name)',
                        m1=m1, m2=m2)
                if still_free != want_free:
                    bad('fix_betas-status', f'fix_betas{seq}: free parameters afterwards {still_free}, expected {want_free}', m1=m1, m2=m2)


# whole-number values: each can be written in a declaration as a Python int (1) or as a float (1.0) -- the same value
WHOLE_POOLS = [{'p0': 1, 'p1': -2, 'p2': 0}, {'p0': 0, 'p1': 1, 'p2': -1}, {'p0': 2, 'p1': 0, 'p2': 1}]
WHOLE = WHOLE_POOLS[_SEED % len(WHOLE_POOLS)]
WRITTEN = {'float': float, 'int': int}


def _forms(task, rec):
    """The written form of the value in the declaration of a parameter is not part of its value: Beta(name, 1, ...) and
    Beta(name, 1.0, ...) declare the same parameter.  Whole-number values (WHOLE), ALL 2^3 assignments of the written forms
    {int, float} to the three parameters x status assignments x all 2^3 name->value dictionaries (non-integer values; the
    empty one = nothing given) handed (a) to the live BIOGEME object (change_init_values) and, in the thorough tier, (b) to
    the formula (fix_betas), (c) to an evaluation of the formula (get_value_c(betas=...)).  One task = one status assignment.

    Oracles (those of the parts 'diff' and 'setvalues'; the reference sees values only, so the written form cannot matter):
    before any dictionary the log likelihood is the reference's at the declared values (fixed parameters keep exactly the
    value they were given); after change_init_values a named free parameter has the dictionary value, the others keep
    theirs, a named fixed parameter has its given or its named value (both readings accepted), and the model, its
    simulation and the formula it was built on hold ONE value for every parameter; after fix_betas the named parameters
    are at the named values; get_value_c(betas=d) overrides the named free parameters only."""
    from vf.engine import make_db, make_biogeme
    sk, r, tier = task['skeleton'], tuple(task['renaming']), task['tier']
    mapping = dict(zip(['p0', 'p1', 'p2'], r))
    inv = {n: o for o, n in mapping.items()}
    canonical = SKELETONS[sk][0]
    variant = SKELETONS[sk][-1]
    origs = ['p0', 'p1', 'p2']
    db = make_db(ROWS, COLS)
    base = {o: float(WHOLE[o]) for o in origs}
    every_entry = tier == 'thorough'
    for statuses in [status_assignments(tier)[task['status']]]:
        st = dict(zip(origs, statuses))
        free_orig = [o for o in origs if st[o] != 'fixed']
        fixed_orig = [o for o in origs if st[o] == 'fixed']
        want_first = sum(ref_values(canonical, base))
        for forms in itertools.product(sorted(WRITTEN), repeat=3):
            values = {o: WRITTEN[f](WHOLE[o]) for o, f in zip(origs, forms)}
            spec = spec_for(mapping, statuses, values)
            ff = {forms[origs.index(o)] for o in fixed_orig}
            witness = f"{sk}:fixed-values-written-as-{'mixed' if len(ff) > 1 else ff.pop() if ff else 'none-fixed'}"
            case0 = dict(part='forms', skeleton=sk, renaming=list(r), status=task['status'], statuses=list(statuses), forms=list(forms), tier=tier)
            for mask in range(8):
                named = [o for i, o in enumerate(origs) if mask >> i & 1]
                dct = {mapping[o]: POINT[o] + 0.125 for o in named}
                key = ('forms', sk, r, statuses, forms, mask)
                case = dict(case0, mask=mask)

                def bad(clause, what):
                    rec.violation(f'C03|{clause}|{witness}', what + f' [renaming {mapping}, statuses {st}, declared values {values}]', case)

                try:
                    expr = R.Builder(spec).build(rename(variant, mapping))
                    b = make_biogeme(db, expr)
                    first = float(b.calculate_init_likelihood())
                    b.change_init_values(dict(dct))
                    cur = {nm: float(v) for nm, v in b.get_beta_values().items()}
                    ll = float(b.calculate_init_likelihood())
                    sim_ll = float(sum(b.simulate(b.get_beta_values())['log_like']))
                    alone = float(sum(expr.get_value_c(database=db, prepare_ids=True)))
                    part = fixed_at = None
                    if every_entry:
                        e2 = R.Builder(spec).build(rename(variant, mapping))
                        part = float(sum(e2.get_value_c(database=db, betas=dict(dct), prepare_ids=True)))
                        e3 = R.Builder(spec).build(rename(variant, mapping))
                        e3.fix_betas(dict(dct))
                        fixed_at = float(sum(e3.get_value_c(database=db, prepare_ids=True)))
                except Exception as e:
                    rec.case(key, ('raised', type(e).__name__), outcome='raised')
                    bad(f'written-form-raised-{type(e).__name__}', f'dictionary {dct}: {str(e)[:200]}')
                    continue
                rec.case(key, (sk, r, statuses, forms, mask, round(ll, 9)), outcome=('forms', len(named), len(fixed_orig)))
                if not close(first, want_first):
                    bad('fixed-parameter-does-not-keep-the-value-it-was-given',
                        f'log likelihood at the declared values {first!r}, expected {want_first!r}')
                    continue
                if not close(ll, alone) or not close(sim_ll, alone):
                    bad('model-and-its-formula-hold-different-values-after-change_init_values',
                        f'change_init_values({dct}): the model reports log likelihood {ll!r} (simulated: {sim_ll!r}) while the formula '
                        f'it was built on, evaluated on its own, gives {alone!r}')
                    continue
                want_free = {o: (POINT[o] + 0.125 if o in named else base[o]) for o in free_orig}
                got_free = {inv[nm]: v for nm, v in cur.items() if nm in inv}
                if got_free != want_free:
                    bad('dictionary-overrides-a-parameter-it-does-not-name',
                        f'change_init_values({dct}): free parameters now {got_free} (by original name), expected {want_free}')
                    continue
                allowed = []
                for combo in itertools.product(*[[base[o]] + ([POINT[o] + 0.125] if o in named else []) for o in fixed_orig]):
                    params = dict(want_free)
                    params.update(dict(zip(fixed_orig, combo)))
                    allowed.append(sum(ref_values(canonical, params)))
                if not any(close(ll, w) for w in allowed):
                    bad('dictionary-overrides-a-parameter-it-does-not-name',
                        f'change_init_values({dct}): log likelihood at the current values {ll!r}; expected one of {allowed}')
                want_part = sum(ref_values(canonical, dict(base, **{o: POINT[o] + 0.125 for o in named if o in free_orig})))
                if part is not None and not close(part, want_part):
                    bad('partial-dictionary-overrides-wrong-parameters', f'get_value_c(betas={dct}) sums to {part!r}, expected {want_part!r}')
                want_fix = sum(ref_values(canonical, dict(base, **{o: POINT[o] + 0.125 for o in named})))
                if fixed_at is not None and not close(fixed_at, want_fix):
                    bad('fix_betas-value-not-the-one-named', f'fix_betas({dct}): the formula sums to {fixed_at!r}, expected {want_fix!r}')
    rec.sample(dict(part='forms', skeleton=sk, renaming=mapping, statuses=list(statuses), values=WHOLE))


def _beta_free_type():
    from biogeme.expressions.elementary_types import TypeOfElementaryExpression
    return TypeOfElementaryExpression.FREE_BETA


def _subformulas(expr):
    """Nodes of a biogeme expression below the root that contain at least one parameter (data-free or not)."""
    from biogeme.expressions import TypeOfElementaryExpression as T
    out = []

    def walk(e, top):
        for c in e.get_children():
            walk(c, False)
        if not top and e.get_children() and e.set_of_elementary_expression(T.BETA) and not e.embed_expression('bioDraws'):
            out.append(e)

    walk(expr, True)
    return out[:6]


def newton(term, free, fixedvals, start, iters=60, rows=None):
    """Reference optimum of sum_rows term by Newton's method on exact hyper-dual derivatives."""
    rows = ROWS if rows is None else rows
    x = dict(start)
    n = len(free)
    for _ in range(iters):
        params = dict(fixedvals)
        params.update(x)
        g = [0.0] * n
        h = [[0.0] * n for _ in range(n)]
        for row in rows:
            _, gi, hi = R.evaluate_hd(term, free, row, params)
            for i in range(n):
                g[i] += gi[i]
                for j in range(n):
                    h[i][j] += hi[i][j]
        step = solve(h, [-v for v in g])
        for i, nm in enumerate(free):
            x[nm] += step[i]
        if max(abs(s) for s in step) < 1e-13:
            break
    return x


def solve(a, b):
    n = len(b)
    m = [row[:] + [b[i]] for i, row in enumerate(a)]
    for c in range(n):
        p = max(range(c, n), key=lambda r_: abs(m[r_][c]))
        m[c], m[p] = m[p], m[c]
        for r_ in range(c + 1, n):
            f = m[r_][c] / m[c][c]
            for k in range(c, n + 1):
                m[r_][k] -= f * m[c][k]
    x = [0.0] * n
    for i in reversed(range(n)):
        x[i] = (m[i][n] - sum(m[i][k] * x[k] for k in range(i + 1, n))) / m[i][i]
    return x


def matinv(a):
    n = len(a)
    cols = [solve(a, [1.0 if i == j else 0.0 for i in range(n)]) for j in range(n)]
    return [[cols[j][i] for j in range(n)] for i in range(n)]


def matmul(a, b):
    return [[sum(a[i][k] * b[k][j] for k in range(len(b))) for j in range(len(b[0]))] for i in range(len(a))]


def ref_stats(term, free, params, rows=None):
    """Rao-Cramer (-H^-1) and robust (sandwich) variance-covariance matrices of the reference at ``params``."""
    rows = ROWS if rows is None else rows
    n = len(free)
    h = [[0.0] * n for _ in range(n)]
    bh = [[0.0] * n for _ in range(n)]
    for row in rows:
        _, gi, hi = R.evaluate_hd(term, free, row, params)
        for i in range(n):
            for j in range(n):
                h[i][j] += hi[i][j]
                bh[i][j] += gi[i] * gi[j]
    v = matinv([[-x for x in row] for row in h])
    return v, matmul(v, matmul(bh, v))


RESAMPLES = [[0, 1, 2, 3, 4, 5], [5, 4, 3, 2, 1, 0], [5, 1, 2, 3, 4, 5], [0, 0, 2, 3, 4, 4]]   # answers of the owned resampler


def _statistics_by_name(res, canonical, free_orig, fixedvals, want, inv, bad):
    params = dict(fixedvals)
    params.update(want)
    try:
        v, rob = ref_stats(canonical, free_orig, params)
        pos = {o: i for i, o in enumerate(free_orig)}
        scale_v = max(abs(x) for row in v for x in row)
        scale_r = max(abs(x) for row in rob for x in row)

        def near(a, w, scale):
            return abs(float(a) - w) <= 5e-3 * abs(w) + 1e-4 * scale

        wrong = []
        for beta in res.data.betas:
            i = pos[inv[beta.name]]
            if not near(beta.stdErr, v[i][i] ** 0.5, scale_v ** 0.5):
                wrong.append(f'std err of {beta.name}: {beta.stdErr}, expected {v[i][i] ** 0.5}')
            if not near(beta.robust_stdErr, rob[i][i] ** 0.5, scale_r ** 0.5):
                wrong.append(f'robust std err of {beta.name}: {beta.robust_stdErr}, expected {rob[i][i] ** 0.5}')
        tv, tr = res.get_var_covar(), res.get_robust_var_covar()
        table = res.get_estimated_parameters(only_robust=False)
        for n1 in tv.index:
            i = pos[inv[n1]]
            if not near(table.loc[n1, 'Std err'], v[i][i] ** 0.5, scale_v ** 0.5) or \
                    not near(table.loc[n1, 'Rob. Std err'], rob[i][i] ** 0.5, scale_r ** 0.5):
                wrong.append(f'table row {n1}: std err {table.loc[n1, "Std err"]}, robust {table.loc[n1, "Rob. Std err"]}; expected '
                             f'{v[i][i] ** 0.5}, {rob[i][i] ** 0.5}')
            for n2 in tv.columns:
                j = pos[inv[n2]]
                if not near(tv.loc[n1, n2], v[i][j], scale_v):
                    wrong.append(f'covariance ({n1},{n2}): {tv.loc[n1, n2]}, expected {v[i][j]}')
                if not near(tr.loc[n1, n2], rob[i][j], scale_r):
                    wrong.append(f'robust covariance ({n1},{n2}): {tr.loc[n1, n2]}, expected {rob[i][j]}')
        if sorted(tv.index) != sorted(b_.name for b_ in res.data.betas) or len(res.data.betas) != len(free_orig):
            wrong.append(f'rows of the variance-covariance table {list(tv.index)}')
        if wrong:
            bad('statistic-attached-to-wrong-parameter', '; '.join(wrong[:4]))
    except Exception as e:
        bad(f'statistics-raised-{type(e).__name__}', str(e)[:200])


def _sensitivity_draws(res, vals, est_names, bad):
    import numpy as np
    import numpy.random as npr
    saved = npr.multivariate_normal

    def answer(mean, cov, size=None, *a, **kw):
        mean = np.asarray(mean, dtype=float)
        return np.array([mean + 0.5 * (k + 1) for k in range(int(size))])

    npr.multivariate_normal = answer
    try:
        for size in (1, 3):
            for k in range(1, len(est_names) + 1):
                for sel in itertools.permutations(est_names, k):
                    draws = res.get_betas_for_sensitivity_analysis(list(sel), size=size, use_bootstrap=False)
                    want_draws = [{nm: float(vals[nm]) + 0.5 * (d + 1) for nm in sel} for d in range(size)]
                    got_draws = [{nm: float(v) for nm, v in d.items()} for d in draws]
                    if len(got_draws) != size or any(sorted(g) != sorted(w) or any(abs(g[nm] - w[nm]) > 1e-12 for nm in w)
                                                     for g, w in zip(got_draws, want_draws)):
                        bad('sensitivity-draws-attached-to-wrong-name',
                            f'get_betas_for_sensitivity_analysis({list(sel)}, size={size}, use_bootstrap=False) with the source of draws '
                            f'answering estimate + (k+1)/2: {got_draws}; estimates {vals}')
                        return
    except Exception as e:
        bad(f'sensitivity-draws-raised-{type(e).__name__}', str(e)[:200])
    finally:
        npr.multivariate_normal = saved


def _bootstrap_by_name(sk, oi, mapping, inv, spec, canonical, free_orig, fixedvals, want, est_names, bad):
    from vf.engine import make_db, make_biogeme
    try:
        db = make_db(ROWS, COLS)
        bb = make_biogeme(db, R.Builder(spec).build(rename(SKELETONS[sk][oi], mapping)))
        bb.modelName = 'c03b'
        bb.bootstrap_samples = len(RESAMPLES)
        asked = []

        def answer(size=None):
            idx = RESAMPLES[len(asked) % len(RESAMPLES)]
            asked.append(size)
            return bb.database.data.iloc[idx].reset_index(drop=True)

        bb.database.sample_with_replacement = answer
        res = bb.estimate(run_bootstrap=True)
        if len(asked) != len(RESAMPLES):
            bad('bootstrap-resampler-not-asked-as-expected', f'{len(asked)} samples asked, {len(RESAMPLES)} requested')
            return
        refs = [newton(canonical, free_orig, fixedvals, dict(want), rows=[ROWS[i] for i in idx]) for idx in RESAMPLES]

        def near(a, w):
            return abs(a - w) <= 1e-4 * max(1.0, abs(w))

        for k in range(1, len(est_names) + 1):
            for sel in itertools.permutations(est_names, k):
                draws = res.get_betas_for_sensitivity_analysis(list(sel))
                got = [{nm: float(v) for nm, v in d.items()} for d in draws]
                if len(got) != len(RESAMPLES) or any(sorted(g) != sorted(sel) or not all(near(g[nm], ref[inv[nm]]) for nm in sel)
                                                     for g, ref in zip(got, refs)):
                    bad('bootstrap-estimates-attached-to-wrong-name',
                        f'get_betas_for_sensitivity_analysis({list(sel)}) after a bootstrap on the samples (rows) {RESAMPLES}: {got}; '
                        f'reference estimates on these samples (by original name) {refs}')
                    return
        # bootstrap standard error of each parameter = spread of ITS estimates over the samples
        m = len(refs)
        for beta in res.data.betas:
            o = inv[beta.name]
            mean = sum(ref[o] for ref in refs) / m
            sd = (sum((ref[o] - mean) ** 2 for ref in refs) / (m - 1)) ** 0.5
            if abs(beta.bootstrap_stdErr - sd) > 5e-3 * sd + 5e-4:
                bad('statistic-attached-to-wrong-parameter', f'bootstrap std err of {beta.name}: {beta.bootstrap_stdErr}, expected {sd}')
                return
    except Exception as e:
        bad(f'bootstrap-raised-{type(e).__name__}', str(e)[:200])


def _estimate(task, rec):
    from vf.engine import make_db, make_biogeme
    sk, r, tier = task['skeleton'], tuple(task['renaming']), task['tier']
    mapping = dict(zip(['p0', 'p1', 'p2'], r))
    inv = {n: o for o, n in mapping.items()}
    canonical = SKELETONS[sk][0]
    sts = [('free', 'free', 'free'), ('bounded', 'free', 'fixed'), ('free', 'fixed', 'bounded')]
    if tier == 'thorough':
        sts = status_assignments('quick')
    for statuses in sts:
        for oi in (0, len(SKELETONS[sk]) - 1):
            st = dict(zip(['p0', 'p1', 'p2'], statuses))
            free_orig = [o for o in ['p0', 'p1', 'p2'] if st[o] != 'fixed']
            fixedvals = {o: ORIG[o] for o in ORIG if st[o] == 'fixed'}
            want = newton(canonical, free_orig, fixedvals, {o: ORIG[o] for o in free_orig})
            case = dict(part='estimate', skeleton=sk, renaming=list(r), tier=tier)

            def bad(clause, what):
                rec.violation(f'C03|{clause}|estimate:{sk}', what + f' [renaming {mapping}, statuses {st}, order {oi}]', case)

            try:
                spec = spec_for(mapping, statuses)
                expr = R.Builder(spec).build(rename(SKELETONS[sk][oi], mapping))
                b = make_biogeme(make_db(ROWS, COLS), expr)
                b.modelName = 'c03'
                res = b.estimate()
            except Exception as e:
                rec.case(('est', sk, r, statuses, oi), ('raised', type(e).__name__), outcome='raised')
                bad(f'estimate-raised-{type(e).__name__}', str(e)[:300])
                continue
            vals = res.get_beta_values()
            rec.case(('est', sk, r, statuses, oi), (sk, r, statuses, oi, {k: round(v, 5) for k, v in sorted(vals.items())}),
                     outcome='estimated')
            got = {inv[nm]: v for nm, v in vals.items() if nm in inv}
            if sorted(got) != sorted(free_orig):
                bad('estimated-parameter-set', f'estimates for {sorted(vals)} expected {sorted(mapping[o] for o in free_orig)}')
                continue
            if not all(abs(got[o] - want[o]) <= 1e-4 * max(1.0, abs(want[o])) for o in free_orig):
                bad('estimate-attached-to-wrong-name', f'estimates by original identity {got} expected {want}')
            # values requested by name: every ordered non-empty subset of the estimated names
            est_names = [mapping[o] for o in free_orig]
            for k in range(1, len(est_names) + 1):
                for sel in itertools.permutations(est_names, k):
                    try:
                        sub = res.get_beta_values(my_betas=list(sel))
                    except Exception as e:
                        bad(f'get_beta_values-raised-{type(e).__name__}', f'my_betas={sel}: {str(e)[:200]}')
                        break
                    if sorted(sub) != sorted(sel) or any(abs(sub[nm] - vals[nm]) > 0 for nm in sel):
                        bad('get_beta_values-of-a-selection-attached-to-wrong-name', f'get_beta_values({list(sel)}) = {sub}, all estimates {vals}')
                        break
            # results' own pairing of name / value / bounds
            for beta in res.data.betas:
                o = inv.get(beta.name)
                if o is None:
                    bad('unknown-parameter-in-results', beta.name)
                    continue
                wantb = BOUNDS[o] if st[o] == 'bounded' else (None, None)
                if (beta.lb, beta.ub) != wantb or abs(beta.value - want[o]) > 1e-4 * max(1.0, abs(want[o])):
                    bad('results-row-mixes-name-value-bounds', f'{beta.name}: value {beta.value}, bounds ({beta.lb},{beta.ub}); expected {want[o]}, {wantb}')
            try:
                table = res.get_estimated_parameters()
                for nm in table.index:
                    o = inv[nm]
                    if abs(float(table.loc[nm, 'Value']) - want[o]) > 1e-4 * max(1.0, abs(want[o])):
                        bad('estimated-parameters-table-row-mislabelled', f'row {nm}: {table.loc[nm, "Value"]} expected {want[o]}')
            except Exception as e:
                bad(f'get_estimated_parameters-raised-{type(e).__name__}', str(e)[:200])
            # fixed parameters untouched, formulas' starting values = estimates
            after = expr.get_beta_values()
            for nm, v in after.items():
                if abs(v - vals[nm]) > 0:
                    bad('starting-values-after-estimation-differ-from-estimates', f'{nm}: {v} vs {vals[nm]}')
            # statistics attached to the parameter: standard errors and (robust) variance-covariance entries BY NAME
            _statistics_by_name(res, canonical, free_orig, fixedvals, want, inv, bad)
            # draws of the estimators for sensitivity analysis, requested by name (every ordered non-empty selection); the
            # random source is owned: the k-th draw it answers is the vector of means it was asked for, shifted by (k+1)/2
            _sensitivity_draws(res, vals, est_names, bad)
            # the same request served from bootstrap estimates; the resampling is owned (a menu of row multisets answered in
            # turn), the reference re-estimates on each answered sample
            _bootstrap_by_name(sk, oi, mapping, inv, spec, canonical, free_orig, fixedvals, want, est_names, bad)


def _iterfile(task, rec):
    """The file of saved iterations as an INPUT: estimate() of a model that saves its iterations starts from the values found
    in the file __<model>.iter of the working directory, matched by name.

    (a) hand-written files: every subset of the model's parameter names (fixed ones included) x every order of the lines;
        the initial log likelihood reported by the estimation is the reference's at {named free parameter: value on file,
        other free parameter: its own starting value, fixed parameter: its given value (for a NAMED fixed parameter the
        value on file is accepted too, as for change_init_values)}; the estimates are the reference's whatever the start;
        the file left behind holds the estimates name by name.
    (b) round trip: a first model writes the file while it is estimated, a second model (same names, other term order, same
        model name) is estimated in the same directory: it starts, name by name, from the values on file."""
    from vf.engine import make_db, make_biogeme
    sk, r, tier = task['skeleton'], tuple(task['renaming']), task['tier']
    mapping = dict(zip(['p0', 'p1', 'p2'], r))
    inv = {n: o for o, n in mapping.items()}
    canonical = SKELETONS[sk][0]
    origs = ['p0', 'p1', 'p2']
    sts = [('free', 'free', 'free'), ('bounded', 'free', 'fixed'), ('free', 'fixed', 'bounded')]
    if tier == 'thorough':
        sts = status_assignments('quick')
    orders = list(range(len(SKELETONS[sk])))
    db = make_db(ROWS, COLS)
    for statuses in sts:
        st = dict(zip(origs, statuses))
        free_orig = [o for o in origs if st[o] != 'fixed']
        fixed_orig = [o for o in origs if st[o] == 'fixed']
        fixedvals = {o: ORIG[o] for o in fixed_orig}
        want = newton(canonical, free_orig, fixedvals, {o: ORIG[o] for o in free_orig})
        spec = spec_for(mapping, statuses)
        case = dict(part='iterfile', skeleton=sk, renaming=list(r), tier=tier)

        def bad(clause, what):
            rec.violation(f'C03|{clause}|iterfile:{sk}', what + f' [renaming {mapping}, statuses {st}]', case)

        def model(oi):
            b = make_biogeme(db, R.Builder(spec).build(rename(SKELETONS[sk][oi], mapping)), save_iterations=True)
            b.modelName = 'c03r'
            return b

        def file_ok(on_file, what):
            got = {inv.get(nm, nm): v for nm, v in on_file.items()}
            if sorted(got) != sorted(free_orig) or not all(abs(got[o] - want[o]) <= 1e-4 * max(1.0, abs(want[o])) for o in free_orig):
                bad('iteration-file-values-under-wrong-names', f'{what}: the file left by the estimation holds {on_file}; estimates '
                    f'expected (by original name) {want}')
                return False
            return True

        # ---- (a) hand-written files
        for oi in ((orders[-1],) if tier == 'quick' else (orders[0], orders[-1])):
            for mask in range(8):
                named = [o for i, o in enumerate(origs) if mask >> i & 1]
                stop = False
                for lines in itertools.permutations(named):
                    pairs = [(mapping[o], POINT[o] + 0.125) for o in lines]
                    key = ('file', sk, r, statuses, oi, lines)
                    try:
                        with _scratch():
                            write_iter_file('__c03r.iter', pairs)
                            res = model(oi).estimate()
                            on_file = read_iter_file('__c03r.iter')
                    except Exception as e:
                        rec.case(key, ('raised', type(e).__name__), outcome='raised')
                        bad(f'estimate-from-file-raised-{type(e).__name__}', f'file {pairs}: {str(e)[:200]}')
                        stop = True
                        break
                    init = float(res.data.initLogLike)
                    rec.case(key, (sk, r, statuses, oi, lines, round(init, 8)), outcome=('file', len(named), len(fixed_orig)))
                    start = {o: (POINT[o] + 0.125 if o in named else ORIG[o]) for o in free_orig}
                    allowed = []
                    for combo in itertools.product(*[[ORIG[o]] + ([POINT[o] + 0.125] if o in named else []) for o in fixed_orig]):
                        params = dict(start)
                        params.update(dict(zip(fixed_orig, combo)))
                        allowed.append(sum(ref_values(canonical, params)))
                    if not close(init, allowed[0]):
                        if any(close(init, w) for w in allowed[1:]):
                            rec.count('file_overrides_named_fixed_parameter')
                            continue        # the other reading for a named fixed parameter: the optimum is another one
                        bad('iteration-file-read-not-by-name', f'file {pairs} (lines in this order): the estimation starts at log likelihood '
                            f'{init!r}; expected {allowed[0]!r} (free parameters at {start} by original name)')
                        stop = True
                        break
                    vals = {inv.get(nm, nm): float(v) for nm, v in res.get_beta_values().items()}
                    if sorted(vals) != sorted(free_orig) or not all(abs(vals[o] - want[o]) <= 1e-4 * max(1.0, abs(want[o])) for o in free_orig):
                        bad('estimate-attached-to-wrong-name', f'started from the file {pairs}: estimates by original name {vals}, expected {want}')
                        stop = True
                        break
                    if not file_ok(on_file, f'started from the file {pairs}'):
                        stop = True
                        break
                if stop:
                    break
        # ---- (b) round trip between two models that meet the parameters in different orders
        for o1, o2 in itertools.permutations(orders, 2):
            key = ('roundtrip', sk, r, statuses, o1, o2)
            try:
                with _scratch():
                    model(o1).estimate()
                    on_file = read_iter_file('__c03r.iter')
                    res2 = model(o2).estimate()
                    on_file2 = read_iter_file('__c03r.iter')
            except Exception as e:
                rec.case(key, ('raised', type(e).__name__), outcome='raised')
                bad(f'estimate-from-file-raised-{type(e).__name__}', f'round trip {o1}->{o2}: {str(e)[:200]}')
                continue
            init2 = float(res2.data.initLogLike)
            rec.case(key, (sk, r, statuses, o1, o2, round(init2, 6)), outcome=('roundtrip', len(fixed_orig)))
            if not file_ok(on_file, f'first model (term order {o1})') or not file_ok(on_file2, f'second model (term order {o2})'):
                continue
            params = dict(fixedvals)
            params.update({inv[nm]: v for nm, v in on_file.items()})
            want_init = sum(ref_values(canonical, params))
            if not close(init2, want_init, 1e-8):
                bad('restart-from-iteration-file-not-by-name', f'a model (term order {o2}) estimated in the directory where the same model '
                    f'(term order {o1}) left {on_file} starts at log likelihood {init2!r}; at these values by name it is {want_init!r}')
    rec.sample(dict(part='iterfile', skeleton=sk, renaming=mapping))


def _duplicates(rec):
    """One name for two different kinds of element is refused (all 10 unordered kind pairs, 2 entry points)."""
    import biogeme.expressions as ex
    from biogeme.exceptions import BiogemeError
    from vf.engine import make_db, make_biogeme

    def mk(kind, name):
        if kind == 'free':
            return ex.Beta(name, 0.5, None, None, 0)
        if kind == 'fixed':
            return ex.Beta(name, 0.5, None, None, 1)
        if kind == 'rv':
            return ex.RandomVariable(name)
        if kind == 'draw':
            return ex.bioDraws(name, 'NORMAL')
        return ex.Variable(name)

    kinds = ['free', 'fixed', 'rv', 'draw', 'column']
    for a, bk in itertools.combinations(kinds, 2):
        for entry in ('biogeme', 'expression'):
            name = 'x1' if 'column' in (a, bk) else 'dup'
            ea, eb = mk(a, name), mk(bk, name)

            def wrap(e, k):
                if k == 'draw':
                    return ex.MonteCarlo(e)
                if k == 'rv':
                    return ex.Integrate(e * ex.exp(-e * e), name)
                return e

            # place both inside the operators they need
            if 'rv' in (a, bk) and 'draw' in (a, bk):
                f = ex.MonteCarlo(ea if a == 'draw' else eb) + ex.Integrate((ea if a == 'rv' else eb), name)
            elif 'rv' in (a, bk):
                other = eb if a == 'rv' else ea
                rv = ea if a == 'rv' else eb
                f = ex.Integrate(rv * other, name)
            elif 'draw' in (a, bk):
                f = ex.MonteCarlo(ea * eb)
            else:
                f = ea + eb
            db = make_db(ROWS, COLS)
            case = dict(part='duplicates', pair=[a, bk], entry=entry)
            try:
                if entry == 'biogeme':
                    make_biogeme(db, f, number_of_draws=4)
                else:
                    f.get_value_c(database=db, number_of_draws=4, prepare_ids=True)
                rec.case(('dup', a, bk, entry), (a, bk, entry, 'accepted'), outcome='accepted')
                rec.violation(f'C03|one-name-for-two-kinds-accepted|{a}+{bk}', f'name {name!r} used for a {a} and a {bk} was accepted by {entry}', case)
                rec.retire = True
            except BiogemeError:
                rec.case(('dup', a, bk, entry), (a, bk, entry, 'refused'), outcome='refused')
            except Exception as e:
                rec.case(('dup', a, bk, entry), (a, bk, entry, type(e).__name__), outcome='other-error')
                rec.violation(f'C03|one-name-for-two-kinds-wrong-error-{type(e).__name__}|{a}+{bk}',
                              f'name {name!r} used for a {a} and a {bk}: {entry} raised {type(e).__name__}: {str(e)[:200]}', case)
                rec.retire = True


def replay(case):
    rec = Rec()
    if case['part'] == 'diff':
        _diff_one(case['skeleton'], tuple(case['renaming']), case['tier'], rec)
    elif case['part'] == 'estimate':
        _estimate(case, rec)
    elif case['part'] == 'history':
        _history(case, rec)
    elif case['part'] == 'setvalues':
        _setvalues(case, rec)
    elif case['part'] == 'iterfile':
        _iterfile(case, rec)
    elif case['part'] == 'forms':
        _forms(case, rec)
    elif case['part'] == 'exotic':
        # in a child process: a name the engine cannot parse may take the process down
        import multiprocessing as mp
        import sys
        ctx = mp.get_context('spawn')
        p = ctx.Process(target=_exotic_child, args=(dict(case),))
        p.start()
        p.join(600)
        if p.exitcode not in (0, 3):
            return [on_abort(dict(case, lo=case.get('lo', 0), hi=case.get('hi', 64)), dict(exitcode=p.exitcode, log_tail=''))]
        return [dict(key='replayed-in-child', what='violation reproduced in the child process', case=case)] if p.exitcode == 3 else []
    else:
        _duplicates(rec)
    return rec.violations


def _exotic_child(case):
    import sys
    rec = Rec()
    _exotic(case, rec)
    wanted = [v for v in rec.violations if 'renaming' not in case or v['case'].get('renaming') == case.get('renaming')]
    sys.exit(3 if wanted else 0)
